#!/usr/bin/env python3
"""Generates MANIFEST.json from the table below (single source of truth); validates it against the schema if jsonschema is available."""
import json, os, sys
ROOT = os.path.dirname(os.path.abspath(__file__))
PROPS = [json.loads(l)['id'] for l in open(os.path.join(ROOT, 'properties.jsonl'))]

BASELINE = "cd /repo && /venv/bin/python -m pytest -ra -q -p no:cacheprovider --timeout=900 --continue-on-collection-errors"

# id -> (level, technique, text, note, design_ref, engine)
CLAIMED = {
 'C13': ('model_checking',
         'TLC exhaustive check of StreamIds.tla + replay of every transition of its state graph on the real StreamControl',
         'TLC explores every history of allocate/register/finish/incoming on id spaces 0..7 and 0..15 for both parities and checks the '
         'declarative clauses of C13 on the allocator algorithm; the complete state graph (24.7k states, 293k transitions) is then replayed '
         'transition by transition on the real StreamControl, plus walks at the real 31-bit scale through a window refinement. '
         'Exhaustive for the reduced spaces, which is what the property asks for.',
         'Trusted: TLC, the ~300-line replayer, the reduction of the id space through StreamControl._maximum_stream_id (the suite\'s own device). '
         'Histories longer than the reduced space are covered because the graph is complete (every reachable state, every operation).',
         'DESIGN 6/C13', 'ids'),
}

NOT_YET = 'machinery for this property is still being built in this round (see DESIGN.md section 11); not claimed until its check exists'

def main():
    checks = []
    for pid in PROPS:
        if pid not in CLAIMED:
            continue
        level, technique, text, note, ref, engine = CLAIMED[pid]
        checks.append({
            'property_id': pid,
            'quick_cmd': './check %s --tier quick' % pid,
            'thorough_cmd': './check %s --tier thorough' % pid,
            'evidence_file': 'evidence/%s.json' % pid,
            'replay_cmd_template': './check replay {path}',
            'engine': engine,
            'level_claimed': {'category': level, 'text': text, 'design_ref': ref},
            'level_note': note,
            'technique': technique,
        })
    man = {
        'version': 1,
        'setup_cmd': './setup.sh',
        'hooks': {
            'guard': 'RSOCKET_PY_VERIF',
            'enable': 'no hooks are compiled into /repo: every observation is made from outside (wrapped endpoint/transport instances, recording application objects, virtual-time loop); the guard name is reserved and unused',
            'baseline_off_cmd': BASELINE,
            'source_commits': [],
            'add_only': True,
        },
        'engines': [
            {'name': 'ids', 'path': 'spec/StreamIds.tla + vf/props/c13.py', 'serves_properties': ['C13'],
             'kind_free_text': 'TLA+ component spec, TLC exhaustive + full state-graph replay on the real object'},
        ],
        'checks': checks,
        'notes': 'Model-based verification with explicit TLA+ specifications (spec/*.tla) checked by TLC and bound to /repo by conformance checks in both directions. See DESIGN.md.',
        'not_applicable': [{'property_id': p, 'reason': NOT_YET} for p in PROPS if p not in CLAIMED],
    }
    with open(os.path.join(ROOT, 'MANIFEST.json'), 'w') as f:
        json.dump(man, f, indent=1)
    try:
        import jsonschema
        jsonschema.validate(man, json.load(open('/root/.vp/MANIFEST.schema.json')))
        print('MANIFEST.json valid;', len(checks), 'checks,', len(man['not_applicable']), 'not_applicable')
    except ImportError:
        print('written (jsonschema not available for validation)')

if __name__ == '__main__':
    main()
