#!/usr/bin/env python3
"""Generates MANIFEST.json from the table below (single source of truth); validates it against the schema if jsonschema is available."""
import json, os, sys
ROOT = os.path.dirname(os.path.abspath(__file__))
PROPS = [json.loads(l)['id'] for l in open(os.path.join(ROOT, 'properties.jsonl'))]

BASELINE = "cd /repo && /venv/bin/python -m pytest -ra -q -p no:cacheprovider --timeout=900 --continue-on-collection-errors"

CONN_NOTE = "Trusted: TLC; the harness (virtual-time loop, simulated link over the real TransportTCP / aiohttp websocket transport classes, recording application, independent wire decoder); the correspondence between recorded events and what happened (demonstrated by ./check selftest: corrupted traces and source-level mutants are rejected). Schedules are those reachable at callback granularity on CPython's FIFO loop. Exhaustive only within the constants of the model-checking configs; larger instances are covered by recorded traces, not exhaustively. Kernel sockets, TLS, QUIC are not driven."

# id -> (level, technique, text, note, design_ref, engine)
CLAIMED = {
 'C13': ('model_checking',
         'TLC exhaustive check of StreamIds.tla + replay of every transition of its state graph on the real StreamControl; Apalache symbolic check of the allocation step at the real 31-bit scale (StreamIdsScale.tla); Dispatch.tla rows for request frames that reuse an active id replayed on both real endpoints',
         'TLC explores every history of allocate/register/finish/incoming on id spaces 0..7 and 0..15 for both parities and checks the '
         'declarative clauses of C13 on the allocator algorithm; the complete state graph (24.7k states, 293k transitions) is then replayed '
         'transition by transition on the real StreamControl, plus walks at the real 31-bit scale through a window refinement. '
         'Exhaustive for the reduced spaces, which is what the property asks for.',
         'Trusted: TLC, the ~300-line replayer, the reduction of the id space through StreamControl._maximum_stream_id (the suite\'s own device). '
         'Histories longer than the reduced space are covered because the graph is complete (every reachable state, every operation).',
         'DESIGN 6/C13', 'ids'),
 'C01': ('model_checking',
   'TLC trace validation of recorded executions of the real endpoints against RSocket.tla, incl. schedules that cover every transition pair of the design-model graphs (RSocketMC.tla) and every transition of the two-interaction model (RSocketMC2.tla); design-level TLC model checking of the same monitors',
   'Recorded traces of the real endpoints (all five interaction models, either initiator, fragment sizes none/64/65/67/100/1000, TCP framing with adversarial read chunking and message framing, gated sender, scripted and library publishers) are validated by TLC against RSocket.tla: every delivery must be the next undelivered payload of its own stream and direction, byte-for-byte (payload ids are resolved from the delivered bytes), responses correlate with their requests, and at quiescence everything handed has been delivered exactly once.',
   CONN_NOTE, 'DESIGN 6/C01', 'conn'),
 'C05': ('model_checking',
   'TLC model checking of Mux.tla (send queue + reassembly cache; safety and liveness) with every transition of its state graph replayed on the real sender code; TLC trace validation of recorded executions of the real endpoints against RSocket.tla',
   "Mux.tla models send_frame / send_priority_frame / _get_next_frame_to_send / _cycle_send_queue and the peer's FrameFragmentCache, one action per critical section; TLC checks per-stream wire order, exact reassembly, in-order single delivery, SETUP first and eventual drain over every interleaving, refutes the pre-fix 'naive' rotation as a control, and the complete state graph (41,833 transitions) is replayed step by step on a real RSocketClient queue and cache comparing written fragment, queue order and reassembled frames. Per-stream FIFO and fragment contiguity are clauses of the send-queue model in RSocket.tla (OnEnq/OnTx): every frame on the wire must be the next fragment of the oldest queued frame of its stream, and what the peer's transport decodes must equal what was sent. Families hold the sender's gate closed while several fragmented and unfragmented frames are queued on the same and on different streams.",
   CONN_NOTE, 'DESIGN 6/C05', 'conn'),
 'C06': ('model_checking',
   'TLC model checking of Source.tla (the library stream sources as publishers under request(n)/cancel() calls that pile up) with every transition replayed on the real publisher classes; TLC trace validation of recorded executions of the real endpoints against RSocket.tla (+ design-level TLC model checking of the same monitors)',
   "Credit accounting is a monitor of RSocket.tla evaluated from the emitting endpoint's own receptions: a library stream source never has more elements queued than credit received, the n on the wire equals what the application granted, and at quiescence everything available within credit was delivered.",
   CONN_NOTE, 'DESIGN 6/C06', 'conn'),
 'C07': ('model_checking',
   'TLC trace validation of recorded executions of the real endpoints against RSocket.tla (+ design-level TLC model checking of the same monitors)',
   'Signal-sequence monitors (subscribe first and once, at most one terminal, nothing after it, future resolved once) evaluated by TLC on every recorded callback of every subscriber/future in both roles.',
   CONN_NOTE, 'DESIGN 6/C07', 'conn'),
 'C08': ('model_checking',
   "TLC trace validation of recorded executions of the real endpoints against RSocket.tla (+ design-level TLC model checking of the same monitors); the repository's own test suite recorded by a pytest plugin (no change to /repo) and every connection trace validated against the same TLA+ monitor",
   "A wire monitor per endpoint (RSocket.tla OnEnq) judges every queued frame against the endpoint's own earlier emissions and receptions: SETUP first and once, parity, first frame is a request, frame types allowed for role and interaction model, positive initial n, no payload after own complete, nothing after ERROR / requester CANCEL / both directions complete, connection frames on stream 0 only.",
   CONN_NOTE, 'DESIGN 6/C08', 'conn'),
 'C09': ('model_checking',
   'TLC trace validation of recorded executions of the real endpoints against RSocket.tla, incl. schedules that cover every transition pair of the design-model graphs (RSocketMC.tla) and every transition of the two-interaction model (RSocketMC2.tla); design-level TLC model checking of the same monitors; Source.tla (cancel() on the library sources at every point) and Lease.tla (cancel of a request held back for a lease) replayed on the real classes',
   "Cancellation monitors: exactly one CANCEL per pending cancellation, nothing delivered to the canceller afterwards, the peer's publisher / handler future / library source is cancelled by quiescence and produces nothing afterwards; cancels are issued at random moments including in the same read as the request.",
   CONN_NOTE, 'DESIGN 6/C09', 'conn'),
 'C10': ('model_checking',
   'TLC trace validation of recorded executions of the real endpoints against RSocket.tla, incl. schedules that cover every transition pair of the design-model graphs (RSocketMC.tla) and every transition of the two-interaction model (RSocketMC2.tla); design-level TLC model checking of the same monitors',
   'At every quiescence snapshot the real stream table and reassembly cache of both endpoints are compared with the set of interactions the specification still considers live (normally empty), over every ending the families produce.',
   CONN_NOTE, 'DESIGN 6/C10', 'conn'),
 'C03': ('model_checking',
         'TLC exhaustive check of Fragmenter.tla (all legal plans) + every plan fed to the real reassembly cache + observed plans of the real fragmenter validated by TLC',
         'Fragmenter.tla is a relational specification of legal fragmentations; TLC checks that every legal plan of every frame within the constants reassembles exactly. '
         'Spec to code: all 3.9k legal plans (any conforming sender) are fed through the real codec into the real FrameFragmentCache. Code to spec: the real fragmenter is run '
         'over an exhaustive window of metadata/data lengths at size 64 and boundary bands at larger sizes for all five frame types and both framings, each fragment is decoded '
         'from its wire bytes and the plan is validated by TLC against the C03 clauses (size, type, follows, complete, metadata before data, single if fits, exact reassembly).',
         'Trusted: TLC, the independent wire decoder, the replayers. Payload bytes are generated content (never inspected by the code under test). Exhaustive within the stated windows only.',
         'DESIGN 6/C03', 'frag'),
 'C04': ('model_checking',
         'TLC exhaustive check of Parser.tla + replay of every read transition on the real FrameParser / TransportTCP (finished streams and piecemeal feeds) / the QUIC transport; Transport.tla (message sequences x endings) replayed on every message transport class incl. websocket over HTTP/3',
         'Parser.tla models the decoder loop at the real byte scale; TLC checks for twelve streams (valid, zero-length, shorter-than-header and unknown-type frames) and every chunking '
         'that exactly the frames wholly received have been emitted, in order. Every transition of the complete graph is replayed on the real FrameParser reached by one read, byte by byte '
         'and by a random path, the streams also go through TransportTCP over a real StreamReader with read sizes 1,2,3,7,1024 and through the message path (including the empty message); '
         'plus all 2^(n-1) chunkings of short streams and random chunkings of long random sequences.',
         'Trusted: TLC, the independent encoder/decoder used to build and describe frames. Frame contents come from a fixed table per body length.',
         'DESIGN 6/C04', 'parser'),
 'C11': ('model_checking',
   'TLC model checking of Lifecycle.tla (close / reconnect / loss races; nondeterministic graph replay on a real client-server pair, recorded paths trace-validated); TLC trace validation of recorded executions of the real endpoints against RSocket.tla (+ design-level TLC model checking of the same monitors)',
   'Cut family: 0-4 pending interactions in both roles, then the TCP link is cut at an arbitrary byte offset (mid-frame and mid-fragment included), by orderly EOF or by a connection reset, or an endpoint calls close(); several keep-alive periods of virtual time pass. Clauses: every pending requester failed, every responder-side producer cancelled, on_close exactly once per connection, no frame and no keep-alive after the close notification.',
   CONN_NOTE, 'DESIGN 6/C11', 'conn'),
 'C12': ('model_checking',
   'TLC-checked tables Transport.tla (message transports: message sequences x endings, every row replayed on every transport class), Tagging.tla (the routing tag list as a function of arbitrary bytes: the parse makes progress; every row replayed on the real classes under a timer) and Dispatch.tla (stream state x frame kind x stream id: containment, duplicate rejection) with every row replayed on both real endpoints; TLC trace validation of recorded executions of the real endpoints (hostile families) against RSocket.tla (+ design-level TLC model checking of the same monitors)',
   'Hostile family: twenty classes of junk frames built by an independent encoder are injected towards either endpoint, and interactions run whose application code raises at every entry point (handler methods, publisher subscribe/request/cancel, subscriber callbacks, failing futures, raising generators); a witness stream must still complete with all its payloads, a probe request must be served, both tasks stay alive, the connection is not closed, every run terminates under a watchdog.',
   CONN_NOTE, 'DESIGN 6/C12', 'conn'),
 'C14': ('model_checking',
   'TLC model checking of Lease.tla (requester-side leasing under a clock) with every transition of its state graphs replayed on a real lease-honouring RSocketClient under a virtual clock; TLC trace validation of recorded executions of the real endpoints against RSocket.tla',
   'Lease.tla models DefinedLease.is_request_allowed, send_request, the bounded request queue and handle_lease, one action per critical section (Request, LeaseArrives incl. the release loop, Tick); TLC checks the C14 clauses over every interleaving of requests, LEASE frames and time (unbounded and bounded queue), and both complete state graphs (41,523 transitions) are replayed through the public request API, the real handle_lease coroutine and a patched clock, comparing send queue, request queue and refused calls after every step. Lease monitor of RSocket.tla on recorded runs of a lease-honouring client against a real server with a scripted lease publisher under virtual time: no request before the first LEASE, at most the granted count per lease, none after the ttl, FIFO release, each request sent at most once, LEASE frames carry exactly the published count and ttl in ms.',
   CONN_NOTE, 'DESIGN 6/C14', 'conn'),
 'C15': ('model_checking',
   'TLC model checking of KeepAlive.tla (keep-alive sender, watchdog, echo, aftermath of a time-out, under a clock) with every transition of its state graphs replayed on a real client under virtual time; TLC trace validation of recorded executions of the real endpoints against RSocket.tla',
   'KeepAlive.tla models _keepalive_send_task, _keepalive_timeout_task, handle_keep_alive and the alive-tests of the sender and receiver loops; TLC checks no false time-out, detection within two lifetimes, periodic sending, exactly one echo and none without the flag for period <, >, = lifetime; every transition of the graphs is replayed on a real RSocketClient over the simulated link (Tick = advance virtual time, PeerKa = KEEPALIVE from a scripted server), comparing written keep-alives, echoes, time-out and close callbacks and the reported gaps. Keep-alive monitor under a virtual clock: a real client against a scripted server with acknowledgement patterns always / never / until t / only after t / delayed (delays just below and above the lifetime), periods and lifetimes from 50 ms to 10 min including lifetime < period; both endpoints real for the echo clauses (exactly one echo, same data, flag cleared, none without the flag).',
   CONN_NOTE, 'DESIGN 6/C15', 'conn'),
 'C16': ('model_checking',
   'TLC trace validation of recorded executions of the real endpoints against RSocket.tla (+ design-level TLC model checking of the same monitors)',
   'SETUP monitor: the decoded SETUP of a real client (independent decoder) must state the configured periods in ms, MIME types, lease flag, payload and version 1.0 and be the first frame on the wire whatever was requested while connect() - with suspending and non-suspending transports and providers - was in progress; a scripted client sends SETUP variants / RESUME to a real server, which must call on_setup exactly once for an acceptable SETUP and answer the others with the matching error code on stream 0.',
   CONN_NOTE, 'DESIGN 6/C16', 'conn'),
 'C17': ('model_checking',
   'TLC model checking of Lifecycle.tla (close / reconnect / loss races; nondeterministic graph replay on a real client-server pair, recorded paths trace-validated); TLC trace validation of recorded executions of the real endpoints against RSocket.tla (+ design-level TLC model checking of the same monitors)',
   'Reconnect monitor: after reconnect() - previous connection ended by server EOF, connection reset, server close, keep-alive timeout or while healthy, with 0-3 interactions pending, 1-3 consecutive reconnects - the old transport was closed, everything pending on it failed, a new transport was taken, SETUP is its first frame, ids restart, keep-alives restart, a probe request is served.',
   CONN_NOTE, 'DESIGN 6/C17', 'conn'),
 'C02': ('exploration',
         'independent TLA+ transcription of the wire layout (Frames.tla), domain enumerated by TLC, every value replayed on the real codec with both back-ends',
         'Frames.tla defines Encode/Decode for the 14 frame types from the RSocket 1.0 layout. TLC enumerates 7180 frame values (every type, every flag combination, boundary values of all numeric fields, blob length classes), '
         'checks Decode(Encode(f)) = f and the length identities in the model and prints each value with its encoding; every pair is replayed on the real classes, once per codec back-end '
         '(cbitstruct, and pure Python forced by masking the import): serialize() equals the layout bytes, parse yields the same fields, re-encode is identical, the length-prefixed form and the bytes '
         'TransportTCP.send_frame writes are 3-byte length + the same bytes, and both back-ends agree. This family is weak on encode/decode fidelity by nature: claimed at exploration level.',
         'Not decided: bugs that depend on specific byte VALUES inside data/metadata/MIME/token blobs (sampled with VERIF_SEED-random bytes; the codec does not inspect them) and numeric values between the enumerated boundaries. '
         'Domain rule: metadata flag set iff metadata non-empty. Back-end disagreement on malformed input is recorded as drift only.',
         'DESIGN 6/C02', 'codec'),
 'C18': ('exploration',
         'independent TLA+ transcription of the extension layouts (CompositeMetadata.tla; Tagging.tla for the tag list as a function of arbitrary bytes), enumerated by TLC, replayed on the real classes',
         'CompositeMetadata.tla defines the layout of composite entries, routing tags, simple/bearer authentication, data MIME type(s) and MIME headers; TLC enumerates entry lists (all single variants, pairs, triples), '
         'checks length identities and limits and prints value + encoding; each list (plus every well-known id, plus random lists of 3-8 specification entries, names passed as bytes and as enum members) is replayed: '
         'encode equals layout, decode yields the same value, re-encode identical, id/name tables one-to-one, over-long names and tags rejected at encode time.',
         'Blob contents are sampled; the well-known id table is transcribed from the registry.', 'DESIGN 6/C18', 'codec'),
 'C19': ('model_checking',
         'TLC enumeration of the routing decision function (Routing.tla) with gate invariants + replay of every row on the real router/handler',
         'Routing.tla defines the decision for (route table, unknown handler, other types\' tables, verifier, request route, authentication, entry position); TLC checks the gate, exactness and independence invariants over all 5760 cases '
         'and prints the decision table. Every row is replayed on a real RequestRouter + RoutingRequestHandler, one handler per table, in random and adversarial orders (a rejected request immediately repeated; a second request while an '
         'asynchronous verifier is still deciding), with five handler signature variants for the parameter binding, and a sample through real endpoints with a concurrent witness request.',
         'Exhaustive over the enumerated product; routes are two registered names, one unregistered, none. Payload deserializer hooks are the defaults.', 'DESIGN 6/C19', 'routing'),
 'C20': ('model_checking',
   'TLC model checking of Source.tla (observable-backed publishers) and Demand.tla (rate-limited subscribers of the Rx / ReactiveX / awaitable front ends) with every transition replayed on the real classes; TLC trace validation of recorded executions through the Rx / ReactiveX adapters against the same RSocket.tla monitors as the core API',
   'The scenarios of C01/C06/C07/C09 are driven through ReactiveXClient / RxRSocket and both handler adapters; observer callbacks are recorded in the same event vocabulary, so the same monitors decide '
   'element-for-element delivery in order, completion and errors preserved (C20.terminal_kind_preserved), every request-n on the wire equal to the request limit, wire emission within credit, '
   'back-pressure factories asked exactly the credited amounts, disposal cancelling the stream, and fire-and-forget / metadata-push / setup reaching the delegate. Element counts 0,1,many; limits 1..max; error positions; disposal moments; both versions.',
   CONN_NOTE, 'DESIGN 6/C20', 'conn'),
}

NOT_YET = 'machinery for this property is still being built in this round (see DESIGN.md section 11); not claimed until its check exists'

def main():
    checks = []
    for pid in PROPS:
        if pid not in CLAIMED:
            continue
        level, technique, text, note, ref, engine = CLAIMED[pid]
        checks.append({
            'property_id': pid,
            'quick_cmd': './check %s --tier quick' % pid,
            'thorough_cmd': './check %s --tier thorough' % pid,
            'evidence_file': 'evidence/%s.json' % pid,
            'replay_cmd_template': './check replay {path}',
            'engine': engine,
            'level_claimed': {'category': level, 'text': text, 'design_ref': ref},
            'level_note': note,
            'technique': technique,
        })
    man = {
        'version': 1,
        'setup_cmd': './setup.sh',
        'hooks': {
            'guard': 'RSOCKET_PY_VERIF',
            'enable': 'no hooks are compiled into /repo: every observation is made from outside (wrapped endpoint/transport instances, recording application objects, virtual-time loop; for the traces of the repository test suite a pytest plugin loaded from /verif wraps three RSocketBase methods at class level for the duration of that run); the guard name is reserved and unused',
            'baseline_off_cmd': BASELINE,
            'source_commits': [],
            'add_only': True,
        },
        'engines': [
            {'name': 'ids', 'path': 'spec/StreamIds.tla + vf/props/c13.py', 'serves_properties': ['C13'],
             'kind_free_text': 'TLA+ component spec, TLC exhaustive + full state-graph replay on the real object'},
            {'name': 'frag', 'path': 'spec/Fragmenter.tla + spec/RSocket.tla (OnTx clauses) + vf/props/c03.py', 'serves_properties': ['C03'],
             'kind_free_text': 'relational TLA+ spec of legal fragment plans; plans replayed into the real cache; real plans validated by TLC'},
            {'name': 'parser', 'path': 'spec/Parser.tla + vf/props/c04.py', 'serves_properties': ['C04'],
             'kind_free_text': 'TLA+ spec of the framing decoder at byte scale; full state-graph replay on the real FrameParser'},
            {'name': 'codec', 'path': 'spec/Frames.tla + spec/CompositeMetadata.tla + vf/props/c02.py + vf/props/c18.py', 'serves_properties': ['C02', 'C18'],
             'kind_free_text': 'wire layouts transcribed into TLA+; value domains enumerated by TLC; every value replayed on the real codec'},
            {'name': 'routing', 'path': 'spec/Routing.tla + vf/props/c19.py', 'serves_properties': ['C19'],
             'kind_free_text': 'decision function in TLA+, invariants by TLC, full decision table replayed on the real router and handler'},
            {'name': 'components', 'path': 'spec/Mux.tla Lease.tla LeaseAnnounce.tla KeepAlive.tla Lifecycle.tla ServerLifecycle.tla Source.tla Demand.tla Dispatch.tla Setup.tla Transport.tla Tagging.tla StreamIdsScale.tla + vf/props/{mux,leasemodel,kamodel,lifecycle,sourcemodel,demandmodel,dispatch,setupmodel,transportmodel,taggingmodel,routinghostile,graphreplay}.py',
             'serves_properties': ['C04', 'C05', 'C06', 'C09', 'C11', 'C12', 'C13', 'C14', 'C15', 'C16', 'C17', 'C18', 'C20'],
             'kind_free_text': 'implementation-shaped TLA+ component specs, TLC exhaustive; every transition / row replayed on the real objects (oracle on the real observations, state mismatch = drift)'},
            {'name': 'suite-traces', 'path': 'vf/suiteplugin.py + vf/props/suitetraces.py + spec/RSocket.tla', 'serves_properties': ['C08'],
             'kind_free_text': 'the repository test suite recorded by a pytest plugin (no change to /repo), one trace per endpoint connection, validated by TLC against the connection monitor'},
            {'name': 'conn', 'path': 'spec/RSocket.tla + spec/RSocketTrace.tla + vf/harness + vf/props/conn.py',
             'serves_properties': [p for p in PROPS if p in CLAIMED and CLAIMED[p][5] == 'conn'],
             'kind_free_text': 'connection-level TLA+ monitors; real endpoints driven under a virtual-time loop over a simulated link; recorded traces validated by TLC in batches'},
        ],
        'checks': checks,
        'notes': 'Model-based verification with explicit TLA+ specifications (spec/*.tla) checked by TLC and bound to /repo by conformance checks in both directions. See DESIGN.md.',
        'not_applicable': [{'property_id': p, 'reason': NOT_YET} for p in PROPS if p not in CLAIMED],
    }
    with open(os.path.join(ROOT, 'MANIFEST.json'), 'w') as f:
        json.dump(man, f, indent=1)
    try:
        import jsonschema
        jsonschema.validate(man, json.load(open('/root/.vp/MANIFEST.schema.json')))
        print('MANIFEST.json valid;', len(checks), 'checks,', len(man['not_applicable']), 'not_applicable')
    except ImportError:
        print('written (jsonschema not available for validation)')

if __name__ == '__main__':
    main()
