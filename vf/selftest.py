"""./check selftest [names...]: demonstrate that the binding is real.

Source-level mutants (mutants.json): each is a small textual edit of a scratch COPY of /repo (under /tmp,
removed afterwards; /repo itself is never touched).  For each mutant the quick check of every property it is
expected to break is run with VERIF_REPO pointing at the copy and must exit 1 with a VIOLATION line; the
checks listed under 'must_pass' must still exit 0 (no collateral false alarm).
"""
import json
import os
import shutil
import subprocess
import sys
import tempfile
import time

from . import common


def load():
    with open(os.path.join(common.ROOT, 'mutants.json')) as f:
        return json.load(f)['mutants']


def make_copy(m):
    d = tempfile.mkdtemp(prefix='vf_mut_')
    for sub in ('rsocket', 'reactivestreams'):
        shutil.copytree(os.path.join('/repo', sub), os.path.join(d, sub),
                        ignore=shutil.ignore_patterns('__pycache__'))
    edits = m['edits'] if 'edits' in m else [m]
    for e in edits:
        p = os.path.join(d, e['file'])
        s = open(p).read()
        if s.count(e['old']) < 1:
            shutil.rmtree(d, ignore_errors=True)
            raise common.Machinery('mutant %s: pattern not found in %s' % (m['name'], e['file']))
        s = s.replace(e['old'], e['new'], e.get('count', 1))
        open(p, 'w').write(s)
    return d


def run_check(prop, repo, tier='quick', timeout=1800):
    env = dict(os.environ)
    env['VERIF_REPO'] = repo
    env['VERIF_TIER'] = tier
    env['VERIF_NO_EVIDENCE'] = '1'
    t0 = time.time()
    p = subprocess.run([os.path.join(common.ROOT, 'check'), prop, '--tier', tier], env=env, stdout=subprocess.PIPE,
                       stderr=subprocess.STDOUT, text=True, timeout=timeout)
    return p.returncode, p.stdout, time.time() - t0


def _one(m):
    lines = []
    bad = 0
    try:
        d = make_copy(m)
    except common.Machinery as ex:
        return ['%-40s MACHINERY: %s' % (m['name'], ex)], 1
    try:
        for prop in m['breaks']:
            rc, out, wall = run_check(prop, d)
            ok = rc == 1 and ('VIOLATION property=%s' % prop) in out
            clause = [l.strip()[:110] for l in out.splitlines() if 'failing clause' in l][:2]
            lines.append('%-40s %s expected VIOLATION: %s (rc=%d, %.0fs) %s' % (m['name'], prop, 'caught' if ok else 'MISSED', rc, wall, clause))
            if not ok:
                bad += 1
                lines.append(out[-800:])
        for prop in m.get('must_pass', []):
            rc, out, wall = run_check(prop, d)
            ok = rc == 0
            lines.append('%-40s %s expected quiet: %s (rc=%d, %.0fs)' % (m['name'], prop, 'quiet' if ok else 'FALSE ALARM', rc, wall))
            if not ok:
                bad += 1
                lines.append(out[-800:])
    finally:
        shutil.rmtree(d, ignore_errors=True)
    return lines, bad


def main(names=None):
    from concurrent.futures import ThreadPoolExecutor
    names = names or sys.argv[2:]
    ms = load()
    if names:
        ms = [m for m in ms if m['name'] in names or any(p in names for p in m['breaks'])]
    bad = 0
    with ThreadPoolExecutor(max_workers=int(os.environ.get('VERIF_SELFTEST_PAR', '3'))) as ex:
        for lines, b in ex.map(_one, ms):
            bad += b
            for l in lines:
                print(l)
            sys.stdout.flush()
    print('selftest: %d mutant(s), %d problem(s)' % (len(ms), bad))
    return 0 if bad == 0 else 1
