"""Shared plumbing: paths, tiers, seeds, work directories, verdict reporting, evidence files, known findings."""
import json
import os
import shutil
import sys
import time

ROOT = os.path.dirname(os.path.dirname(os.path.abspath(__file__)))
REPO = os.environ.get('VERIF_REPO', '/repo')
PY = os.environ.get('VERIF_PY', '/venv/bin/python')

_work = None
_t0 = time.time()


def tier():
    return os.environ.get('VERIF_TIER', 'quick')


def seed():
    try:
        return int(os.environ.get('VERIF_SEED', '0'))
    except ValueError:
        return 0


def workdir():
    """Per-run scratch directory under /verif/.work (never /tmp); removed on success by the cli."""
    global _work
    if _work is None:
        base = os.path.join(ROOT, '.work')
        os.makedirs(base, exist_ok=True)
        _work = os.path.join(base, 'run_%d_%d' % (os.getpid(), int(time.time())))
        os.makedirs(_work, exist_ok=True)
    return _work


def cleanup_workdir():
    global _work
    if _work and os.path.isdir(_work):
        shutil.rmtree(_work, ignore_errors=True)
    _work = None


def elapsed():
    return time.time() - _t0


class Machinery(Exception):
    """The verification machinery itself failed (exit 2): never a statement about the property."""


# ---------------------------------------------------------------------------------------
# known findings

def load_known_findings():
    p = os.path.join(ROOT, 'known_findings.json')
    if not os.path.exists(p):
        return []
    with open(p) as f:
        return json.load(f).get('findings', [])


def match_known(prop, failure, findings=None):
    """failure: dict with at least 'clause' and 'sig' (a dict of facts about the failing case).
    A finding matches iff status == open, same property, same clause, and every key of its
    'signature' equals the corresponding fact.  Returns the finding or None."""
    if findings is None:
        findings = load_known_findings()
    for f in findings:
        # a finding recorded for property P also explains the same clause P.x failing inside another property's families
        if f.get('status') != 'open' or f.get('property') not in (prop, failure.get('clause', '').split('.')[0]):
            continue
        if f.get('clause') not in (None, failure.get('clause')):
            continue
        sig = f.get('signature', {})
        facts = failure.get('sig', {})
        ok = True
        for k, v in sig.items():
            fv = facts.get(k)
            if isinstance(v, list):
                if fv not in v:
                    ok = False
            elif fv != v:
                ok = False
        if ok:
            return f
    return None


# ---------------------------------------------------------------------------------------
# verdict

class Verdict:
    """Collects what a check did; prints KNOWN-FINDING / VIOLATION lines; writes evidence; returns exit code."""

    def __init__(self, prop, level):
        self.prop = prop
        self.level = level
        self.failures = []      # dicts: clause, sig, detail, replay(optional dict)
        self.known_hits = {}    # finding id -> count
        self.coverage = {'samples': []}
        self.assumptions = []
        self.notes = []
        self.findings = load_known_findings()

    def add_failure(self, clause, sig=None, detail='', replay=None):
        self.failures.append({'clause': clause, 'sig': sig or {}, 'detail': detail, 'replay': replay})

    def sample(self, s, limit=6):
        if len(self.coverage['samples']) < limit:
            self.coverage['samples'].append(s)

    def add(self, key, n=1):
        self.coverage[key] = self.coverage.get(key, 0) + n

    def setc(self, key, v):
        self.coverage[key] = v

    def finish(self):
        unknown = []
        known = {}
        for f in self.failures:
            k = match_known(self.prop, f, self.findings)
            if k is not None:
                known.setdefault(k['id'], [k, 0, f])
                known[k['id']][1] += 1
            else:
                unknown.append(f)
        for kid, (k, n, f) in sorted(known.items()):
            print('KNOWN-FINDING: property=%s %s [%s; %d instance(s) this run, e.g. %s]' % (
                self.prop, k['what'], kid, n, _short(f)))
        if os.environ.get('VERIF_DEBUG'):
            import collections
            c = collections.Counter((f['clause'], json.dumps({k: v for k, v in f['sig'].items() if k not in ('family', 'mode', 'frag_index', 'got', 'expected')},
                                                             sort_keys=True, default=str)) for f in unknown)
            for (cl, sg), n in sorted(c.items()):
                print('DEBUG unknown %6d %s %s' % (n, cl, sg))
        rc = 0
        if unknown:
            rc = 1
            rp = self._write_replay(unknown)
            # group by clause for readability
            seen = {}
            for f in unknown:
                seen.setdefault(f['clause'], []).append(f)
            for clause, fs in sorted(seen.items()):
                print('  failing clause %s: %d instance(s), e.g. %s' % (clause, len(fs), _short(fs[0])))
            print('VIOLATION property=%s replay=%s' % (self.prop, rp))
        self._write_evidence(len(unknown), known)
        return rc

    def _write_replay(self, unknown):
        d = os.path.join(ROOT, 'replays')
        os.makedirs(d, exist_ok=True)
        p = os.path.join(d, '%s_%s_%d.json' % (self.prop, tier(), seed()))
        with open(p, 'w') as f:
            json.dump({'property': self.prop, 'tier': tier(), 'seed': seed(),
                       'failures': unknown[:50]}, f, indent=1, default=str)
        return p

    def _write_evidence(self, nviol, known):
        if os.environ.get('VERIF_NO_EVIDENCE'):
            return
        d = os.path.join(ROOT, 'evidence')
        os.makedirs(d, exist_ok=True)
        cov = dict(self.coverage)
        if not cov.get('samples'):
            cov['samples'] = ['(no sample recorded)']
        cov['known_findings_hit'] = {kid: n for kid, (k, n, f) in known.items()}
        if self.notes:
            cov['notes'] = self.notes
        ev = {
            'property_id': self.prop,
            'tier': tier() if tier() in ('quick', 'thorough') else 'quick',
            'seed': seed(),
            'level': self.level,
            'coverage': cov,
            'assumptions': self.assumptions,
            'wall_s': round(elapsed(), 2),
            'violations': nviol,
        }
        with open(os.path.join(d, self.prop + '.json'), 'w') as f:
            json.dump(ev, f, indent=1, default=str)


def _short(f):
    s = '%s %s %s' % (f.get('clause'), json.dumps(f.get('sig', {}), default=str, sort_keys=True), f.get('detail', ''))
    return s[:400]


def log(*a):
    print(*a, file=sys.stderr)
    sys.stderr.flush()
