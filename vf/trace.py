"""Batched trace validation with TLC (RSocketTrace.tla): many traces per JVM, one verdict per trace."""
import json
import os
import re
import subprocess
import time
from concurrent.futures import ThreadPoolExecutor

from . import common, tlc

_KEEP = ('ep', 'ev', 't', 'sid', 'ft', 'kind', 'iid', 'pid', 'n', 'F', 'C', 'N', 'M', 'ml', 'dl', 'mpid', 'moff',
         'dpid', 'doff', 'code', 'x', 'role', 'wl', 'i')


def to_tla_events(events):
    out = []
    for e in events:
        if e['ev'] == 'bytes_in':
            continue
        d = {k: e.get(k, 0) for k in _KEEP}
        d['streams'] = list(e.get('streams', []))
        d['partial'] = list(e.get('partial', []))
        out.append(d)
    return out


def _verdicts(out):
    """extract <<"VERDICT", tid, {...}>> values (possibly spread over several lines)"""
    res = {}
    i = 0
    pat = re.compile(r'<<\s*"VERDICT"')
    while True:
        mm = pat.search(out, i)
        if mm is None:
            break
        j = mm.start()
        depth = 0
        k = j
        while k < len(out):
            if out.startswith('<<', k):
                depth += 1
                k += 2
                continue
            if out.startswith('>>', k):
                depth -= 1
                k += 2
                if depth == 0:
                    break
                continue
            k += 1
        v = tlc.parse_value(out[j:k])
        fails = v[2]
        res[v[1]] = sorted((c, idx) for (c, idx) in fails) if fails else []
        i = k
    return res


def validate(traces, module='RSocketTrace', shard=150, parallel=8, timeout=900):
    """traces: list of {'tid': int, 'events': [...]} -> {tid: [(clause, event_index), ...]}; raises Machinery if a
    verdict is missing.  Event indices refer to the filtered event list (bytes_in removed)."""
    work = common.workdir()
    shards = [traces[i:i + shard] for i in range(0, len(traces), shard)]
    results = {}
    stats = {'states': 0, 'transitions': 0, 'tlc_runs': 0, 'tlc_wall': 0.0}

    def run(k):
        path = os.path.join(work, 'traces_%d_%d.json' % (os.getpid(), k))
        with open(path, 'w') as f:
            json.dump([{'tid': t['tid'], 'events': to_tla_events(t['events'])} for t in shards[k]], f)
        r = tlc.run(module, module + '.cfg', workers=1, timeout=timeout, env={'TRACE_FILE': path}, name='tr%d' % k,
                    deadlock=True)
        if r.timed_out:
            raise common.Machinery('TLC trace validation timed out')
        v = _verdicts(r.out)
        missing = [t['tid'] for t in shards[k] if t['tid'] not in v]
        if missing:
            raise common.Machinery('TLC produced no verdict for traces %s:\n%s' % (missing[:5], r.out[-3000:]))
        return v, r

    with ThreadPoolExecutor(max_workers=parallel) as ex:
        for v, r in ex.map(run, range(len(shards))):
            results.update(v)
            stats['states'] += r.distinct
            stats['transitions'] += r.generated
            stats['tlc_runs'] += 1
            stats['tlc_wall'] += r.wall
    return results, stats
