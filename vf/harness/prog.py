"""Scenario programs: a schedule is a list of driver primitives (DESIGN 4.3) interpreted against a World.

A program is plain JSON (it is stored in replay files).  Steps that are not applicable in the state the real run
is in (emit on a publisher nobody subscribed, request on a terminated subscription, ...) are skipped, so every
executed application action is legal (Reactive-Streams-legal application, protocol-legal peer).
"""
import signal

from .world import World
from . import vloop, wire


class Hang(Exception):
    pass


def _alarm(signum, frame):
    raise Hang('wall-clock watchdog')


class Exec:
    def __init__(self, opts):
        self.opts = dict(opts)
        self.w = World(**opts)
        self.refs = []
        self.skipped = 0
        self.done = 0
        self.late = bool(opts.get('late_actions'))

    # -- helpers
    def _it(self, ref):
        if ref is None or ref >= len(self.refs) or ref < -len(self.refs):
            return None
        iid = self.refs[ref]
        return iid if iid != -1 else None

    def do(self, st):
        """one step; an exception that propagates out of an application-level API call back to the calling application
        (e.g. its own subscriber raising from on_subscribe) is the application's own business: logged, run continues"""
        n_refs = len(self.refs)
        self.w.last_iid = None
        try:
            return self._do(st)
        except (Hang, vloop.Budget):
            raise
        except Exception as ex:
            if st[0] in ('start', 'finish', 'pump', 'settle', 'deliver', 'advance', 'snapshot', 'cut', 'inject', 'gate', 'gate_open',
                         'gate_close', 'deliver_nosettle'):
                raise
            self.w.rec.log('-', 'app_call_raised', kind=type(ex).__name__, iid=self.w.last_iid or 0)
            if st[0] in ('rr', 'fnf', 'push', 'stream', 'channel', 'probe', 'stream_raising_sub') and len(self.refs) == n_refs:
                self.refs.append(self.w.last_iid if self.w.last_iid is not None else -1)
            self.w.settle()

    def _do(self, st):
        w = self.w
        op = st[0]
        a = st[1:]
        if op == 'start':
            w.start()
        elif op == 'start_noconnect':
            w.start(connect=False)
        elif op == 'connect':
            w.rec.log('c', 'app_connect', pid=getattr(w, 'setup_pid', 0))
            w._connect_task = w.loop.create_task(w.eps['c'].connect())
        elif op == 'step':
            for _ in range(a[0]):
                w.loop._one()
        elif op == 'silence':
            w.silent = True
        elif op == 'write_fault':
            # a half-dead connection: from now on every write of this endpoint fails, while nothing arrives any more either (no EOF, no reset)
            ep = a[0]
            if ep not in w.dirs or w.dirs[ep].cut is not None or w.dirs[ep].broken_writer:
                return self._skip()
            w.dirs[ep].broken_writer = True
            w.dirs[ep].gate.open()
            w.silent = True
            w.rec.log(ep, 'write_fault')
            w.settle()
        elif op == 'set_handler':
            # the application installs (another instance of) its handler on the live endpoint - public API set_handler_using_factory
            ep = a[0]
            if ep not in w.eps:
                return self._skip()
            if not hasattr(w, 'installed_handler'):
                w.installed_handler = {}
            w.installed_handler[ep] = w.eps[ep].set_handler_using_factory(lambda: w.RecHandler(w, ep))
        elif op == 'peer_keepalive':
            pid, p = w.payloads.make(a[0], 0)
            body = wire.encode('KEEPALIVE', flags=wire.F_RESPOND if a[1] else 0, extra=(12345).to_bytes(8, 'big'), d=bytes(p.data or b''))
            if not w.peer_send(body, 'c'):
                return self._skip()
            w.settle()
        elif op == 'peer_setup':
            w.peer_send(self._setup_body(a[0], a[1]), 's')
            w.settle()
        elif op == 'peer_request':
            pid, p = w.payloads.make(5, 0)
            w.peer_send(wire.encode('REQUEST_RESPONSE', sid=a[0], d=bytes(p.data)), 's')
            w.settle()
        elif op == 'rr':
            self.refs.append(w.request_response(a[0], tuple(a[1]), a[2] if len(a) > 2 else None))
        elif op == 'fnf':
            self.refs.append(w.fire_and_forget(a[0], tuple(a[1]), a[2] if len(a) > 2 else None))
        elif op == 'push':
            self.refs.append(w.metadata_push(a[0], a[1], a[2] if len(a) > 2 else None))
        elif op == 'stream':
            self.refs.append(w.request_stream(a[0], tuple(a[1]), a[2], a[3] if len(a) > 3 else None,
                                              a[4] if len(a) > 4 else True))
        elif op == 'channel':
            self.refs.append(w.request_channel(a[0], tuple(a[1]), a[2], a[3] if len(a) > 3 else None,
                                               a[4] if len(a) > 4 else True, a[5] if len(a) > 5 else None,
                                               a[6] if len(a) > 6 else True))
        elif op == 'probe':
            self.refs.append(w.request_response(a[0], tuple(a[1]), {'mode': 'immediate', 'resp': list(a[2])}, probe=True))
        elif op == 'stream_raising_sub':
            self.refs.append(w.request_stream(a[0], tuple(a[1]), 5, a[2], True, sub_raise_in=[a[3]]))
        elif op == 'subscribe':
            iid = self._it(a[0])
            if iid is None or w.interaction(iid).get('subscribed'):
                return self._skip()
            w.interaction(iid)['subscribed'] = True
            w.subscribe(iid)
        elif op == 'respond':
            iid = self._it(a[0])
            if iid is None or w.respond(iid, tuple(a[1])) is None:
                return self._skip()
        elif op == 'respond_error':
            iid = self._it(a[0])
            if iid is None or not w.respond_error(iid):
                return self._skip()
        elif op in ('emit', 'complete', 'error'):
            iid = self._it(a[0])
            if iid is None:
                return self._skip()
            pub = w.pub(iid, a[1])
            if pub is None or not hasattr(pub, 'emit') or not pub.legal():
                return self._skip()
            if op == 'emit':
                pub.emit(a[2], a[3], bool(a[4]) if len(a) > 4 else False)
            elif op == 'complete':
                pub.complete()
            else:
                pub.error()
        elif op in ('request_n', 'cancel'):
            iid = self._it(a[0])
            if iid is None:
                return self._skip()
            role = a[1]
            it = w.interaction(iid)
            sub = it.get('sub') if role == 'req' else it.get('resp_sub')
            if sub is None or sub.subscription is None:
                return self._skip()
            if not self.late and (sub.terminated or sub.cancelled):
                return self._skip()
            if op == 'request_n':
                w.sub_request(iid, a[2], role)
            else:
                sub.cancelled = True
                w.sub_cancel(iid, role)
        elif op == 'dispose':
            iid = self._it(a[0])
            if iid is None or w.adapter_api is None or not w.adapter_api.dispose(iid):
                return self._skip()
        elif op == 'fut_cancel':
            iid = self._it(a[0])
            if iid is None:
                return self._skip()
            it = w.interaction(iid)
            if 'future' not in it or (it['future'].done() and not self.late):
                return self._skip()
            w.fut_cancel(iid)
            if len(a) < 2 or a[1]:
                w.settle()
        elif op == 'pump':
            w.pump(chunk=a[0] if a else None)
        elif op == 'settle':
            w.settle()
        elif op == 'deliver':
            if a[0] not in w.dirs or not w.dirs[a[0]].pending():
                return self._skip()
            w.deliver(a[0], a[1] if len(a) > 1 else None)
        elif op == 'deliver_frame':
            if a[0] not in w.dirs or not w.dirs[a[0]].pending():
                return self._skip()
            w.dirs[a[0]].deliver_frame()
            if len(a) < 2 or a[1]:
                w.settle()
        elif op == 'deliver_nosettle':
            if a[0] not in w.dirs or not w.dirs[a[0]].pending():
                return self._skip()
            w.dirs[a[0]].deliver(a[1] if len(a) > 1 else None)
        elif op == 'gate_close':
            w.gate(a[0], close=True)
        elif op == 'gate':
            w.gate(a[0], a[1])
        elif op == 'gate_open':
            w.gate(a[0])
        elif op == 'advance':
            w.advance(a[0])
        elif op == 'cut':
            if w.dirs[a[0]].cut is not None:
                return self._skip()
            w.cut(a[0], a[1])
        elif op == 'close':
            w.app_close(a[0], a[1] if len(a) > 1 else None)
        elif op == 'reconnect':
            w.app_reconnect(a[0] if a else None)
        elif op == 'lease':
            if not w.publish_lease(a[0], a[1]):
                return self._skip()
        elif op == 'inject':
            if not self._inject(a[0], a[1], a[2] if len(a) > 2 else {}):
                return self._skip()
        elif op == 'snapshot':
            w.snapshot(a[0] if a else '')
        elif op == 'finish':
            # standard epilogue: open the gates, drain the link, let pending zero-delay work run, snapshot
            for ep in ('c', 's'):
                if ep in w.dirs:
                    w.dirs[ep].gate.open()
            w.pump()
            w.advance(a[0] if a else 50)
            w.pump()
            if not a:
                # delayed sources refilled by credit granted from on_next need more (virtual) time: run until the streams stop moving
                def _moving():
                    return sum(1 for e in w.rec.events if e.get('sid', 0) > 0 or e['ev'].startswith('cb_'))
                for _ in range(40):
                    before = _moving()
                    w.advance(10)
                    w.pump()
                    if _moving() == before:
                        break
            w.snapshot('final')
        else:
            raise ValueError('unknown step %r' % (st,))
        self.done += 1

    def _skip(self):
        self.skipped += 1

    def _setup_body(self, variant, r):
        w = self.w
        flags = 0
        token = None
        md = None
        d = b''
        mm, dm = b'application/json', b'application/json'
        if isinstance(variant, dict):
            # explicit flags (Setup.tla rows)
            if variant.get('frame') == 'RESUME':
                return wire.encode('RESUME', extra=b'\x00\x01\x00\x00' + b'\x00\x03' + b'tok' + b'\x00' * 16)
            if variant.get('resume'):
                flags |= wire.F_RESUME
                token = b'tok%d' % (r % 100)
            if variant.get('lease'):
                flags |= wire.F_LEASE
            if variant.get('payload'):
                pid, p = w.payloads.make(9, 4)
                md, d = bytes(p.metadata), bytes(p.data)
            return wire.encode('SETUP', flags=flags, extra=wire.setup_extra(500 + r % 1000, 10000 + r % 777, mm, dm, token=token), md=md, d=d)
        if variant == 'resume_flag':
            flags |= wire.F_RESUME
            token = b'tok%d' % (r % 100)
        elif variant in ('lease_no_publisher', 'lease_with_publisher'):
            flags |= wire.F_LEASE
        elif variant == 'payload':
            pid, p = w.payloads.make(9, 4)
            md, d = bytes(p.metadata), bytes(p.data)
        elif variant == 'mimes':
            mm, dm = b'message/x.rsocket.composite-metadata.v0', b'text/plain'
        if variant == 'resume_frame':
            return wire.encode('RESUME', extra=b'\x00\x01\x00\x00' + b'\x00\x03' + b'tok' + b'\x00' * 16)
        return wire.encode('SETUP', flags=flags, extra=wire.setup_extra(500 + r % 1000, 10000 + r % 777, mm, dm, token=token), md=md, d=d)

    def _inject(self, dst, cls, p):
        """hostile peer: put one junk frame (class cls) on the link towards dst, at a frame boundary"""
        from . import junk
        w = self.w
        src = 's' if dst == 'c' else 'c'
        d = w.dirs[src]
        if d.cut is not None or len(d.obs) != 0:
            return False
        live = set()
        fin = set()
        try:
            live = set(w.eps[dst]._stream_control._streams.keys())
        except Exception:
            pass
        bodies, sid, setup = junk.make(cls, p, dst, live, self.refs, w)
        if bodies is None:
            return False
        w.rec.log(dst, 'inject', kind=cls, sid=sid, x=1 if setup else 0, n=len(bodies))
        for b in bodies:
            if w.mode == 'tcp':
                d.inject(len(b).to_bytes(3, 'big') + b)
            else:
                d.inject(b)
        return True

    def run(self, prog, wall=20):
        old = signal.signal(signal.SIGALRM, _alarm)
        signal.setitimer(signal.ITIMER_REAL, wall)
        status = 'ok'
        try:
            for st in prog:
                self.do(st)
        except Hang:
            status = 'hang'
            self.w.rec.log('-', 'hang')
        except vloop.Budget as ex:
            status = 'budget'
            self.w.rec.log('-', 'hang', kind='budget')
        finally:
            signal.setitimer(signal.ITIMER_REAL, 0)
            signal.signal(signal.SIGALRM, old)
        events = list(self.w.rec.events)
        errors = list(self.w.errors)
        try:
            old = signal.signal(signal.SIGALRM, _alarm)
            signal.setitimer(signal.ITIMER_REAL, 5)
            self.w.close()
        except BaseException:
            pass
        finally:
            signal.setitimer(signal.ITIMER_REAL, 0)
            signal.signal(signal.SIGALRM, old)
        return {'status': status, 'events': events, 'errors': errors, 'skipped': self.skipped, 'done': self.done}


def run_program(opts, prog, wall=20):
    import logging
    logging.disable(logging.CRITICAL)
    return Exec(opts).run(prog, wall)
