"""Independent decoder of the RSocket 1.0 wire format (written from the protocol layout, not from rsocket/frame.py).
Used by the harness to describe what is actually on the wire; never used to judge the codec itself (Frames.tla does that)."""
import struct

TYPES = {1: 'SETUP', 2: 'LEASE', 3: 'KEEPALIVE', 4: 'REQUEST_RESPONSE', 5: 'REQUEST_FNF', 6: 'REQUEST_STREAM',
         7: 'REQUEST_CHANNEL', 8: 'REQUEST_N', 9: 'CANCEL', 10: 'PAYLOAD', 11: 'ERROR', 12: 'METADATA_PUSH',
         13: 'RESUME', 14: 'RESUME_OK', 63: 'EXT'}


class Undecodable(Exception):
    pass


def decode(b):
    b = bytes(b)
    if len(b) < 6:
        raise Undecodable('short')
    sid, tf = struct.unpack_from('>IH', b, 0)
    if sid & 0x80000000:
        raise Undecodable('stream id high bit')
    t = tf >> 10
    fl = tf & 0x3FF
    f = {'sid': sid, 'ft': TYPES.get(t, 'UNKNOWN%d' % t), 'I': bool(fl & 0x200), 'M': bool(fl & 0x100),
         'F': bool(fl & 0x80), 'C': bool(fl & 0x40), 'N': bool(fl & 0x20), 'n': 0, 'code': 0,
         'md': b'', 'd': b'', 'len': len(b)}
    o = 6

    def md_then_data(o):
        if f['M']:
            if len(b) < o + 3:
                raise Undecodable('metadata length')
            ml = int.from_bytes(b[o:o + 3], 'big')
            o += 3
            if len(b) < o + ml:
                raise Undecodable('metadata')
            f['md'] = b[o:o + ml]
            o += ml
        f['d'] = b[o:]

    ft = f['ft']
    if ft in ('REQUEST_RESPONSE', 'REQUEST_FNF', 'PAYLOAD'):
        md_then_data(o)
    elif ft in ('REQUEST_STREAM', 'REQUEST_CHANNEL'):
        if len(b) < o + 4:
            raise Undecodable('n')
        f['n'] = struct.unpack_from('>I', b, o)[0]
        md_then_data(o + 4)
    elif ft == 'REQUEST_N':
        if len(b) < o + 4:
            raise Undecodable('n')
        f['n'] = struct.unpack_from('>I', b, o)[0]
    elif ft == 'CANCEL':
        pass
    elif ft == 'ERROR':
        if len(b) < o + 4:
            raise Undecodable('code')
        f['code'] = struct.unpack_from('>I', b, o)[0]
        f['d'] = b[o + 4:]
    elif ft == 'KEEPALIVE':
        if len(b) < o + 8:
            raise Undecodable('position')
        f['pos'] = struct.unpack_from('>Q', b, o)[0]
        f['d'] = b[o + 8:]
    elif ft == 'LEASE':
        if len(b) < o + 8:
            raise Undecodable('lease')
        f['ttl'], f['n'] = struct.unpack_from('>II', b, o)
        if f['M']:
            f['md'] = b[o + 8:]
    elif ft == 'METADATA_PUSH':
        f['md'] = b[o:]
    elif ft == 'SETUP':
        if len(b) < o + 12:
            raise Undecodable('setup')
        f['major'], f['minor'], f['keepalive'], f['lifetime'] = struct.unpack_from('>HHII', b, o)
        o += 12
        if f['F']:   # resume flag shares the bit
            tl = struct.unpack_from('>H', b, o)[0]
            f['token'] = b[o + 2:o + 2 + tl]
            o += 2 + tl
        ml = b[o]
        f['md_mime'] = b[o + 1:o + 1 + ml]
        o += 1 + ml
        dl = b[o]
        f['d_mime'] = b[o + 1:o + 1 + dl]
        o += 1 + dl
        md_then_data(o)
    elif ft == 'RESUME':
        f['major'], f['minor'] = struct.unpack_from('>HH', b, o)
        tl = struct.unpack_from('>H', b, o + 4)[0]
        f['token'] = b[o + 6:o + 6 + tl]
    elif ft == 'RESUME_OK':
        pass
    else:
        f['d'] = b[o:]
    return f


def encode(ft, sid=0, flags=0, n=None, code=None, md=None, d=b'', extra=b''):
    """Independent encoder for the scripted peer. flags = 10-bit flag word (M bit added automatically when md is not None)."""
    t = {v: k for k, v in TYPES.items()}[ft]
    fl = flags
    if md is not None and ft not in ('METADATA_PUSH', 'LEASE'):
        fl |= 0x100
    if ft in ('METADATA_PUSH',) or (ft == 'LEASE' and md):
        fl |= 0x100
    out = struct.pack('>IH', sid, (t << 10) | fl)
    if ft in ('REQUEST_STREAM', 'REQUEST_CHANNEL', 'REQUEST_N'):
        out += struct.pack('>I', n)
    if ft == 'ERROR':
        out += struct.pack('>I', code)
    out += extra
    if ft in ('REQUEST_RESPONSE', 'REQUEST_FNF', 'PAYLOAD', 'REQUEST_STREAM', 'REQUEST_CHANNEL', 'SETUP'):
        if md is not None:
            out += len(md).to_bytes(3, 'big') + md
        out += d
    elif ft in ('METADATA_PUSH', 'LEASE'):
        out += md or b''
    else:
        out += d
    return out


def setup_extra(keepalive_ms, lifetime_ms, md_mime=b'application/json', d_mime=b'application/json', major=1, minor=0,
                token=None):
    x = struct.pack('>HHII', major, minor, keepalive_ms, lifetime_ms)
    if token is not None:
        x += struct.pack('>H', len(token)) + token
    x += bytes([len(md_mime)]) + md_mime + bytes([len(d_mime)]) + d_mime
    return x


F_FOLLOWS = 0x80
F_RESUME = 0x80
F_RESPOND = 0x80
F_COMPLETE = 0x40
F_LEASE = 0x40
F_NEXT = 0x20
F_IGNORE = 0x200
