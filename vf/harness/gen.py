"""Generators of scenario programs (schedules).  Everything random comes from the rng passed in (VERIF_SEED)."""
import random

DSIZES = [1, 2, 5, 17, 40, 45, 46, 52, 53, 55, 58, 59, 60, 61, 64, 100, 130, 200, 333]
MSIZES = [0, 0, 0, 0, 1, 3, 10, 40, 52, 55, 58, 60, 130]
FRAGS = [None, None, 64, 64, 65, 67, 100, 1000]
SOURCES = ['scripted', 'scripted', 'generator', 'async_generator']


def spec(rng, allow_empty=False, big=True):
    d = rng.choice(DSIZES if big else DSIZES[:6])
    m = rng.choice(MSIZES if big else MSIZES[:7])
    if allow_empty and rng.random() < 0.08:
        return [0, 0]
    if rng.random() < 0.1:
        d = 0
        m = max(m, rng.choice([1, 7, 70]))
    return [d, m]


def items(rng, k, big=True):
    return [spec(rng, big=big) for _ in range(k)]


def src_policy(rng, sources=SOURCES):
    src = rng.choice(sources)
    pol = {'src': src}
    if src != 'scripted':
        k = rng.choice([0, 1, 2, 3, 4, 6])
        pol['items'] = items(rng, k)
        pol['complete_on_last'] = rng.random() < 0.5
        pol['delay_ms'] = rng.choice([0, 0, 0, 5])
    return pol


def gen_core(rng, knobs=None):
    """random mix of 1..4 interactions of the five models from either side, with explicit delivery / gating steps"""
    k = dict(knobs or {})
    mode = k.get('mode') or rng.choice(['tcp', 'tcp', 'msg'])
    frag = k['frag'] if 'frag' in k else rng.choice(FRAGS)
    opts = {'mode': mode, 'frag': frag, 'read_buffer': rng.choice([1, 3, 7, 64, 1024, 65536]),
            'late_actions': bool(k.get('late_actions'))}
    kinds = k.get('kinds') or ['rr', 'rr', 'stream', 'stream', 'channel', 'channel', 'fnf', 'push']
    sources = k.get('sources') or SOURCES
    n_inter = rng.randint(k.get('min_inter', 1), k.get('max_inter', 4))
    p_cancel = k.get('p_cancel', 0.12)
    p_error = k.get('p_error', 0.08)
    gating = k.get('gating', True)
    steps = rng.randint(k.get('min_steps', 10), k.get('max_steps', 40))
    prog = [['start'], ['pump']]
    inter = []      # generator-side view: dicts

    def new_interaction():
        kind = rng.choice(kinds)
        ep = rng.choice(k.get('initiators', ['c', 'c', 's']))
        ref = len(inter)
        sp = spec(rng)
        if kind == 'rr':
            mode_ = rng.choice(['immediate', 'immediate', 'later', 'later', 'error'])
            pol = {'mode': mode_, 'resp': spec(rng, allow_empty=True)}
            prog.append(['rr', ep, sp, pol])
            inter.append({'kind': kind, 'later': mode_ == 'later'})
        elif kind == 'fnf':
            prog.append(['fnf', ep, sp])
            inter.append({'kind': kind})
        elif kind == 'push':
            prog.append(['push', ep, max(1, sp[1] or sp[0])])
            inter.append({'kind': kind})
        elif kind == 'stream':
            pol = src_policy(rng, sources)
            n0 = rng.choice([1, 1, 2, 3, 5, 2147483647, None])
            prog.append(['stream', ep, sp, n0, pol, True])
            inter.append({'kind': kind, 'resp_scripted': pol['src'] == 'scripted'})
        else:
            pol = src_policy(rng, sources)
            pol['pub'] = rng.random() < 0.85
            pol['sub'] = rng.random() < 0.9
            has_pub = rng.random() < 0.8
            ppol = src_policy(rng, sources) if has_pub else None
            n0 = rng.choice([1, 2, 3, 5, 2147483647, None])
            prog.append(['channel', ep, sp, n0, pol, has_pub, ppol, True])
            inter.append({'kind': kind, 'resp_scripted': pol['src'] == 'scripted' and pol['pub'],
                          'req_scripted': has_pub and ppol['src'] == 'scripted'})

    new_interaction()
    for _ in range(steps):
        r = rng.random()
        if r < 0.12 and len(inter) < n_inter:
            new_interaction()
            continue
        if r < 0.45:
            # environment step
            e = rng.random()
            src = rng.choice(['c', 's'])
            if e < 0.35:
                prog.append(['pump'] if rng.random() < 0.7 else ['pump', rng.choice([1, 2, 5, 11, 64])])
            elif e < 0.65:
                kk = rng.choice([1, 2, 3, 5, 9, 14, 40, 70, None]) if mode == 'tcp' else rng.choice([1, 1, 2, None])
                prog.append(['deliver', src, kk])
            elif e < 0.75 and gating:
                prog.append(['gate_close', src])
            elif e < 0.88 and gating:
                prog.append(['gate', src, rng.choice([1, 1, 2, 3])])
            elif e < 0.94 and gating:
                prog.append(['gate_open', src])
            elif e < 0.97:
                prog.append(['advance', rng.choice([1, 5, 10])])
            else:
                prog.append(['settle'])
            continue
        # application step on a random interaction
        ref = rng.randrange(len(inter))
        it = inter[ref]
        kind = it['kind']
        if kind == 'rr':
            a = rng.random()
            if it.get('later') and a < 0.6:
                prog.append(['respond', ref, spec(rng, allow_empty=True)] if rng.random() > p_error else ['respond_error', ref])
            elif a < 0.6 + p_cancel:
                prog.append(['fut_cancel', ref])
        elif kind in ('stream', 'channel'):
            roles = ['resp'] if kind == 'stream' else ['resp', 'req']
            role = rng.choice(roles)
            a = rng.random()
            if a < 0.45:
                if it.get(role + '_scripted'):
                    b = rng.random()
                    if b < 0.7:
                        sp = spec(rng, allow_empty=True)
                        prog.append(['emit', ref, role, sp[0], sp[1], 1 if rng.random() < 0.15 else 0])
                        if rng.random() < 0.3:
                            sp = spec(rng)
                            prog.append(['emit', ref, role, sp[0], sp[1], 0])
                    elif b < 0.7 + p_error:
                        prog.append(['error', ref, role])
                    else:
                        prog.append(['complete', ref, role])
            elif a < 0.8:
                # the subscriber of the opposite role grants credit
                sub_role = 'req' if role == 'resp' else 'resp'
                prog.append(['request_n', ref, sub_role, rng.choice([1, 1, 2, 3, 7, 2147483647])])
            elif a < 0.8 + p_cancel:
                sub_role = 'req' if role == 'resp' else 'resp'
                prog.append(['cancel', ref, sub_role])
    prog.append(['finish'])
    return opts, prog


def gen_cut(rng, knobs=None):
    """0..4 pending interactions in both roles, then the link is cut (orderly EOF / transport error) at an arbitrary byte
    offset - possibly in the middle of a (fragmented) frame - or an endpoint calls close(); afterwards several keep-alive
    periods of virtual time pass and the final snapshot is taken."""
    k = dict(knobs or {})
    mode = k.get('mode', 'tcp')
    frag = k['frag'] if 'frag' in k else rng.choice([None, 64, 100])
    opts = {'mode': mode, 'frag': frag, 'read_buffer': rng.choice([1, 7, 1024]), 'keepalive_ms': 100, 'lifetime_ms': 100000}
    prog = [['start'], ['pump']]
    n = rng.randint(0, 4)
    kinds = []
    for i in range(n):
        kind = rng.choice(['rr', 'rr', 'stream', 'stream', 'channel', 'fnf'])
        ep = rng.choice(['c', 's'])
        sp = spec(rng)
        kinds.append(kind)
        if kind == 'rr':
            prog.append(['rr', ep, sp, {'mode': rng.choice(['later', 'later', 'immediate']), 'resp': spec(rng),
                                        'suspend': rng.choice([0, 0, 0.05])}])
        elif kind == 'fnf':
            prog.append(['fnf', ep, sp])
        elif kind == 'stream':
            pol = src_policy(rng)
            pol['suspend'] = rng.choice([0, 0, 0.05])
            prog.append(['stream', ep, sp, rng.choice([1, 2, 5, None]), pol, rng.random() < 0.9])
        else:
            pol = src_policy(rng)
            pol['pub'] = rng.random() < 0.8
            pol['sub'] = rng.random() < 0.9
            has_pub = rng.random() < 0.7
            prog.append(['channel', ep, sp, rng.choice([1, 3, None]), pol, has_pub, src_policy(rng) if has_pub else None,
                         rng.random() < 0.9])
        if rng.random() < 0.5:
            prog.append(['pump'])
    # some traffic
    for _ in range(rng.randint(0, 6)):
        ref = rng.randrange(n) if n else None
        r = rng.random()
        if ref is not None and kinds[ref] in ('stream', 'channel') and r < 0.4:
            sp = spec(rng)
            prog.append(['emit', ref, rng.choice(['resp', 'req']), sp[0], sp[1], 0])
        elif ref is not None and kinds[ref] in ('stream', 'channel') and r < 0.55:
            prog.append(['request_n', ref, rng.choice(['req', 'resp']), rng.choice([1, 3])])
        elif ref is not None and kinds[ref] == 'rr' and r < 0.5:
            prog.append(['respond', ref, spec(rng)])
        elif r < 0.8:
            prog.append(['deliver', rng.choice(['c', 's']), rng.choice([1, 3, 9, 20, 64, None])])
        else:
            prog.append(['pump'])
    # the fault
    how = rng.choice(k.get('faults', ['eof', 'eof', 'error', 'close', 'close']))
    src = rng.choice(['c', 's'])
    if how in ('eof', 'error'):
        # deliver a random number of bytes of each direction first, so that the cut lands anywhere (mid frame included)
        prog.append(['deliver_nosettle', 'c', rng.choice([1, 2, 4, 7, 13, 30, 71, 200])])
        prog.append(['deliver_nosettle', 's', rng.choice([1, 2, 4, 7, 13, 30, 71, 200])])
        if rng.random() < 0.5:
            prog.append(['settle'])
        prog.append(['cut', src, how])
    else:
        if rng.random() < 0.5:
            prog.append(['deliver', rng.choice(['c', 's']), rng.choice([1, 5, 40, None])])
        prog.append(['close', src])
    prog.append(['settle'])
    prog.append(['advance', 450])
    prog.append(['settle'])
    prog.append(['snapshot', 'final'])
    return opts, prog


RAISE_POLICIES = [
    ('rr', {'raise': True}), ('rr', {'mode': 'error'}), ('fnf', {'raise': True}), ('push', {'raise': True}),
    ('stream', {'raise': True}), ('stream', {'src': 'scripted', 'pub_raise_in': ['subscribe']}),
    ('stream', {'src': 'scripted', 'pub_raise_in': ['request']}), ('stream', {'src': 'scripted', 'pub_raise_in': ['cancel']}),
    ('stream', {'src': 'generator', 'items': [[5, 0], [6, 0], [7, 0]], 'raise_at': 1, 'complete_on_last': True}),
    ('stream', {'src': 'async_generator', 'items': [[5, 0], [6, 0]], 'raise_at': 0, 'complete_on_last': True}),
    ('channel', {'raise': True}), ('channel', {'src': 'scripted', 'pub': True, 'sub': True, 'sub_raise_in': ['on_next']}),
    ('channel', {'src': 'scripted', 'pub': True, 'sub': True, 'sub_raise_in': ['on_subscribe']}),
    ('channel', {'src': 'scripted', 'pub': True, 'sub': True, 'sub_raise_in': ['on_complete']}),
    ('channel', {'src': 'scripted', 'pub': True, 'sub': True, 'pub_raise_in': ['request']}),
    ('stream_sub_raises', {'src': 'scripted'}),
]


def gen_hostile(rng, knobs=None):
    """a witness stream runs across 1..3 pieces of hostile input (junk frames injected towards either endpoint, and
    interactions whose application code raises); afterwards the witness finishes and a probe request must be served"""
    from .junk import CLASSES
    k = dict(knobs or {})
    mode = k.get('mode') or rng.choice(['tcp', 'tcp', 'msg'])
    opts = {'mode': mode, 'frag': rng.choice([None, None, 64]), 'read_buffer': rng.choice([1, 7, 1024]), 'hostile': True}
    prog = [['start'], ['pump']]
    dst = rng.choice(['s', 's', 'c'])           # endpoint under attack
    src = 'c' if dst == 's' else 's'
    # a finished interaction (for 'finished_stream') and the witness, both opened by the peer of dst
    prog.append(['rr', src, spec(rng), {'mode': 'immediate', 'resp': spec(rng)}])
    prog.append(['pump'])
    prog.append(['stream', src, spec(rng), None, {'src': 'scripted'}, True])
    prog.append(['pump'])
    sp = spec(rng)
    prog.append(['emit', 1, 'resp', sp[0], sp[1], 0])
    prog.append(['pump'])
    classes = k.get('classes') or CLASSES
    for _ in range(rng.randint(1, 3)):
        if rng.random() < k.get('p_raise', 0.35):
            kind, pol = rng.choice(RAISE_POLICIES)
            pol = dict(pol)
            if kind == 'rr':
                prog.append(['rr', src, spec(rng), pol])
            elif kind == 'fnf':
                prog.append(['fnf', src, spec(rng), pol])
            elif kind == 'push':
                prog.append(['push', src, 9, pol])
            elif kind == 'stream':
                prog.append(['stream', src, spec(rng), rng.choice([1, 5, None]), pol, True])
                prog.append(['pump'])
                prog.append(['request_n', -1, 'req', 3])
                prog.append(['pump'])
                prog.append(['cancel', -1, 'req'])
            elif kind == 'stream_sub_raises':
                prog.append(['stream_raising_sub', src, spec(rng), pol, rng.choice(['on_next', 'on_subscribe', 'on_complete', 'on_error'])])
                prog.append(['pump'])
                sp = spec(rng)
                prog.append(['emit', -1, 'resp', sp[0], sp[1], 0])
                prog.append(['pump'])
                prog.append([rng.choice(['complete', 'error']), -1, 'resp'])
            else:
                prog.append(['channel', src, spec(rng), 3, pol, True, {'src': 'scripted'}, True])
                prog.append(['pump'])
                sp = spec(rng)
                prog.append(['emit', -1, 'req', sp[0], sp[1], 0])
                prog.append(['request_n', -1, 'req', 2])
                prog.append(['pump'])
                prog.append(['complete', -1, 'req'])
                prog.append(['complete', -1, 'resp'])
            prog.append(['pump'])
        else:
            cls = rng.choice(classes)
            prog.append(['inject', dst, cls, {'r': rng.randrange(10 ** 6), 'spare': 3 if src == 'c' else 4}])
            prog.append(['pump'] if rng.random() < 0.7 else ['pump', rng.choice([1, 3, 8])])
    # the witness goes on and completes; a fresh request is served
    sp = spec(rng)
    prog.append(['emit', 1, 'resp', sp[0], sp[1], 0])
    prog.append(['pump'])
    prog.append(['complete', 1, 'resp'])
    prog.append(['probe', src, spec(rng), spec(rng)])
    prog.append(['finish'])
    return opts, prog
