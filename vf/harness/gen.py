"""Generators of scenario programs (schedules).  Everything random comes from the rng passed in (VERIF_SEED)."""
import random

DSIZES = [1, 2, 5, 17, 40, 45, 46, 52, 53, 55, 58, 59, 60, 61, 64, 100, 130, 200, 333]
MSIZES = [0, 0, 0, 0, 1, 3, 10, 40, 52, 55, 58, 60, 130]
FRAGS = [None, None, 64, 64, 65, 67, 100, 1000]
SOURCES = ['scripted', 'scripted', 'generator', 'async_generator']


def spec(rng, allow_empty=False, big=True):
    d = rng.choice(DSIZES if big else DSIZES[:6])
    m = rng.choice(MSIZES if big else MSIZES[:7])
    if allow_empty and rng.random() < 0.08:
        return [0, 0]
    if rng.random() < 0.1:
        d = 0
        m = max(m, rng.choice([1, 7, 70]))
    return [d, m]


def items(rng, k, big=True):
    return [spec(rng, big=big) for _ in range(k)]


def src_policy(rng, sources=SOURCES):
    src = rng.choice(sources)
    pol = {'src': src}
    if src != 'scripted':
        k = rng.choice([0, 1, 2, 3, 4, 6])
        pol['items'] = items(rng, k)
        pol['complete_on_last'] = rng.random() < 0.5
        pol['delay_ms'] = rng.choice([0, 0, 0, 5])
    return pol


def gen_core(rng, knobs=None):
    """random mix of 1..4 interactions of the five models from either side, with explicit delivery / gating steps"""
    k = dict(knobs or {})
    mode = k.get('mode') or rng.choice(['tcp', 'tcp', 'msg'])
    frag = k['frag'] if 'frag' in k else rng.choice(FRAGS)
    opts = {'mode': mode, 'frag': frag, 'read_buffer': rng.choice([1, 3, 7, 64, 1024, 65536]),
            'late_actions': bool(k.get('late_actions'))}
    if 'frag' not in k and rng.random() < 0.25:
        # the two endpoints are configured with different fragment sizes (what one reassembles never depends on its own setting)
        opts['frag_' + rng.choice(['c', 's'])] = rng.choice([f for f in FRAGS if f != frag])
    kinds = k.get('kinds') or ['rr', 'rr', 'stream', 'stream', 'channel', 'channel', 'fnf', 'push']
    sources = k.get('sources') or SOURCES
    n_inter = rng.randint(k.get('min_inter', 1), k.get('max_inter', 4))
    p_cancel = k.get('p_cancel', 0.12)
    p_error = k.get('p_error', 0.08)
    gating = k.get('gating', True)
    steps = rng.randint(k.get('min_steps', 10), k.get('max_steps', 40))
    prog = [['start'], ['pump']]
    inter = []      # generator-side view: dicts

    def new_interaction():
        kind = rng.choice(kinds)
        ep = rng.choice(k.get('initiators', ['c', 'c', 's']))
        ref = len(inter)
        sp = spec(rng)
        if kind == 'rr':
            mode_ = rng.choice(['immediate', 'immediate', 'later', 'later', 'error'])
            pol = {'mode': mode_, 'resp': spec(rng, allow_empty=True)}
            prog.append(['rr', ep, sp, pol])
            inter.append({'kind': kind, 'later': mode_ == 'later'})
        elif kind == 'fnf':
            prog.append(['fnf', ep, sp])
            inter.append({'kind': kind})
        elif kind == 'push':
            prog.append(['push', ep, max(1, sp[1] or sp[0])])
            inter.append({'kind': kind})
        elif kind == 'stream':
            pol = src_policy(rng, sources)
            if rng.random() < k.get('p_auto_request', 0.3):
                pol['auto_request'] = rng.choice([1, 2])
            if rng.random() < k.get('p_in_subscribe', 0.15):
                pol['in_subscribe'] = rng.choice([['request', 1], ['request', 3], ['request', 2147483647], ['cancel']])
            if rng.random() < k.get('p_cancel_in_next', 0.1):
                pol['cancel_in_next'] = rng.choice([1, 2, 3])
            if pol['src'] == 'scripted' and rng.random() < k.get('p_sync', 0.3):
                pol['sync'] = items(rng, rng.choice([0, 1, 2, 3, 5]))
                pol['complete_on_last'] = rng.random() < 0.5
            elif pol['src'] == 'scripted' and rng.random() < k.get('p_pub_in_subscribe', 0.1):
                pol['pub_in_subscribe'] = rng.choice(['complete', 'complete', 'error'])      # an empty / failing publisher
            if rng.random() < k.get('p_collector', 0.2):
                # the library's own batching subscriber (AwaitableRSocket.request_stream(limit_rate))
                pol['collector'] = {'limit_rate': rng.choice([1, 1, 2, 2, 3, 5]), 'limit_count': rng.choice([None, None, None, 2, 3])}
            n0 = rng.choice([1, 1, 2, 3, 5, 2147483647, None])
            if k.get('p_bad_n') and rng.random() < k['p_bad_n']:
                n0 = rng.choice([0, -1, -2147483648])       # refused by the library: nothing may reach the wire
            prog.append(['stream', ep, sp, n0, pol, True])
            inter.append({'kind': kind, 'resp_scripted': pol['src'] == 'scripted'})
        else:
            pol = src_policy(rng, sources)
            pol['pub'] = rng.random() < 0.85
            pol['sub'] = rng.random() < 0.9
            has_pub = rng.random() < 0.8
            ppol = src_policy(rng, sources) if has_pub else None
            if rng.random() < k.get('p_auto_request', 0.3):
                pol['auto_request'] = rng.choice([1, 2])
            if rng.random() < k.get('p_in_subscribe', 0.15):
                pol['in_subscribe'] = rng.choice([['request', 1], ['request', 3], ['cancel']])
            if rng.random() < k.get('p_in_subscribe', 0.15):
                pol['resp_in_subscribe'] = rng.choice([['request', 1], ['request', 3], ['cancel']])
            if rng.random() < k.get('p_cancel_in_next', 0.1):
                pol['cancel_in_next'] = rng.choice([1, 2, 3])
            if pol['src'] == 'scripted' and pol['pub'] and rng.random() < k.get('p_sync', 0.3):
                pol['sync'] = items(rng, rng.choice([0, 1, 2, 3, 5]))
                pol['complete_on_last'] = rng.random() < 0.5
            if ppol is not None and ppol['src'] == 'scripted' and rng.random() < k.get('p_sync', 0.3):
                ppol['sync'] = items(rng, rng.choice([0, 1, 2, 3]))
                ppol['complete_on_last'] = rng.random() < 0.5
            elif ppol is not None and ppol['src'] == 'scripted' and rng.random() < k.get('p_pub_in_subscribe', 0.15):
                ppol['pub_in_subscribe'] = rng.choice(['complete', 'complete', 'error'])
            if pol['src'] == 'scripted' and pol['pub'] and 'sync' not in pol and rng.random() < k.get('p_pub_in_subscribe', 0.1):
                pol['pub_in_subscribe'] = rng.choice(['complete', 'complete', 'error'])
            if rng.random() < k.get('p_collector', 0.2):
                pol['collector'] = {'limit_rate': rng.choice([1, 1, 2, 2, 3, 5]), 'limit_count': rng.choice([None, None, None, 2, 3])}
            n0 = rng.choice([1, 2, 3, 5, 2147483647, None])
            if k.get('p_bad_n') and rng.random() < k['p_bad_n']:
                n0 = rng.choice([0, -1, -2147483648])
            prog.append(['channel', ep, sp, n0, pol, has_pub, ppol, True])
            inter.append({'kind': kind, 'resp_scripted': pol['src'] == 'scripted' and pol['pub'],
                          'req_scripted': has_pub and ppol['src'] == 'scripted'})

    new_interaction()
    for _ in range(steps):
        r = rng.random()
        if r < 0.12 and len(inter) < n_inter:
            new_interaction()
            continue
        if r < 0.45:
            # environment step
            e = rng.random()
            src = rng.choice(['c', 's'])
            if e < 0.35:
                prog.append(['pump'] if rng.random() < 0.7 else ['pump', rng.choice([1, 2, 5, 11, 64])])
            elif e < 0.65:
                kk = rng.choice([1, 2, 3, 5, 9, 14, 40, 70, None]) if mode == 'tcp' else rng.choice([1, 1, 2, None])
                prog.append(['deliver', src, kk])
            elif e < 0.75 and gating:
                prog.append(['gate_close', src])
            elif e < 0.88 and gating:
                prog.append(['gate', src, rng.choice([1, 1, 2, 3])])
            elif e < 0.94 and gating:
                prog.append(['gate_open', src])
            elif e < 0.97:
                prog.append(['advance', rng.choice([1, 5, 10])])
            else:
                prog.append(['settle'])
            continue
        # application step on a random interaction
        ref = rng.randrange(len(inter))
        it = inter[ref]
        kind = it['kind']
        if kind == 'rr':
            a = rng.random()
            if it.get('later') and a < 0.6:
                prog.append(['respond', ref, spec(rng, allow_empty=True)] if rng.random() > p_error else ['respond_error', ref])
            elif a < 0.6 + p_cancel:
                prog.append(['fut_cancel', ref])
        elif kind in ('stream', 'channel'):
            roles = ['resp'] if kind == 'stream' else ['resp', 'req']
            role = rng.choice(roles)
            a = rng.random()
            if a < 0.45:
                if it.get(role + '_scripted'):
                    b = rng.random()
                    if b < 0.7:
                        sp = spec(rng, allow_empty=True)
                        prog.append(['emit', ref, role, sp[0], sp[1], 1 if rng.random() < 0.15 else 0])
                        if rng.random() < 0.3:
                            sp = spec(rng)
                            prog.append(['emit', ref, role, sp[0], sp[1], 0])
                    elif b < 0.7 + p_error:
                        prog.append(['error', ref, role])
                    else:
                        prog.append(['complete', ref, role])
            elif a < 0.8:
                # the subscriber of the opposite role grants credit
                sub_role = 'req' if role == 'resp' else 'resp'
                prog.append(['request_n', ref, sub_role, rng.choice([1, 1, 2, 3, 7, 2147483647])])
            elif a < 0.8 + p_cancel:
                sub_role = 'req' if role == 'resp' else 'resp'
                if rng.random() < k.get('p_cancel_race', 0.4):
                    # the cancel races with elements of the peer that are already in the reader's buffer
                    for src in ('c', 's'):
                        prog.append(['deliver_nosettle', src, rng.choice([30, 71, 200, None])])
                prog.append(['cancel', ref, sub_role])
    prog.append(['finish'])
    return opts, prog


def gen_cut(rng, knobs=None):
    """0..4 pending interactions in both roles, then the link is cut (orderly EOF / transport error) at an arbitrary byte
    offset - possibly in the middle of a (fragmented) frame - or an endpoint calls close(); afterwards several keep-alive
    periods of virtual time pass and the final snapshot is taken."""
    k = dict(knobs or {})
    mode = k.get('mode', 'tcp')
    frag = k['frag'] if 'frag' in k else rng.choice([None, 64, 100])
    opts = {'mode': mode, 'frag': frag, 'read_buffer': rng.choice([1, 7, 1024]), 'keepalive_ms': 100, 'lifetime_ms': 100000}
    if rng.random() < k.get('p_drain', 0.2):
        opts['on_close_drains'] = True       # on_close waits for the calls that were in flight to come back (graceful drain)
    prog = [['start'], ['pump']]
    n = rng.randint(0, 4)
    kinds = []
    inits = []
    for i in range(n):
        kind = rng.choice(['rr', 'rr', 'stream', 'stream', 'channel', 'fnf'])
        ep = rng.choice(['c', 's'])
        sp = spec(rng)
        kinds.append(kind)
        inits.append(ep)
        if kind == 'rr':
            prog.append(['rr', ep, sp, {'mode': rng.choice(['later', 'later', 'immediate']), 'resp': spec(rng),
                                        'suspend': rng.choice([0, 0, 0.05])}])
        elif kind == 'fnf':
            prog.append(['fnf', ep, sp])
        elif kind == 'stream':
            pol = src_policy(rng)
            pol['suspend'] = rng.choice([0, 0, 0.05])
            prog.append(['stream', ep, sp, rng.choice([1, 2, 5, None]), pol, rng.random() < 0.9])
        else:
            pol = src_policy(rng)
            pol['pub'] = rng.random() < 0.8
            pol['sub'] = rng.random() < 0.9
            has_pub = rng.random() < 0.7
            prog.append(['channel', ep, sp, rng.choice([1, 3, None]), pol, has_pub, src_policy(rng) if has_pub else None,
                         rng.random() < 0.9])
        if rng.random() < 0.5:
            prog.append(['pump'])
    # some traffic
    for _ in range(rng.randint(0, 6)):
        ref = rng.randrange(n) if n else None
        r = rng.random()
        if ref is not None and kinds[ref] in ('stream', 'channel') and r < 0.4:
            sp = spec(rng)
            t = rng.random()
            role = rng.choice(['resp', 'req'])
            if t < 0.7:
                # (an element flagged complete / a completion / an error may be the last thing in flight when the link is cut)
                prog.append(['emit', ref, role, sp[0], sp[1], 1 if rng.random() < 0.25 else 0])
            elif t < 0.87:
                prog.append(['complete', ref, role])
            else:
                prog.append(['error', ref, role])
        elif ref is not None and kinds[ref] in ('stream', 'channel') and r < 0.55:
            prog.append(['request_n', ref, rng.choice(['req', 'resp']), rng.choice([1, 3])])
        elif ref is not None and kinds[ref] == 'rr' and r < 0.5:
            prog.append(['respond', ref, spec(rng)])
        elif r < 0.8:
            prog.append(['deliver', rng.choice(['c', 's']), rng.choice([1, 3, 9, 20, 64, None])])
        elif r < 0.9:
            prog.append(['settle'])     # frames are written but stay on the link
        else:
            prog.append(['pump'])
    if rng.random() < 0.5:
        prog.append(['settle'])
    # the fault
    how = rng.choice(k.get('faults', ['eof', 'eof', 'error', 'close', 'close']))
    src = rng.choice(['c', 's'])
    if how in ('eof', 'error') and rng.random() < k.get('p_request_race', 0.2):
        # the last thing an endpoint reads before the loss is a REQUEST: the handler is invoked, its publisher / future is
        # created, and the connection is gone before any of the tasks just started has run
        ep = rng.choice(['c', 's'])
        sp = spec(rng, big=rng.random() < 0.3)
        kind = rng.choice(['rr', 'stream', 'stream', 'stream', 'channel', 'fnf'])
        prog.append(['pump'])
        if kind == 'rr':
            prog.append(['rr', ep, sp, {'mode': rng.choice(['later', 'immediate']), 'resp': spec(rng), 'suspend': rng.choice([0, 0, 0.05])}])
        elif kind == 'fnf':
            prog.append(['fnf', ep, sp])
        elif kind == 'stream':
            pol = src_policy(rng)
            prog.append(['stream', ep, sp, rng.choice([1, 2, 5, None]), pol, True])
        else:
            pol = src_policy(rng)
            pol['pub'] = True
            pol['sub'] = True
            has_pub = rng.random() < 0.7
            prog.append(['channel', ep, sp, rng.choice([1, 3, None]), pol, has_pub, src_policy(rng) if has_pub else None, True])
        prog.append(['settle'])
        prog.append(['deliver_nosettle', ep, None])
        prog.append(['cut', ep, how])
        prog.append(['settle'])
        prog.append(['advance', 450])
        prog.append(['settle'])
        prog.append(['snapshot', 'final'])
        return opts, prog
    if rng.random() < k.get('p_midwrite', 0.15):
        # the connection ends while a frame of `ep` is being written: the transport stops accepting writes after j frames (fragments),
        # a (usually fragmented) frame is queued behind whatever is still waiting, and the loss / close() finds the sender inside a write
        ep = rng.choice(['c', 's'])
        opts['frag'] = rng.choice([64, 64, 100])
        prog.append(['pump'])
        prog.append(['gate_close', ep])
        kind = rng.choice(['fnf', 'fnf', 'push', 'rr', 'stream', 'channel'])
        sp = rng.choice([[200, 0], [300, 50], [0, 200], [120, 120], [70, 0], [10, 5]])
        if kind == 'fnf':
            prog.append(['fnf', ep, sp])
        elif kind == 'push':
            prog.append(['push', ep, rng.choice([9, 100, 300])])
        elif kind == 'rr':
            prog.append(['rr', ep, sp, {'mode': 'later', 'resp': spec(rng)}])
        elif kind == 'stream':
            prog.append(['stream', ep, sp, rng.choice([1, 5]), src_policy(rng), True])
        else:
            prog.append(['channel', ep, sp, rng.choice([1, 3]), dict(src_policy(rng), pub=True, sub=True), True, src_policy(rng), True])
        if rng.random() < 0.4:
            prog.append(['fnf', ep, rng.choice([[200, 0], [5, 5]])])        # ... and one more behind it
        prog.append(['settle'])
        prog.append(['gate', ep, rng.choice([0, 1, 1, 2, 3, 7])])
        prog.append(['settle'])
        end = rng.choice(['eof', 'error', 'close', 'close_peer'])
        if end in ('eof', 'error'):
            prog.append(['cut', rng.choice(['c', 's']), end])
        else:
            prog.append(['close', ep if end == 'close' else ('s' if ep == 'c' else 'c')])
        prog.append(['settle'])
        prog.append(['advance', 450])
        prog.append(['settle'])
        prog.append(['snapshot', 'final'])
        return opts, prog
    cands = [i for i in range(n) if kinds[i] in ('rr', 'stream', 'channel')]
    if cands and how in ('eof', 'error') and rng.random() < k.get('p_terminal_race', 0.35):
        # the responder's terminal frame is the last thing its peer reads before the connection is lost: the terminal signal
        # and the loss are handled in the same receiver step
        ref = rng.choice(cands)
        resp_ep = 's' if inits[ref] == 'c' else 'c'
        prog.append(['pump'])
        from_ep = resp_ep
        if kinds[ref] == 'rr':
            if rng.random() < 0.8:
                prog.append(['respond', ref, spec(rng)] if rng.random() < 0.8 else ['respond_error', ref])
            else:
                prog.append(['fut_cancel', ref])        # the requester's CANCEL is the last thing the responder reads
                from_ep = inits[ref]
        else:
            t = rng.random()
            sp = spec(rng)
            role = 'resp'
            if kinds[ref] == 'channel' and rng.random() < 0.35:
                role = 'req'                            # the requester's side of a channel ends just before the loss
                from_ep = inits[ref]
            if t < 0.35:
                prog.append(['emit', ref, role, sp[0], sp[1], 1])
            elif t < 0.7:
                prog.append(['complete', ref, role])
            elif t < 0.85:
                prog.append(['error', ref, role])
            else:
                prog.append(['cancel', ref, 'req'])     # ... or the requester's CANCEL
                from_ep = inits[ref]
        prog.append(['settle'])
        prog.append(['deliver_nosettle', from_ep, None])
        prog.append(['cut', from_ep, how])
        prog.append(['settle'])
        prog.append(['advance', 450])
        prog.append(['settle'])
        prog.append(['snapshot', 'final'])
        return opts, prog
    if how in ('eof', 'error'):
        # deliver a random number of bytes of each direction first, so that the cut lands anywhere (mid frame included)
        # (None = everything in flight: the cut then follows the last frame - e.g. a terminal one - in the same read)
        prog.append(['deliver_nosettle', 'c', rng.choice([1, 2, 4, 7, 13, 30, 71, 200, None, None, None])])
        prog.append(['deliver_nosettle', 's', rng.choice([1, 2, 4, 7, 13, 30, 71, 200, None, None, None])])
        if rng.random() < 0.4:
            prog.append(['settle'])
        prog.append(['cut', src, how])
    else:
        if rng.random() < 0.5:
            prog.append(['deliver', rng.choice(['c', 's']), rng.choice([1, 5, 40, None])])
        if rng.random() < 0.3:
            # close() is called by a request handler of `src` while it is handling a request ("while a handler is running")
            prog.append(['rr', 's' if src == 'c' else 'c', spec(rng, big=False), {'mode': rng.choice(['immediate', 'later']), 'resp': spec(rng, big=False),
                                                                    'close_in_handler': True}])
            prog.append(['pump'])
        else:
            prog.append(['close', src])
    prog.append(['settle'])
    prog.append(['advance', 450])
    prog.append(['settle'])
    prog.append(['snapshot', 'final'])
    return opts, prog


def gen_midframe(rng, knobs=None):
    """an interaction is ended (cancel / error / completion of the other side) while a fragmented frame of it is half-way: some of its
    fragments written and the sender blocked, or written and still in flight when the ending frame is handled.  Whatever was left half-way -
    in the sender's queue or in the peer's reassembly cache - must be gone at quiescence, and the id must be usable again."""
    k = dict(knobs or {})
    opts = {'mode': rng.choice(['tcp', 'tcp', 'msg']), 'frag': rng.choice([64, 64, 100]), 'read_buffer': rng.choice([1, 7, 1024]),
            'max_stream_id': rng.choice([None, 7, 7])}
    prog = [['start'], ['pump']]
    init = rng.choice(['c', 'c', 's'])
    other = 's' if init == 'c' else 'c'
    kind = rng.choice(['stream', 'stream', 'channel', 'rr'])
    big = rng.choice([[200, 0], [300, 40], [0, 180], [130, 130]])
    if kind == 'stream':
        prog.append(['stream', init, spec(rng, big=False), rng.choice([3, 5, None]), {'src': 'scripted'}, True])
        emitter, role = other, 'resp'
    elif kind == 'channel':
        prog.append(['channel', init, spec(rng, big=False), 5, {'src': 'scripted', 'pub': True, 'sub': True}, True, {'src': 'scripted'}, True])
        role = rng.choice(['resp', 'req'])
        emitter = other if role == 'resp' else init
    else:
        prog.append(['rr', init, spec(rng, big=False), {'mode': 'later'}])
        emitter, role = other, 'resp'
    prog.append(['pump'])
    if kind == 'channel' and role == 'req':
        prog.append(['request_n', 0, 'resp', 5])
        prog.append(['pump'])
    if rng.random() < 0.5:
        # a witness whose frames share the sender with the half-written frame
        prog.append(['stream', init, spec(rng, big=False), 5, {'src': 'scripted'}, True])
        prog.append(['pump'])
        prog.append(['emit', 1, 'resp', 30, 0, 0])
    # the emitter's transport stops accepting writes; a big element (response) is queued and j of its fragments get through
    prog.append(['gate_close', emitter])
    if kind == 'rr':
        prog.append(['respond', 0, big])
    else:
        prog.append(['emit', 0, role, big[0], big[1], 1 if rng.random() < 0.3 else 0])
        if rng.random() < 0.4:
            prog.append(['emit', 0, role, 20, 0, 0])
    prog.append(['settle'])
    if kind != 'rr' and rng.random() < k.get('p_own_end', 0.3):
        # the EMITTER itself goes on while its frame is half-written - j fragments out, the sender inside the write of the j-th (up to and
        # including the last one): its publisher signals the next element and / or completes.  Everything it signalled reaches the peer
        prog.append(['gate', emitter, rng.choice([1, 2, 3, 4, 5, 6, 7])])
        prog.append(['settle'])
        if rng.random() < 0.4:
            prog.append(['emit', 0, role, 20, 0, 0])
        prog.append(['complete', 0, role])
        prog.append(['settle'])
        for _ in range(rng.randint(0, 3)):
            prog.append(['gate', emitter, 1])
            prog.append(['settle'])
        prog.append(['gate_open', emitter])
        prog.append(['pump'])
        if kind == 'channel':
            prog.append(['complete', 0, 'req' if role == 'resp' else 'resp'])
            prog.append(['pump'])
        if opts['max_stream_id'] is None:
            del opts['max_stream_id']
        prog.append(['probe', init, spec(rng, big=False), [10, 0]])
        prog.append(['pump'])
        prog.append(['finish'])
        return opts, prog
    prog.append(['gate', emitter, rng.choice([1, 1, 2, 3])])
    prog.append(['settle'])
    receiver = init if emitter == other else other
    # how much of what was written reaches the receiver before it ends the interaction
    if rng.random() < 0.5:
        prog.append(['deliver', emitter, rng.choice([None, 1, 40, 70])])
    # the receiver of the half-sent frame ends the interaction
    if kind == 'rr':
        prog.append(['fut_cancel', 0])
    elif role == 'resp':
        prog.append(rng.choice([['cancel', 0, 'req'], ['cancel', 0, 'req'], ['error', 0, 'req']]) if kind == 'channel' else ['cancel', 0, 'req'])
    else:
        prog.append(rng.choice([['cancel', 0, 'resp'], ['error', 0, 'resp']]))
    prog.append(['settle'])
    order = rng.random()
    if order < 0.4:
        prog.append(['deliver', receiver, None])      # the ending frame is handled by the emitter first ...
        prog.append(['deliver', emitter, None])       # ... then what was in flight reaches the (already finished) receiver
    elif order < 0.8:
        prog.append(['deliver', emitter, None])
        prog.append(['deliver', receiver, None])
    if rng.random() < 0.7:
        prog.append(['gate', emitter, rng.choice([1, 2])])
        prog.append(['settle'])
    prog.append(['gate_open', emitter])
    prog.append(['pump'])
    # the id is used again (reduced id space) / other requests are served
    if opts['max_stream_id'] is None:
        del opts['max_stream_id']
    for _ in range(rng.choice([1, 2, 4])):
        prog.append(['probe', init, spec(rng, big=False), rng.choice([[150, 0], [10, 0]])])
        prog.append(['pump'])
    prog.append(['finish'])
    return opts, prog


RAISE_POLICIES = [
    ('rr', {'raise': True}), ('rr', {'mode': 'error'}), ('fnf', {'raise': True}), ('push', {'raise': True}),
    ('rr', {'mode': 'cancelled'}), ('rr', {'mode': 'cancel_soon'}),
    # handlers that return nothing / the wrong kind of thing instead of a future, a publisher, a (publisher, subscriber) pair
    ('rr', {'returns': 'none'}), ('rr', {'returns': 'wrong'}), ('stream', {'returns': 'none'}), ('stream', {'returns': 'wrong'}),
    ('channel', {'returns': 'none'}), ('channel', {'returns': 'wrong'}),
    ('stream', {'raise': True}), ('stream', {'src': 'scripted', 'pub_raise_in': ['subscribe']}),
    ('stream', {'src': 'scripted', 'pub_raise_in': ['request']}), ('stream', {'src': 'scripted', 'pub_raise_in': ['cancel']}),
    ('stream', {'src': 'generator', 'items': [[5, 0], [6, 0], [7, 0]], 'raise_at': 1, 'complete_on_last': True}),
    ('stream', {'src': 'async_generator', 'items': [[5, 0], [6, 0]], 'raise_at': 0, 'complete_on_last': True}),
    ('channel', {'raise': True}), ('channel', {'src': 'scripted', 'pub': True, 'sub': True, 'sub_raise_in': ['on_next']}),
    ('channel', {'src': 'scripted', 'pub': True, 'sub': True, 'sub_raise_in': ['on_subscribe']}),
    ('channel', {'src': 'scripted', 'pub': True, 'sub': True, 'sub_raise_in': ['on_complete']}),
    ('channel', {'src': 'scripted', 'pub': True, 'sub': True, 'pub_raise_in': ['request']}),
    ('stream_sub_raises', {'src': 'scripted'}),
    # what the library's own metadata helpers raise when a well-behaved handler uses them on peer-supplied input / exceptions whose
    # arguments are not text (they must still be turned into an ERROR frame)
    ('rr', {'raise': 'lib_mime'}), ('stream', {'raise': 'lib_mime'}), ('channel', {'raise': 'lib_auth'}), ('rr', {'raise': 'lib_auth'}),
    ('fnf', {'raise': 'lib_mime'}), ('rr', {'raise': 'lib_toolong'}), ('rr', {'raise': 'nonstr'}), ('stream', {'raise': 'noargs'}),
    ('push', {'raise': 'lib_mime'}),
]


def gen_hostile(rng, knobs=None):
    """a witness stream runs across 1..3 pieces of hostile input (junk frames injected towards either endpoint, and
    interactions whose application code raises); afterwards the witness finishes and a probe request must be served"""
    from .junk import CLASSES
    k = dict(knobs or {})
    mode = k.get('mode') or rng.choice(['tcp', 'tcp', 'msg'])
    opts = {'mode': mode, 'frag': rng.choice([None, None, 64]), 'read_buffer': rng.choice([1, 7, 1024]), 'hostile': True}
    prog = [['start'], ['pump']]
    dst = rng.choice(['s', 's', 'c'])           # endpoint under attack
    src = 'c' if dst == 's' else 's'
    # a finished interaction (for 'finished_stream') and the witness, both opened by the peer of dst
    prog.append(['rr', src, spec(rng), {'mode': 'immediate', 'resp': spec(rng)}])
    prog.append(['pump'])
    prog.append(['stream', src, spec(rng), None, {'src': 'scripted'}, True])
    prog.append(['pump'])
    sp = spec(rng)
    prog.append(['emit', 1, 'resp', sp[0], sp[1], 0])
    prog.append(['pump'])
    classes = k.get('classes') or CLASSES
    if 'duplicate_request' in classes and (k.get('classes') or rng.random() < 0.3):
        # a second live interaction opened by the peer of dst: the one a request frame re-using an active id is aimed at (the
        # witness is spared: the ERROR[REJECTED] that answers the duplicate would end it at its requester)
        if rng.random() < 0.5:
            prog.append(['rr', src, spec(rng, big=False), {'mode': 'later'}])
        else:
            prog.append(['stream', src, spec(rng, big=False), rng.choice([1, 2, 5]), {'src': 'scripted'}, True])
        prog.append(['pump'])
    for _ in range(rng.randint(1, 3)):
        if rng.random() < k.get('p_raise', 0.35):
            kind, pol = rng.choice(RAISE_POLICIES)
            pol = dict(pol)
            if kind == 'rr':
                prog.append(['rr', src, spec(rng), pol])
            elif kind == 'fnf':
                prog.append(['fnf', src, spec(rng), pol])
            elif kind == 'push':
                prog.append(['push', src, 9, pol])
            elif kind == 'stream':
                prog.append(['stream', src, spec(rng), rng.choice([1, 5, None]), pol, True])
                prog.append(['pump'])
                prog.append(['request_n', -1, 'req', 3])
                prog.append(['pump'])
                prog.append(['cancel', -1, 'req'])
            elif kind == 'stream_sub_raises':
                prog.append(['stream_raising_sub', src, spec(rng), pol, rng.choice(['on_next', 'on_subscribe', 'on_complete', 'on_error'])])
                prog.append(['pump'])
                sp = spec(rng)
                prog.append(['emit', -1, 'resp', sp[0], sp[1], 0])
                prog.append(['pump'])
                prog.append([rng.choice(['complete', 'error']), -1, 'resp'])
            else:
                prog.append(['channel', src, spec(rng), 3, pol, True, {'src': 'scripted'}, True])
                prog.append(['pump'])
                sp = spec(rng)
                prog.append(['emit', -1, 'req', sp[0], sp[1], 0])
                prog.append(['request_n', -1, 'req', 2])
                prog.append(['pump'])
                prog.append(['complete', -1, 'req'])
                prog.append(['complete', -1, 'resp'])
            prog.append(['pump'])
        else:
            cls = rng.choice(classes)
            prog.append(['inject', dst, cls, {'r': rng.randrange(10 ** 6), 'spare': 3 if src == 'c' else 4}])
            prog.append(['pump'] if rng.random() < 0.7 else ['pump', rng.choice([1, 3, 8])])
    # the witness goes on and completes; a fresh request is served
    sp = spec(rng)
    prog.append(['emit', 1, 'resp', sp[0], sp[1], 0])
    prog.append(['pump'])
    prog.append(['complete', 1, 'resp'])
    prog.append(['probe', src, spec(rng), spec(rng)])
    if rng.random() < k.get('p_victim_probe', 0.8):
        # ... in both directions: the endpoint that received the hostile input makes requests of its own afterwards
        prog.append(['pump'])
        prog.append(['probe', dst, spec(rng, big=False), spec(rng, big=False)])
        if rng.random() < 0.3:
            prog.append(['advance', 1100])
            prog.append(['probe', dst, spec(rng, big=False), spec(rng, big=False)])
    prog.append(['finish'])
    return opts, prog


def gen_lease(rng, knobs=None):
    """the client honours leases; the real server announces the leases a scripted publisher issues; requests of all four
    types are made at arbitrary virtual times relative to LEASE frames (counts 0..5, ttl 0..3000 ms incl. sub-second parts)"""
    k = dict(knobs or {})
    opts = {'mode': k.get('mode') or rng.choice(['tcp', 'msg']), 'frag': rng.choice([None, None, 64]), 'honor_lease_c': True,
            'lease_queue': rng.choice([0, 0, 0, 3]), 'read_buffer': rng.choice([7, 1024])}
    if k.get('p_reconnect'):
        opts['mode'] = 'tcp'        # (closing the old transport is only observable on the TCP transport of the harness)
    prog = [['start'], ['pump']]
    for _ in range(rng.randint(4, 16)):
        r = rng.random()
        if rng.random() < k.get('p_reconnect', 0.0):
            # a lease belongs to the connection it arrived on: the client reconnects while it holds an unused, unexpired lease (or
            # while requests are waiting for one); requests made on the new connection wait for ITS first LEASE
            prog.append(['reconnect'] if rng.random() < 0.7 else ['reconnect', rng.choice([1, 3, 6, 10])])
            if rng.random() < 0.5:
                prog.append(['pump'])
        elif r < 0.3:
            prog.append(['lease', rng.choice([0, 1, 1, 2, 3, 5]), rng.choice([0, 50, 500, 1000, 1500, 2500, 3000, 86400000, 90061001, 2147483647])])
            if rng.random() < k.get('p_lease_burst', 0.15):
                # the publisher issues several leases in a row (the last one counts) - possibly while the server's transport is not
                # accepting writes, so that several LEASE frames wait in its send queue together
                blocked = rng.random() < 0.5
                if blocked:
                    prog.append(['gate_close', 's'])
                for _ in range(rng.randint(1, 3)):
                    prog.append(['lease', rng.choice([0, 1, 2, 3, 4, 5]), rng.choice([500, 1000, 2500, 3000])])
                    if blocked and rng.random() < 0.5:
                        prog.append(['settle'])
                if blocked:
                    prog.append(['settle'])
                    prog.append(['gate_open', 's'])
            prog.append(['pump'] if rng.random() < 0.8 else ['settle'])
        elif r < 0.75:
            kind = rng.choice(['rr', 'rr', 'fnf', 'stream', 'channel'])
            sp = spec(rng, big=rng.random() < 0.3)
            if kind == 'rr':
                prog.append(['rr', 'c', sp, {'mode': 'immediate', 'resp': spec(rng, big=False)}])
            elif kind == 'fnf':
                prog.append(['fnf', 'c', sp])
            elif kind == 'stream':
                prog.append(['stream', 'c', sp, rng.choice([1, 3, None]), {'src': 'generator', 'items': items(rng, 2, big=False)}, True])
            else:
                prog.append(['channel', 'c', sp, 3, {'src': 'generator', 'items': items(rng, 1, big=False), 'pub': True, 'sub': True}, False, None, True])
            if rng.random() < 0.6:
                prog.append(['pump'])
        elif r < 0.9:
            prog.append(['advance', rng.choice([10, 100, 400, 600, 1100, 2000])])
            prog.append(['pump'])
        elif k.get('lease_cancel'):
            # the application acts on an interaction whose request may still be waiting for a lease
            prog.append([rng.choice(['fut_cancel', 'cancel', 'request_n'])] + [rng.randrange(8)])
            if prog[-1][0] == 'cancel':
                prog[-1] += ['req']
            elif prog[-1][0] == 'request_n':
                prog[-1] += ['req', 2]
            if rng.random() < 0.5:
                prog.append(['pump'])
        else:
            prog.append(['pump'])
    if k.get('end_with_loss'):
        # the connection ends while requests may still be waiting for a lease: they are pending requests like any other (C11)
        opts['mode'] = 'tcp'
        opts['keepalive_ms'] = 100
        end = rng.choice(['eof', 'error', 'close_c', 'close_s'])
        if end in ('eof', 'error'):
            prog.append(['cut', rng.choice(['s', 'c']), end])
        else:
            prog.append(['close', end[-1]])
        prog.append(['settle'])
        prog.append(['advance', 210])
        prog.append(['settle'])
    prog.append(['finish'])
    return opts, prog


def gen_keepalive(rng, knobs=None):
    """a real client against a scripted server that acknowledges keep-alives always / never / until some time / with a delay,
    and sends respond-flagged keep-alives of its own; periods and lifetimes vary (incl. lifetime < period)"""
    k = dict(knobs or {})
    period = rng.choice([50, 100, 200, 500, 1000, 60000])
    life = rng.choice([period // 2 if period >= 100 else 60, period, 2 * period, 3 * period + 7, 600000])
    mode = rng.choice(['always', 'always', 'never', 'stop_at', 'stop_at', 'only_after'])
    horizon = rng.choice([3, 5, 8]) * max(period, min(life, 3000))
    horizon = min(horizon, 200000)
    pat = {'mode': mode, 'delay_ms': rng.choice([0, 0, 1, period // 2, max(0, life - 1), life + 1, 2 * life + 1]) if mode != 'never' else 0,
           'stop_ms': rng.randrange(1, max(2, horizon)), 'start_ms': rng.randrange(1, max(2, horizon))}
    if pat['delay_ms'] > 100000:
        pat['delay_ms'] = 0
    opts = {'mode': k.get('mode') or rng.choice(['tcp', 'msg']), 'peer': 'server', 'keepalive_ms': period, 'lifetime_ms': life, 'ka': pat}
    prog = [['start'], ['settle']]
    t = 0
    # the application may install its handler on the live connection (set_handler_using_factory): the notifications go to the handler
    # that is installed when they are due
    swap_at = rng.randrange(0, max(1, horizon)) if rng.random() < k.get('p_set_handler', 0.35) else None
    fault_at = rng.randrange(0, max(1, horizon // 2)) if rng.random() < k.get('p_write_fault', 0.3) else None
    while t < horizon:
        step = rng.choice([period // 3 + 1, period, period + 1, life // 2 + 1, life, 2 * life + 3])
        step = max(1, min(step, horizon - t, 50000))
        if swap_at is not None and t >= swap_at:
            prog.append(['set_handler', 'c'])
            swap_at = None
        if fault_at is not None and t >= fault_at:
            # the connection goes half-dead: the client's writes fail from now on, nothing arrives any more (no EOF, no reset): the silence
            # of the server must still be reported
            prog.append(['write_fault', 'c'])
            fault_at = None
        prog.append(['advance', step])
        t += step
        if rng.random() < 0.25:
            prog.append(['peer_keepalive', rng.choice([0, 1, 8, 64]), rng.random() < 0.8])
        if rng.random() < 0.1:
            prog.append(['snapshot', 'mid'])
    prog.append(['settle'])
    prog.append(['snapshot', 'final'])
    return opts, prog


def gen_keepalive2(rng, knobs=None):
    """both endpoints real: the real server must echo the real client's keep-alives (exactly once, same data, flag cleared)"""
    period = rng.choice([50, 100, 300])
    opts = {'mode': rng.choice(['tcp', 'msg']), 'keepalive_ms': period, 'lifetime_ms': rng.choice([period, 4 * period, 600000])}
    prog = [['start'], ['pump']]
    if rng.random() < 0.5:
        opts['frag'] = 64
    blocked = False
    for _ in range(rng.randint(3, 12)):
        prog.append(['advance', rng.choice([period // 2, period, period * 2 + 1])])
        prog.append(['pump'] if rng.random() < 0.8 else ['settle'])
        r = rng.random()
        if r < 0.2:
            prog.append(['rr', 'c', spec(rng, big=False), {'mode': 'immediate', 'resp': spec(rng, big=False)}])
        elif r < 0.35:
            # traffic and back-pressure: a (fragmented) upload while the client's transport does not accept writes for a while -
            # the keep-alive task has to keep queueing its frame every period whatever is still waiting to be written
            prog.append(['fnf', 'c', spec(rng, big=True)])
        elif r < 0.5 and not blocked:
            prog.append(['gate_close', 'c'])
            blocked = True
        elif r < 0.6 and blocked:
            prog.append(['gate_open', 'c'])
            blocked = False
        elif r < 0.8 and not blocked and opts.get('frag'):
            # a keep-alive tick / an echo is queued while a fragmented frame of the same endpoint is only partly written: every
            # KEEPALIVE must still go out exactly once
            ep = rng.choice(['c', 's'])
            prog.append(['gate_close', ep])
            if ep == 'c':
                prog.append(['fnf', 'c', rng.choice([[300, 0], [500, 100], [0, 400]])])
            else:
                prog.append(['rr', 'c', spec(rng, big=False), {'mode': 'immediate', 'resp': rng.choice([[300, 0], [500, 100], [0, 400]])}])
                prog.append(['pump'])
            prog.append(['settle'])
            prog.append(['gate', ep, rng.choice([1, 2, 3])])
            prog.append(['advance', period + 1])            # the client's tick; the server's echo of it
            prog.append(['pump'] if ep == 's' else ['settle'])
            for _ in range(rng.randint(1, 4)):
                prog.append(['gate', ep, 1])
                prog.append(['settle'])
            prog.append(['gate_open', ep])
            prog.append(['pump'])
    prog.append(['pump'])
    prog.append(['snapshot', 'final'])
    return opts, prog


_FLOAT_SENSITIVE_MS = [v for v in range(1, 200000) if (v / 1000.0) * 1000 != v]


def gen_setup_client(rng, knobs=None):
    """client configurations (periods incl. sub-second parts, MIME types, lease flag, setup payload) x transports/providers
    whose connect() does or does not suspend x requests issued while connecting"""
    ms = [1, 50, 250, 500, 999, 1000, 1500, 2500, 60000, 90500, 600000, 3600000, 86400000, 86401000, 172802500, 605400001, 2147483647]
    # ... and whole-millisecond periods whose value in seconds times 1000 is not an integer in binary floating point (1001, 2010, 65100, ...):
    # SETUP carries milliseconds, the configuration is a timedelta
    ms = ms + rng.sample(_FLOAT_SENSITIVE_MS, 6)
    opts = {'mode': rng.choice(['tcp', 'msg']), 'keepalive_ms': rng.choice(ms), 'lifetime_ms': rng.choice(ms),
            'connect_suspends': rng.choice([0, 0, 1, 2, 3]), 'provider_suspends': rng.choice([0, 0, 1, 2]),
            'frag': rng.choice([None, 64])}
    if rng.random() < 0.5:
        opts['setup_payload'] = spec(rng)
    if rng.random() < 0.4:
        # (names are stated as configured: registered names with upper-case letters and application-defined ones included)
        opts['data_mime'] = rng.choice(['text/plain', 'application/octet-stream', 'x/' + 'y' * rng.randint(1, 100), 'video/H264', 'video/VP8',
                                        'application/vnd.Acme.Order+json'])
    if rng.random() < 0.4:
        opts['md_mime'] = rng.choice(['message/x.rsocket.composite-metadata.v0', 'application/cbor', 'a/b', 'video/H265', 'X/Y'])
    if rng.random() < 0.3:
        opts['honor_lease_c'] = True
    if rng.random() < 0.3:
        opts['client_lease_publisher'] = True       # (independent of whether the client honours leases)
    opts['mime_as'] = rng.choice(['bytes', 'bytes', 'str', 'enum'])
    prog = [['start_noconnect']]
    # requests issued concurrently with connect(): before it, and after 0..3 loop iterations of it
    steps = []
    for _ in range(rng.randint(0, 3)):
        kind = rng.choice(['rr', 'fnf', 'push', 'stream'])
        sp = spec(rng, big=rng.random() < 0.3)
        if kind == 'rr':
            steps.append(['rr', 'c', sp, {'mode': 'immediate', 'resp': spec(rng, big=False)}])
        elif kind == 'fnf':
            steps.append(['fnf', 'c', sp])
        elif kind == 'push':
            steps.append(['push', 'c', 7])
        else:
            steps.append(['stream', 'c', sp, 2, {'src': 'generator', 'items': items(rng, 2, big=False)}, True])
    cut = rng.randint(0, len(steps))
    if (knobs or {}).get('p_early'):
        cut = 0         # (calls made before connect() was ever called are not requests of any connection)
    prog += steps[:cut]
    prog.append(['connect'])
    for n_st, st in enumerate(steps[cut:]):
        # (in the early close / reconnect families connect() has at least started to run before the first call is made)
        prog.append(['step', rng.choice([1, 1, 2]) if ((knobs or {}).get('p_early') and n_st == 0) else rng.choice([0, 1, 1, 2])])
        prog.append(st)
    k = dict(knobs or {})
    early = None
    if rng.random() < k.get('p_early', 0.0):
        # close() / reconnect() while the FIRST connect is still under way (provider / transport.connect() suspended, SETUP not sent yet)
        early = rng.choice(k.get('early', ['close', 'reconnect']))
        opts['mode'] = 'tcp'
        opts['keepalive_ms'] = 200          # (no keep-alive time-outs in these scenarios)
        opts['lifetime_ms'] = 600000
        prog.append(['step', rng.choice([0, 1, 2, 3, 4, 6])])
        prog.append(['close', 'c'] if early == 'close' else ['reconnect'])
    prog.append(['pump'])
    if early == 'close':
        prog.append(['advance', 300])
        prog.append(['pump'])
        prog.append(['snapshot', 'final'])
        return opts, prog
    if early == 'reconnect':
        prog.append(['probe', 'c', spec(rng, big=False), spec(rng, big=False)])
        prog.append(['pump'])
    if opts.get('honor_lease_c'):
        prog.append(['lease', 5, 10000])
        prog.append(['pump'])
    for _ in range(rng.choice([0, 0, 1, 1, 2])):
        # "... on every new connection": the SETUP of the connection made by a reconnect states the same configuration
        prog.append(['reconnect'] if rng.random() < 0.7 else ['reconnect', rng.choice([2, 5, 9])])
        prog.append(['pump'])
        if rng.random() < 0.5:
            prog.append(['rr', 'c', spec(rng, big=False), {'mode': 'immediate', 'resp': spec(rng, big=False)}])
            prog.append(['pump'])
    prog.append(['finish'])
    return opts, prog


def gen_setup_server(rng, knobs=None):
    """a scripted client sends SETUP variants / RESUME to a real server"""
    variant = rng.choice(['plain', 'plain', 'resume_flag', 'lease_no_publisher', 'lease_with_publisher', 'on_setup_raises', 'resume_frame',
                          'payload', 'mimes'])
    opts = {'mode': rng.choice(['tcp', 'msg']), 'peer': 'client'}
    if variant == 'lease_with_publisher':
        opts['server_lease_publisher'] = True
    if variant == 'on_setup_raises':
        opts['on_setup_raises'] = True
    prog = [['start'], ['peer_setup', variant, rng.randrange(10 ** 6)], ['settle']]
    if rng.random() < 0.5:
        prog.append(['peer_request', 1, rng.randrange(10 ** 6)])
        prog.append(['settle'])
    prog.append(['snapshot', 'final'])
    return opts, prog


def gen_reconnect(rng, knobs=None):
    """whatever ended the previous connection (server EOF, transport error, keep-alive timeout, explicit reconnect while healthy),
    with 0..3 interactions pending, 1..3 consecutive reconnects; afterwards a probe request must be served"""
    k = dict(knobs or {})
    period = rng.choice([100, 200])
    life = rng.choice([300, 1000, 100000])
    opts = {'mode': 'tcp', 'keepalive_ms': period, 'lifetime_ms': life, 'read_buffer': rng.choice([7, 1024]), 'frag': rng.choice([None, 64]),
            'provider_suspends': rng.choice([0, 0, 1, 3])}
    # who asks for the reconnect: the driver (application code), or the handler from inside on_close / on_keepalive_timeout
    who = k.get('who') or rng.choice(['app', 'app', 'on_close', 'on_close', 'on_timeout'])
    rounds = rng.randint(1, 3)
    if who == 'on_close':
        opts['reconnect_on_close'] = rounds
    elif who == 'on_timeout':
        opts['reconnect_on_timeout'] = rounds
    if rng.random() < k.get('p_close_raises', 0.15):
        opts['close_raises'] = True         # the old transport's close() raises (not an OSError): the reconnect must go on all the same
    if k.get('p_connect_fail') and rng.random() < k['p_connect_fail']:
        # the server is not reachable at the first (or the first two) attempt(s) to connect again; the application tries again from
        # on_connection_error (the retry idiom) - eventually a connection is made and requests are served
        opts['connect_fails'] = rng.choice([[2], [2], [2, 3], [3], [2, 4]])
        opts['reconnect_on_error'] = 4
        opts['connect_suspends'] = rng.choice([0, 0, 1, 2])
    prog = [['start'], ['pump']]
    nref = 0          # index the next request step will get
    stale = who == 'app' and rng.random() < k.get('p_stale_fragments', 0.25)
    if stale:
        opts['frag'] = 64
    for rnd_i in range(rounds):
        chans = []    # channels of the client (with an application publisher) opened on the connection that is about to end
        pend = []     # (ref, kind, initiator) of the interactions pending on it
        who_done = False
        if stale:
            # the FIRST request of this connection (it has the first stream id) is given up while its fragmented response is arriving;
            # the connection then ends in the middle of that response.  After the reconnect the first request gets the same id:
            # nothing of the old response may leak into its response (the reassembly state belongs to the connection)
            variant = rng.choice(k.get('stale_variants') or ['rr_cancelled', 'rr_cancelled', 'channel', 'server_request'])
            ref0 = nref
            nref += 1
            if variant == 'rr_cancelled':
                prog.append(['rr', 'c', spec(rng, big=False), {'mode': 'later'}])
                prog.append(['pump'])
                prog.append(['respond', ref0, [rng.choice([200, 333]), rng.choice([0, 10])]])
                prog.append(['settle'])
                prog.append(['deliver', 's', rng.choice([70, 140, 200])])
                prog.append(['fut_cancel', ref0])
                prog.append(['settle'])
                prog.append(['deliver', 's', rng.choice([67, 134])])
            elif variant == 'channel':
                # ... or it is a channel whose own sending side is still open: the connection ends between two fragments of an
                # inbound payload, the channel is failed - and nothing of it may be left in the reassembly state
                prog.append(['channel', 'c', spec(rng, big=False), 2, {'src': 'scripted', 'pub': True, 'sub': True}, True, {'src': 'scripted'}, True])
                prog.append(['pump'])
                prog.append(['emit', ref0, 'resp', rng.choice([200, 333]), rng.choice([0, 10]), 0])
                prog.append(['settle'])
                prog.append(['deliver', 's', rng.choice([70, 140])])
            else:
                # ... or a fragmented request of the server that is not complete (no stream registered for it yet)
                prog.append(['rr', 's', [rng.choice([200, 333]), rng.choice([0, 10])], {'mode': 'immediate', 'resp': spec(rng, big=False)}])
                prog.append(['settle'])
                prog.append(['deliver', 's', rng.choice([70, 140])])
            prog.append(['cut', 's', 'eof'])
            prog.append(['settle'])
            prog.append(['reconnect'])
            prog.append(['pump'])
            prog.append(['rr', 'c', spec(rng, big=False), {'mode': 'immediate', 'resp': [rng.choice([5, 100, 333]), 0]}])
            nref += 1
            prog.append(['pump'])
            if variant == 'server_request':
                # the new server's first request gets the id of the unfinished one
                prog.append(['rr', 's', [rng.choice([5, 100, 333]), 0], {'mode': 'immediate', 'resp': spec(rng, big=False)}])
                nref += 1
                prog.append(['pump'])
            prog.append(['advance', period + 10])
            prog.append(['pump'])
            continue
        for _ in range(rng.randint(k.get('min_pending', 0), 3)):
            kind = rng.choice(k.get('kinds') or ['rr', 'stream', 'channel', 'fnf'])
            ep = rng.choice(['c', 'c', 's'])
            sp = spec(rng, big=rng.random() < 0.3)
            if kind == 'channel' and ep == 'c':
                chans.append(nref)
            if kind in ('stream', 'rr', 'channel'):
                pend.append((nref, kind, ep))
            nref += 1
            if kind == 'rr':
                prog.append(['rr', ep, sp, {'mode': 'later'}])
            elif kind == 'fnf':
                prog.append(['fnf', ep, sp])
            elif kind == 'stream':
                prog.append(['stream', ep, sp, 2, {'src': 'scripted'}, rng.random() < 0.9])
            else:
                prog.append(['channel', ep, sp, 2, {'src': 'scripted', 'pub': True, 'sub': True}, True, {'src': 'scripted'}, True])
            if rng.random() < 0.6:
                prog.append(['pump'])
        causes = k.get('causes', ['server_eof', 'error', 'ka_timeout', 'healthy', 'healthy', 'server_close'])
        if who == 'on_close':
            causes = [c for c in causes if c in ('server_eof', 'error', 'server_close')]
        elif who == 'on_timeout':
            causes = ['ka_timeout']
            if life > 5000:
                life = 300
                opts['lifetime_ms'] = life
        cause = rng.choice(causes)
        if cause == 'server_eof':
            prog.append(['cut', 's', 'eof'])
            prog.append(['settle'])
        elif cause == 'error':
            prog.append(['cut', rng.choice(['c', 's']), 'error'])
            prog.append(['settle'])
        elif cause == 'server_close':
            prog.append(['close', 's'])
            prog.append(['settle'])
        elif cause == 'ka_timeout':
            # the link goes silent: nothing is delivered any more until the client notices
            prog.append(['silence'])
            prog.append(['advance', 2 * life + period + 5 if life < 5000 else 50])
            prog.append(['settle'])
        if who == 'app' and cause == 'healthy' and pend and rng.random() < k.get('p_teardown_race', 0.5):
            # the peer's terminal frame of a pending interaction is in the client's read buffer when the reconnect starts: it is
            # handled while the old connection is being torn down (terminal signal, then nothing more - no connection error on top)
            ref, kind, ep = rng.choice(pend)
            prog.append(['pump'])
            if kind == 'rr':
                prog.append(['respond', ref, spec(rng, big=False)] if rng.random() < 0.8 else ['respond_error', ref])
            else:
                role = 'resp'
                t = rng.random()
                spx = spec(rng, big=False)
                prog.append(['emit', ref, role, spx[0], spx[1], 1] if t < 0.4 else (['complete', ref, role] if t < 0.8 else ['error', ref, role]))
            prog.append(['settle'])
            if rng.random() < 0.5:
                prog.append(['deliver_nosettle', 's' if ep == 'c' else 'c', None])
            else:
                # ... or it arrives a few loop callbacks into the tear-down
                prog.append(['reconnect', rng.choice([1, 2, 3, 4, 5, 6, 8])])
                prog.append(['deliver_nosettle', 's' if ep == 'c' else 'c', None])
                prog.append(['settle'])
                who_done = True
        if who == 'app' and not who_done and k.get('p_close_race') and rng.random() < k['p_close_race']:
            # the application closes the client while a reconnect it asked for is under way (after j loop callbacks of it): the
            # client must end up closed - no further transport taken, nothing sent any more, keep-alives included
            prog.append(['reconnect', rng.choice([0, 1, 2, 3, 4, 5, 6, 7, 8, 9, 10, 11, 12, 14, 20])])
            prog.append(['close', 'c'])
            prog.append(['settle'])
            prog.append(['advance', 2 * period + 10])
            prog.append(['pump'])
            prog.append(['advance', period + 1])
            prog.append(['finish'])
            return opts, prog
        if who == 'app' and not who_done:
            if rng.random() < k.get('p_window', 0.45):
                # the application keeps issuing requests while the reconnect is under way: after k loop callbacks of it
                prog.append(['reconnect', rng.choice([0, 1, 2, 3, 5, 7, 8, 9, 10, 11, 12, 13, 14, 16, 20])])
                if rng.random() < k.get('p_fnf_then_request', 0.35):
                    # a fire-and-forget that can no longer leave on the old connection, then - a few callbacks later, possibly on
                    # the new connection already - a request that gets the same stream id
                    prog.append(['fnf', 'c', spec(rng, big=False)])
                    nref += 1
                    prog.append(['step', rng.choice([0, 1, 2, 3, 4, 6])])
                    prog.append(['rr', 'c', spec(rng, big=False), {'mode': 'immediate', 'resp': spec(rng, big=False)}])
                    nref += 1
                    prog.append(['step', rng.choice([1, 2, 3])])
                for _ in range(rng.randint(1, 2)):
                    kind = rng.choice(['rr', 'rr', 'stream', 'fnf'])
                    sp = spec(rng, big=False)
                    nref += 1
                    if kind == 'rr':
                        prog.append(['rr', 'c', sp, {'mode': 'immediate', 'resp': spec(rng, big=False)}])
                    elif kind == 'fnf':
                        prog.append(['fnf', 'c', sp])
                    else:
                        prog.append(['stream', 'c', sp, 3, {'src': 'generator', 'items': items(rng, 2, big=False), 'complete_on_last': True}, True])
                    if rng.random() < 0.5:
                        prog.append(['step', rng.choice([1, 2, 3])])
            else:
                prog.append(['reconnect'])
                if rng.random() < 0.3:
                    prog.append(['reconnect'])
        prog.append(['pump'])
        if chans and rng.random() < 0.6:
            # a request on the new connection (it gets the first stream id again), and the application publisher of a channel
            # that was pending on the old one signals: nothing of the old channel may reach the new connection
            prog.append(['rr', 'c', spec(rng, big=False), {'mode': 'later'}])
            ref = rng.choice(chans)
            spx = spec(rng, big=False)
            prog.append(rng.choice([['complete', ref, 'req'], ['emit', ref, 'req', spx[0], spx[1], 0], ['emit', ref, 'req', spx[0], spx[1], 1]]))
            prog.append(['pump'])
            nref += 1
        old = [r for (r, kind, ep) in pend if ep == 'c' and kind in ('stream', 'rr')]
        if old and k.get('p_late_tidy') and rng.random() < k['p_late_tidy']:
            # the application first re-subscribes on the new connection (the request gets the first stream id again), and only then
            # releases what it held of the old connection: cancel() / request() on a subscription that was failed by the reconnect,
            # cancel() of the failed future - legal, and none of the new stream's business
            opts['late_actions'] = True
            newref = nref
            nref += 1
            prog.append(['stream', 'c', spec(rng, big=False), 5, {'src': 'scripted'}, True])
            prog.append(['pump'])
            for r in old[:2]:
                t = rng.random()
                prog.append(['cancel', r, 'req'] if t < 0.6 else (['request_n', r, 'req', 2] if t < 0.8 else ['fut_cancel', r]))
            prog.append(['pump'])
            spx = spec(rng, big=False)
            prog.append(['emit', newref, 'resp', spx[0], spx[1], 0])
            prog.append(['pump'])
            prog.append(['complete', newref, 'resp'])
            prog.append(['pump'])
        prog.append(['advance', period + 10])
        prog.append(['pump'])
    prog.append(['probe', 'c', spec(rng, big=False), spec(rng, big=False)])
    prog.append(['pump'])
    prog.append(['advance', period + 1])
    prog.append(['finish'])
    return opts, prog


def gen_adapters(rng, knobs=None):
    """the scenarios of C01/C06/C07/C09 driven through the Rx (v3) / ReactiveX (v4) client and handler adapters: element counts 0, 1,
    many; request limits 1..max; error positions; disposal moments; plain observables and back-pressure factories; both versions"""
    k = dict(knobs or {})
    version = k.get('version') or rng.choice(['reactivex', 'rx'])
    opts = {'mode': k.get('mode') or rng.choice(['tcp', 'tcp', 'msg']), 'frag': rng.choice([None, None, 64]), 'adapters': version,
            'read_buffer': rng.choice([1, 7, 1024])}
    prog = [['start'], ['pump']]

    def obs_policy(allow_error=True):
        n = rng.choice([0, 1, 2, 3, 5, 8])
        pol = {'src': rng.choice(['observable', 'observable', 'factory']), 'items': items(rng, n, big=rng.random() < 0.3)}
        if allow_error and rng.random() < 0.2:
            pol['error_at'] = rng.randint(0, n)
        return pol

    n_inter = rng.randint(k.get('min_inter', 1), k.get('max_inter', 3))
    kinds = []
    later = []
    for _ in range(n_inter):
        kind = rng.choice(k.get('kinds') or ['rr', 'stream', 'stream', 'channel', 'channel', 'fnf', 'push'])
        kinds.append(kind)
        sp = spec(rng, big=rng.random() < 0.3)
        limit = rng.choice([1, 1, 2, 3, 5, None])
        if kind == 'rr':
            mode = rng.choice(k.get('rr_modes') or ['immediate', 'immediate', 'empty', 'empty', 'error', 'later', 'later'])
            if mode == 'later':
                later.append(len(kinds) - 1)        # answered asynchronously - possibly after later requests arrived (overlap)
            prog.append(['rr', 'c', sp, {'mode': mode, 'resp': spec(rng, big=False),
                                        'as_future': rng.random() < 0.5}])       # (the delegate hands its observable over inside a future)
        elif kind == 'fnf':
            prog.append(['fnf', 'c', sp])
        elif kind == 'push':
            prog.append(['push', 'c', 9])
        elif kind == 'stream':
            prog.append(['stream', 'c', sp, limit, obs_policy(), True])
        else:
            pol = obs_policy()
            pol['pub'] = rng.random() < 0.85
            pol['sub'] = rng.random() < 0.9
            pol['limit'] = rng.choice([1, 2, 3, 2147483647])
            has_pub = rng.random() < 0.8
            prog.append(['channel', 'c', sp, limit, pol, has_pub, obs_policy() if has_pub else None, True])
        for _ in range(rng.randint(0, 4)):
            r = rng.random()
            if r < 0.5:
                prog.append(['pump'] if rng.random() < 0.7 else ['pump', rng.choice([1, 5, 30])])
            elif r < 0.8:
                prog.append(['deliver', rng.choice(['c', 's']), rng.choice([1, 9, 40, None]) if opts['mode'] == 'tcp' else rng.choice([1, 2, None])])
            elif r < 0.9 and kinds and kinds[-1] in ('stream', 'channel', 'rr'):
                prog.append(['dispose', len(kinds) - 1])
            else:
                prog.append(['advance', rng.choice([1, 5])])
    if later:
        prog.append(['pump'])
        rng.shuffle(later)
        for ref in later:
            prog.append(['respond', ref, spec(rng, big=False)] if rng.random() < 0.8 else ['respond_error', ref])
            if rng.random() < 0.5:
                prog.append(['pump'])
    for _ in range(rng.randint(0, 3)):
        if rng.random() < k.get('p_dispose', 0.25):
            prog.append(['dispose', rng.randrange(len(kinds))])
        prog.append(['pump'])
    prog.append(['finish'])
    return opts, prog


def gen_tlc2(rng, knobs=None):
    """schedules proposed by the two-interaction design model RSocketMC2.tla (two interactions side by side, shared sender and link):
    actions AOpen / BDeliver / Send / ... are projected onto driver primitives like gen_tlc does for one interaction; the first
    interaction opened gets ref 0, the second ref 1.  knobs: file = JSON list of {A: {kind, init, lib}, B: {...}, actions: [...]}"""
    import json
    k = dict(knobs or {})
    with open(k['file']) as f:
        behaviours = json.load(f)
    if k.get('sequential'):
        b = behaviours[(k.get('_i', 0) - k.get('base', 0)) % len(behaviours)]
    else:
        b = behaviours[rng.randrange(len(behaviours))]
    opts = {'mode': rng.choice(['tcp', 'tcp', 'msg']), 'frag': None, 'read_buffer': rng.choice([1, 7, 1024])}
    fragmented = bool(b.get('frag'))
    if fragmented:
        opts['frag'] = 64

    def elem():
        return rng.choice([[80, 0], [100, 0], [60, 30], [0, 90]]) if fragmented else spec(rng, big=False)

    prog = [['start'], ['pump'], ['gate_close', 'c'], ['gate_close', 's']]
    p_settle = rng.choice([1.0, 0.7, 0.4])
    ref = {}

    def maybe_settle():
        return rng.random() < p_settle

    for act in b['actions']:
        name, args = act[0], act[1:]
        if name in ('Send', 'SendOf'):
            prog.append(['gate', args[0], 1])
            continue
        if name in ('Quiesce2',):
            continue
        X, base = name[0], name[1:]
        if X not in ('A', 'B'):
            continue
        d = b[X]
        kind, R = d['kind'], d['init']
        if base == 'Open':
            ref[X] = len(ref)
            sp = rng.choice([[5, 0], [20, 10], [1, 0]]) if fragmented else spec(rng, big=False)
            if kind == 'rr':
                prog.append(['rr', R, sp, {'mode': 'later'}])
            elif kind == 'channel':
                # (as in gen_tlc: the responder side has a publisher and a subscriber; the requester side has a publisher iff HasPub)
                haspub = bool(b.get('haspub'))
                prog.append(['channel', R, sp, args[0], {'src': 'scripted', 'pub': True, 'sub': True}, haspub, {'src': 'scripted'} if haspub else None, True])
            else:
                pol = {'src': 'generator', 'items': [elem()], 'complete_on_last': True} if d.get('lib') else {'src': 'scripted'}
                prog.append(['stream', R, sp, args[0], pol, True])
            continue
        if X not in ref:
            continue
        r = ref[X]
        if base == 'Deliver':
            prog.append(['deliver_frame', 's' if args[0] == 'c' else 'c', maybe_settle()])
        elif base == 'Respond':
            prog.append(['respond_error', r] if args[0] else ['respond', r, elem()])
            if maybe_settle():
                prog.append(['settle'])
        elif base == 'PubNext':
            if not d.get('lib'):
                sp = elem()
                prog.append(['emit', r, args[0], sp[0], sp[1], 1 if args[1] else 0])
            else:
                prog.append(['settle'])
        elif base == 'PubComplete':
            prog.append(['complete', r, args[0]])
        elif base == 'PubError':
            prog.append(['error', r, args[0]])
        elif base == 'SubCancel':
            prog.append(['cancel', r, args[0]])
        elif base == 'SubRequestN':
            prog.append(['request_n', r, args[0], args[1]])
        elif base == 'FutCancel':
            prog.append(['fut_cancel', r, False])
        elif base == 'FutCancelCallback':
            prog.append(['settle'])
    prog.append(['finish'])
    return opts, prog


def gen_idwrap(rng, knobs=None):
    """the id space is reduced to 0..7 or 0..15 (the way the library's own suite does), so that within one connection ids wrap
    around and are used again: many short interactions of either endpoint, a few long-lived streams that must be skipped,
    fragmented frames left partially delivered on ids that are then finished and reused"""
    k = dict(knobs or {})
    mx = rng.choice([7, 7, 15])
    opts = {'mode': k.get('mode') or rng.choice(['tcp', 'tcp', 'msg']), 'frag': rng.choice([None, 64, 64]), 'read_buffer': rng.choice([1, 7, 1024]),
            'max_stream_id': mx}
    prog = [['start'], ['pump']]
    refs = 0
    live = []      # (ref, kind, role-scripted)
    over = []      # refs of request-streams / request-responses that have probably ended (their id may since belong to another stream)
    if k.get('late_actions'):
        opts['late_actions'] = True
    for _ in range(rng.randint(6, 18)):
        ep = rng.choice(['c', 'c', 's'])
        r = rng.random()
        sp = spec(rng, big=rng.random() < 0.3)
        if over and k.get('late_actions') and rng.random() < 0.35:
            # a subscriber / caller tidies up an interaction that ended long ago (cancel / request on the old subscription, cancel of the
            # old future): legal, and a no-op - whatever stream has the id by now is none of its business
            ref = rng.choice(over)
            t = rng.random()
            prog.append(['cancel', ref, 'req'] if t < 0.6 else (['request_n', ref, 'req', rng.choice([1, 3])] if t < 0.8 else ['fut_cancel', ref]))
            prog.append(['pump'])
        if r < 0.35:
            prog.append(['rr', ep, sp, {'mode': 'immediate', 'resp': spec(rng, big=rng.random() < 0.3)}])
            over.append(refs)
            refs += 1
        elif r < 0.5:
            prog.append(['fnf', ep, sp])
            refs += 1
        elif r < 0.75:
            n = rng.choice([1, 2, 3])
            prog.append(['stream', ep, sp, rng.choice([5, None]), {'src': 'generator', 'items': items(rng, n), 'complete_on_last': True}, True])
            over.append(refs)
            refs += 1
        elif r < 0.9:
            prog.append(['stream', ep, sp, rng.choice([1, 2, 5]), {'src': 'scripted'}, True])
            live.append(refs)
            refs += 1
        else:
            prog.append(['rr', ep, sp, {'mode': 'later'}])
            live.append(refs)
            refs += 1
        x = rng.random()
        if x < 0.7:
            prog.append(['pump'])
        elif x < 0.85:
            prog.append(['deliver', rng.choice(['c', 's']), rng.choice([7, 30, 70, None])])
        if live and rng.random() < 0.3:
            ref = live.pop(rng.randrange(len(live)))
            t = rng.random()
            if t < 0.4:
                # a fragmented element is partially delivered when the requester cancels
                spx = spec(rng, big=True)
                prog.append(['emit', ref, 'resp', spx[0], spx[1], 0])
                prog.append(['deliver', rng.choice(['c', 's']), rng.choice([7, 30, 70])])
                prog.append(['cancel', ref, 'req'])
            elif t < 0.7:
                prog.append(['complete', ref, 'resp'])
            else:
                prog.append(['fut_cancel', ref])
            # an id may only be used again once nothing of its previous stream is in flight any more (with 2^30 ids per
            # endpoint the protocol relies on that; in the reduced id space the scenario has to make sure of it)
            prog.append(['pump'])
    prog.append(['finish'])
    return opts, prog


def gen_adapters_client(rng, knobs=None):
    """the mirror image of adapters_mixed: an Rx / ReactiveX CLIENT (channels fed by observables and back-pressure factories) against a
    handler written with the core API, whose subscriber decides when credit flows - it may cancel before it ever requested anything, request
    late, or in bursts - and whose scripted publisher ends the other direction at any point"""
    k = dict(knobs or {})
    version = k.get('version') or rng.choice(['reactivex', 'reactivex', 'rx'])
    opts = {'mode': k.get('mode') or rng.choice(['tcp', 'tcp', 'msg']), 'frag': rng.choice([None, None, 64]), 'adapters': version,
            'core_server': True, 'read_buffer': rng.choice([1, 7, 1024])}
    prog = [['start'], ['pump']]
    n_inter = rng.randint(1, 2)
    for ref in range(n_inter):
        sp = spec(rng, big=False)
        n = rng.choice([0, 1, 2, 3, 5])
        ppol = {'src': rng.choice(['factory', 'factory', 'observable']), 'items': items(rng, n, big=rng.random() < 0.2)}
        pol = {'src': 'scripted', 'pub': True, 'sub': True}
        first = rng.choice(['cancel', 'cancel', 'request', 'nothing', 'nothing'])
        if first == 'cancel' and rng.random() < 0.5:
            pol['resp_in_subscribe'] = ['cancel']           # the responder's subscriber gives up before it ever asked for anything
        elif first == 'request' and rng.random() < 0.5:
            pol['resp_in_subscribe'] = ['request', rng.choice([1, 3])]
        prog.append(['channel', 'c', sp, rng.choice([1, 2, 5, None]), pol, True, ppol, True])
        prog.append(['pump'])
        if first == 'cancel' and 'resp_in_subscribe' not in pol:
            prog.append(['cancel', ref, 'resp'])
            prog.append(['pump'])
        elif first == 'request' and 'resp_in_subscribe' not in pol:
            prog.append(['request_n', ref, 'resp', rng.choice([1, 2, 2147483647])])
            prog.append(['pump'])
        for _ in range(rng.randint(1, 5)):
            r = rng.random()
            if r < 0.3:
                spx = spec(rng, big=False)
                prog.append(['emit', ref, 'resp', spx[0], spx[1], 1 if rng.random() < 0.3 else 0])
            elif r < 0.5:
                prog.append(['request_n', ref, 'resp', rng.choice([1, 1, 3, 2147483647])])
            elif r < 0.62:
                prog.append(['cancel', ref, 'resp'])
            elif r < 0.75:
                prog.append([rng.choice(['complete', 'complete', 'error']), ref, 'resp'])
            elif r < 0.82:
                prog.append(['dispose', ref])
            prog.append(['pump'] if rng.random() < 0.8 else ['deliver', rng.choice(['c', 's']), rng.choice([1, 9, 40, None]) if opts['mode'] == 'tcp' else rng.choice([1, None])])
        # both directions are brought to an end: whatever happened on the way, nothing of the channel may be left afterwards
        prog.append(['complete', ref, 'resp'])
        prog.append(['pump'])
        prog.append(['request_n', ref, 'resp', 2147483647])
        prog.append(['pump'])
    prog.append(['finish'])
    return opts, prog


def gen_adapters_mixed(rng, knobs=None):
    """a core-API requester (recorded subscriber, explicit request(n) calls - several grants may pile up before the responder
    runs, or arrive while a batch is being produced) against a handler written with the Rx / ReactiveX adapter: plain observables
    and back-pressure factories as the responder's source, in streams and in both directions of channels"""
    k = dict(knobs or {})
    version = k.get('version') or rng.choice(['reactivex', 'rx'])
    opts = {'mode': k.get('mode') or rng.choice(['tcp', 'tcp', 'msg']), 'frag': rng.choice([None, None, 64]), 'adapters': version,
            'core_client': True, 'read_buffer': rng.choice([1, 7, 1024])}
    prog = [['start'], ['pump']]
    n_inter = rng.randint(1, 2)
    kinds = []
    for _ in range(n_inter):
        kind = rng.choice(['stream', 'stream', 'channel'])
        kinds.append(kind)
        sp = spec(rng, big=False)
        n = rng.choice([2, 3, 5, 8, 12, 20])
        pol = {'src': rng.choice(['observable', 'observable', 'factory']), 'items': items(rng, n, big=rng.random() < 0.2)}
        if rng.random() < 0.1:
            pol['error_at'] = rng.randint(0, n)
        n0 = rng.choice([1, 2, 4, 5])
        if kind == 'stream':
            prog.append(['stream', 'c', sp, n0, pol, True])
        else:
            pol['pub'] = True
            pol['sub'] = rng.random() < 0.9
            pol['limit'] = rng.choice([1, 2, 3, 2147483647])
            has_pub = rng.random() < 0.7
            ppol = src_policy(rng, ['generator', 'async_generator', 'scripted']) if has_pub else None
            prog.append(['channel', 'c', sp, n0, pol, has_pub, ppol, True])
        ref = len(kinds) - 1
        for _ in range(rng.randint(1, 6)):
            r = rng.random()
            if r < 0.45:
                # a burst of grants without letting the loop run in between
                for _ in range(rng.choice([1, 2, 2, 3, 4])):
                    prog.append(['request_n', ref, 'req', rng.choice([1, 1, 2, 3, 5, 9, 2147483647])])
                prog.append(['pump'] if rng.random() < 0.8 else ['settle'])
            elif r < 0.7:
                prog.append(['pump'] if rng.random() < 0.6 else ['pump', rng.choice([1, 3, 11])])
            elif r < 0.85:
                prog.append(['deliver', rng.choice(['c', 's']), rng.choice([1, 9, 40, None]) if opts['mode'] == 'tcp' else rng.choice([1, 2, None])])
            elif r < 0.92:
                prog.append(['advance', rng.choice([1, 5])])
            else:
                prog.append(['cancel', ref, 'req'])
    prog.append(['finish'])
    return opts, prog


def gen_adapters_cut(rng, knobs=None):
    """interactions driven through the Rx (v3) / ReactiveX (v4) client and handler adapters, with the connection lost in the middle:
    every observable / awaitable the application holds must be failed (not left hanging), producers cancelled, on_close once"""
    opts, prog = gen_adapters(rng, knobs)
    opts = dict(opts, mode='tcp', keepalive_ms=100, lifetime_ms=100000)
    body = [st for st in prog if st[0] != 'finish']
    k = rng.randrange(3, max(4, len(body)))
    how = rng.choice(['eof', 'eof', 'error', 'close'])
    src = rng.choice(['c', 's'])
    tail = [['deliver_nosettle', 'c', rng.choice([1, 7, 30, None])], ['deliver_nosettle', 's', rng.choice([1, 7, 30, None])]]
    if rng.random() < 0.4:
        tail.append(['settle'])
    tail.append(['cut', src, how] if how != 'close' else ['close', src])
    return opts, body[:k] + tail + [['settle'], ['advance', 450], ['settle'], ['snapshot', 'final']]


def gen_tlc(rng, knobs=None):
    """schedules proposed by the specification: behaviours of the design model RSocketMC.tla produced by `tlc -simulate` are
    projected onto driver primitives (knobs: file = JSON list of {kind, init, haspub, lib, actions:[[name, args...]...]}).
    The sender gate is closed, so SenderStep is the driver letting exactly one frame through and Deliver feeds exactly one
    frame; whether the loop runs between two primitives is varied, which adds the callback-order races of the real loop."""
    import json
    k = dict(knobs or {})
    with open(k['file']) as f:
        behaviours = json.load(f)
    if k.get('sequential'):
        b = behaviours[(k.get('_i', 0) - k.get('base', 0)) % len(behaviours)]      # every behaviour of the file, in turn
    else:
        b = behaviours[rng.randrange(len(behaviours))]
    kind, R = b['kind'], b['init']
    P = 's' if R == 'c' else 'c'
    opts = {'mode': rng.choice(['tcp', 'tcp', 'msg']), 'frag': None, 'read_buffer': rng.choice([1, 7, 1024])}
    fragmented = bool(b.get('frag'))
    if fragmented:
        opts['frag'] = 64

    def elem():
        # (with fragmentation an element / a response is exactly two fragments long at size 64, as in the model)
        return rng.choice([[80, 0], [100, 0], [60, 30], [0, 90]]) if fragmented else spec(rng, big=False)

    prog = [['start'], ['pump'], ['gate_close', 'c'], ['gate_close', 's']]
    ep_of = {'req': R, 'resp': P}
    p_settle = rng.choice([1.0, 0.7, 0.4])

    def maybe_settle():
        return rng.random() < p_settle

    lib_items = b.get('max_elems', 2)
    actions = [list(a) for a in b['actions']]
    # The model's Deliver is atomic (frame taken from the link and handled).  In the real loop the bytes are fed first and the
    # receiver task handles them when it is scheduled.  The model order  FutCancel ... Deliver(requester) ... FutCancelCallback
    # (a response is handled while the cancelled future's done-callback is still pending) is therefore realised by feeding the
    # response BEFORE future.cancel() is called and only then running the loop: receiver first, done-callback second.
    i = 0
    reordered = []
    while i < len(actions):
        a = actions[i]
        if a[0] == 'FutCancel':
            j = next((k for k in range(i + 1, len(actions)) if actions[k][0] == 'FutCancelCallback'), None)
            if j is not None:
                mid = actions[i + 1:j]
                hit = next((k for k, x in enumerate(mid) if x[0] == 'Deliver' and x[1] == R), None)
                if hit is not None and rng.random() < 0.7:
                    reordered += mid[:hit] + [['FeedNoSettle', R], ['FutCancel'], ['FutCancelCallback']] + mid[hit + 1:]
                    i = j + 1
                    continue
        reordered.append(a)
        i += 1
    for act in reordered:
        name, args = act[0], act[1:]
        if name == 'FeedNoSettle':
            prog.append(['deliver_frame', 's' if args[0] == 'c' else 'c', False])
            continue
        if name == 'AppOpen':
            n0 = args[0]
            sp = rng.choice([[5, 0], [20, 10], [1, 0]]) if fragmented else spec(rng, big=False)      # (a request always fits one frame, as in the model)
            want_witness = k.get('witness', True) and rng.random() < 0.4
            if kind == 'rr':
                prog.append(['rr', R, sp, {'mode': 'later'}])
            elif kind == 'stream':
                pol = {'src': 'generator', 'items': [elem() for _ in range(lib_items)], 'complete_on_last': True} if b.get('lib') else {'src': 'scripted'}
                prog.append(['stream', R, sp, n0, pol, True])
            else:
                src = {'src': 'generator', 'items': [elem() for _ in range(lib_items)], 'complete_on_last': True} if b.get('lib') else {'src': 'scripted'}
                pol = dict(src, pub=True, sub=True)
                prog.append(['channel', R, sp, n0, pol, bool(b.get('haspub')), dict(src) if b.get('haspub') else None, True])
            if want_witness:
                # a second, independent interaction shares the connection (its frames share the queues and the link with the
                # interaction the specification's schedule drives): it must be served completely whatever happens to the first
                wk = rng.choice(['stream', 'stream', 'rr'])
                wep = rng.choice(['c', 's'])
                if wk == 'rr':
                    prog.append(['rr', wep, spec(rng, big=False), {'mode': 'immediate', 'resp': spec(rng, big=False)}])
                else:
                    prog.append(['stream', wep, spec(rng, big=False), rng.choice([1, 2, None]),
                                 {'src': rng.choice(['generator', 'async_generator']), 'items': items(rng, rng.choice([1, 2, 3]), big=False),
                                  'complete_on_last': True, 'auto_request': 1}, True])
        elif name == 'SenderStep':
            prog.append(['gate', args[0], 1])
        elif name == 'Deliver':
            src = 's' if args[0] == 'c' else 'c'
            prog.append(['deliver_frame', src, maybe_settle()])
        elif name == 'Respond':
            prog.append(['respond_error', 0] if args[0] else ['respond', 0, elem()])
            if maybe_settle():
                prog.append(['settle'])
        elif name == 'PubNext':
            if not b.get('lib'):
                sp = elem()
                prog.append(['emit', 0, args[0], sp[0], sp[1], 1 if args[1] else 0])
            else:
                prog.append(['settle'])
        elif name == 'PubComplete':
            prog.append(['complete', 0, args[0]])
        elif name == 'PubError':
            prog.append(['error', 0, args[0]])
        elif name == 'SubCancel':
            prog.append(['cancel', 0, args[0]])
        elif name == 'SubRequestN':
            prog.append(['request_n', 0, args[0], args[1]])
        elif name == 'FutCancel':
            prog.append(['fut_cancel', 0, False])
        elif name == 'FutCancelCallback':
            prog.append(['settle'])
        elif name == 'Quiesce':
            pass
    prog.append(['finish'])
    return opts, prog


def gen_close_cb(rng, knobs=None):
    """the application gives the connection up from INSIDE a notification: close() called from on_keepalive_timeout (the server went
    silent) or from on_close (the connection was lost), with 0..3 interactions pending in either role; whatever the callback, the
    client must end up closed: pending requests failed, on_close once, transport closed, nothing sent any more, close() returned"""
    k = dict(knobs or {})
    period = rng.choice([50, 100, 200])
    cause = rng.choice(k.get('causes') or ['timeout', 'timeout', 'eof', 'error'])
    life = rng.choice([period, 3 * period]) if cause == 'timeout' else 100000
    opts = {'mode': 'tcp', 'keepalive_ms': period, 'lifetime_ms': life, 'read_buffer': rng.choice([7, 1024]),
            'frag': rng.choice([None, 64])}
    opts['close_on_timeout' if cause == 'timeout' else 'close_on_close'] = True
    prog = [['start'], ['pump']]
    for _ in range(rng.randint(0, 3)):
        kind = rng.choice(['rr', 'stream', 'channel', 'fnf'])
        ep = rng.choice(['c', 'c', 's'])
        sp = spec(rng, big=rng.random() < 0.3)
        if kind == 'rr':
            prog.append(['rr', ep, sp, {'mode': 'later'}])
        elif kind == 'fnf':
            prog.append(['fnf', ep, sp])
        elif kind == 'stream':
            prog.append(['stream', ep, sp, 2, {'src': rng.choice(['scripted', 'generator']), 'items': items(rng, 5, big=False)}, True])
        else:
            prog.append(['channel', ep, sp, 2, {'src': 'scripted', 'pub': True, 'sub': True}, True, {'src': 'scripted'}, True])
        if rng.random() < 0.7:
            prog.append(['pump'])
    if cause == 'timeout':
        prog.append(['silence'])
        prog.append(['advance', 2 * life + period + 5])
        prog.append(['settle'])
    else:
        prog.append(['cut', rng.choice(['s', 's', 'c']), cause])
        prog.append(['settle'])
    prog.append(['advance', 2 * period + 10])
    prog.append(['settle'])
    prog.append(['advance', period + 1])
    prog.append(['finish'])
    return opts, prog
