"""Driving interactions through the Rx (v3, rsocket.rx_support) and ReactiveX (v4, rsocket.reactivex) adapters.

The same World, the same event vocabulary: observer callbacks of result observables and of channel observers are recorded as
cb_subscribe / cb_next / cb_complete / cb_error, disposal as app_cancel, the delegate handler's methods as cb_request / cb_setup,
elements an application observable hands to the adapter as app_pub_next, what a back-pressure factory's feedback subject is asked as
cb_pub_request.  So the very same monitors (C01 C06 C07 C08 C09) judge the adapter runs - that is the equivalence C20 asks for."""
import asyncio


def libs(version):
    if version == 'reactivex':
        import reactivex as rxm
        from reactivex import operators as ops
        from reactivex.subject import Subject
        from rsocket.reactivex.reactivex_client import ReactiveXClient as Client
        from rsocket.reactivex.reactivex_handler_adapter import reactivex_handler_factory as handler_factory
        from rsocket.reactivex.reactivex_handler import BaseReactivexHandler as BaseHandler
        from rsocket.reactivex.reactivex_channel import ReactivexChannel as Channel
        from rsocket.reactivex.back_pressure_publisher import from_observable_with_backpressure, observable_from_async_generator
    else:
        import rx as rxm
        from rx import operators as ops
        from rx.subject import Subject
        from rsocket.rx_support.rx_rsocket import RxRSocket as Client
        from rsocket.rx_support.rx_handler_adapter import rx_handler_factory as handler_factory
        from rsocket.rx_support.rx_handler import BaseRxHandler as BaseHandler
        from rsocket.rx_support.rx_channel import RxChannel as Channel
        from rsocket.rx_support.back_pressure_publisher import from_observable_with_backpressure, observable_from_async_generator
    return dict(rx=rxm, ops=ops, Subject=Subject, Client=Client, handler_factory=handler_factory, BaseHandler=BaseHandler, Channel=Channel,
                with_backpressure=from_observable_with_backpressure, from_agen=observable_from_async_generator, version=version)


class RecObserver:
    """application observer: records signals (duck-typed for both Rx versions)"""

    def __init__(self, w, ep, iid, role, kind='stream'):
        self.w, self.ep, self.iid, self.role, self.kind = w, ep, iid, role, kind
        self.terminated = False
        self.cancelled = False
        self.got_value = False

    def on_next(self, value):
        pid = self.w.payloads.resolve(value.data, value.metadata)
        self.got_value = True
        if self.kind == 'rr':
            self.w.rec.log(self.ep, 'cb_future', iid=self.iid, pid=pid, kind='result', dl=len(value.data or b''), ml=len(value.metadata or b''))
        else:
            self.w.rec.log(self.ep, 'cb_next', iid=self.iid, pid=pid, role=self.role, dl=len(value.data or b''), ml=len(value.metadata or b''))

    def on_error(self, error):
        from .world import _err_code
        self.terminated = True
        if self.kind == 'rr':
            self.w.rec.log(self.ep, 'cb_future', iid=self.iid, code=_err_code(error), kind='error')
        else:
            self.w.rec.log(self.ep, 'cb_error', iid=self.iid, code=_err_code(error), role=self.role)

    def on_completed(self):
        self.terminated = True
        if self.kind == 'rr':
            if not self.got_value:
                self.w.rec.log(self.ep, 'cb_future', iid=self.iid, pid=0, kind='result')
        else:
            self.w.rec.log(self.ep, 'cb_complete', iid=self.iid, role=self.role)


def make_observable(w, L, ep, iid, role, pol):
    """the observable (or back-pressure factory) an application hands to the adapter, per policy:
       {'src': 'observable'|'factory', 'items': [[dl,ml],...], 'error_at': k|None}"""
    rx, ops = L['rx'], L['ops']
    specs = list(pol.get('items', []))
    error_at = pol.get('error_at')
    src = pol.get('src', 'observable')

    def mk(k):
        pid, p = w.payloads.make(*specs[k])
        w.rec.log(ep, 'app_pub_next', iid=iid, pid=pid, role=role, dl=specs[k][0], ml=specs[k][1], x=1)
        return p

    if src == 'observable':
        def gen():
            for k in range(len(specs)):
                if error_at is not None and k == error_at:
                    return
                yield mk(k)

        obs = rx.from_iterable(gen())
        if error_at is not None:
            def fail(observer, scheduler=None):
                w.rec.log(ep, 'app_pub_error', iid=iid, role=role, code=0x201)
                observer.on_error(RuntimeError('app: observable failed'))

            obs = rx.concat(obs, rx.create(fail))
        else:
            obs = obs.pipe(ops.do_action(on_completed=lambda: w.rec.log(ep, 'app_pub_complete', iid=iid, role=role)))
        return obs

    async def agen():
        for k in range(len(specs)):
            if error_at is not None and k == error_at:
                w.rec.log(ep, 'app_pub_error', iid=iid, role=role, code=0x201)
                raise RuntimeError('app: generator failed')
            yield mk(k)
        w.rec.log(ep, 'app_pub_complete', iid=iid, role=role)     # the generator ran to its end: the producer is done

    def factory(backpressure):
        backpressure.subscribe(on_next=lambda n: w.rec.log(ep, 'cb_pub_request', iid=iid, n=min(n, 2 ** 31 - 1), role=role, x=1),
                               on_completed=lambda: w.rec.log(ep, 'cb_pub_cancel', iid=iid, role=role))
        return L['from_agen'](agen().__aiter__(), backpressure)

    return L['with_backpressure'](factory)


def make_handler_class(w, L):
    class RecRxHandler(L['BaseHandler']):
        def __init__(self, ep):
            self._cell = w._cell(ep)

        @property
        def ep(self):
            return self._cell['ep']

        def _iid(self, payload, kind):
            pid = w.payloads.resolve(payload.data, payload.metadata)
            w.rec.log(self.ep, 'cb_request', kind=kind, iid=pid, pid=pid, dl=len(payload.data or b''), ml=len(payload.metadata or b''))
            return pid

        async def on_setup(self, data_encoding, metadata_encoding, payload):
            w.rec.log(self.ep, 'cb_setup', pid=w.payloads.resolve(payload.data, payload.metadata))

        async def on_metadata_push(self, payload):
            pid = w.payloads.resolve(None, payload.metadata)
            w.rec.log(self.ep, 'cb_request', kind='push', iid=pid, pid=pid, ml=len(payload.metadata or b''))

        async def request_fire_and_forget(self, payload):
            self._iid(payload, 'fnf')

        async def request_response(self, payload):
            iid = self._iid(payload, 'rr')
            pol = w.policy.get(iid, {})
            rx = L['rx']
            w.rec.log(self.ep, 'app_producer', iid=iid, role='resp', kind='observable', n=-1)
            mode = pol.get('mode', 'immediate')

            def shaped(obs):
                # a delegate may hand the observable over directly or inside a future (what RequestRouter does with every route's result;
                # the ReactiveX v4 adapter accepts both)
                if pol.get('as_future') and L.get('version') == 'reactivex':
                    import asyncio
                    f = asyncio.get_event_loop().create_future()
                    f.set_result(obs)
                    return f
                return obs
            if mode == 'later':
                # the answer is computed asynchronously: the observable emits when the driver says so ('respond' / 'respond_error')
                subj = L['Subject']()
                w.interaction(iid)['resp_subject'] = subj
                return shaped(subj)
            if mode == 'error':
                w.rec.log(self.ep, 'app_respond', iid=iid, pid=0, code=0x201)
                return shaped(rx.throw(RuntimeError('app: response error')))
            if mode == 'empty':
                w.rec.log(self.ep, 'app_respond', iid=iid, pid=0)
                return shaped(rx.empty())
            spec = tuple(pol.get('resp', (5, 0)))
            pid, p = w.payloads.make(*spec)
            w.rec.log(self.ep, 'app_respond', iid=iid, pid=pid, dl=spec[0], ml=spec[1])
            return shaped(rx.of(p))

        async def request_stream(self, payload):
            iid = self._iid(payload, 'stream')
            pol = w.policy.get(iid, {})
            w.rec.log(self.ep, 'app_producer', iid=iid, role='resp', kind=pol.get('src', 'observable'), x=1,
                      n=len(pol.get('items', [])) if pol.get('error_at') is None else -1, code=1 if pol.get('src') == 'factory' else 0)
            return make_observable(w, L, self.ep, iid, 'resp', pol)

        async def request_channel(self, payload):
            iid = self._iid(payload, 'channel')
            pol = w.policy.get(iid, {})
            observable = None
            if pol.get('pub', True):
                w.rec.log(self.ep, 'app_producer', iid=iid, role='resp', kind=pol.get('src', 'observable'), x=1,
                          n=len(pol.get('items', [])) if pol.get('error_at') is None else -1, code=1 if pol.get('src') == 'factory' else 0)
                observable = make_observable(w, L, self.ep, iid, 'resp', pol)
            observer = None
            limit = pol.get('limit', 2 ** 31 - 1)
            if pol.get('sub', True):
                observer = RecObserver(w, self.ep, iid, 'resp')
                w.interaction(iid)['resp_observer'] = observer
                w.rec.log(self.ep, 'app_limit', iid=iid, role='resp', n=limit)
                w.rec.log(self.ep, 'cb_subscribe', iid=iid, role='resp')
            return L['Channel'](observable, observer, limit)

        async def on_error(self, error_code, payload):
            w.rec.log(self.ep, 'cb_error0', code=int(error_code) if int(error_code) < 2 ** 31 else -1)

        async def on_close(self, rsocket, exception=None):
            w.rec.log(self.ep, 'cb_close')

    return RecRxHandler


class AdapterApi:
    """application-side calls through the adapter client of endpoint `ep`"""

    def __init__(self, w, version):
        self.w = w
        self.L = libs(version)
        self.version = version
        self.clients = {}

    def client(self, ep):
        if ep not in self.clients or self.clients[ep][0] is not self.w.eps[ep]:
            self.clients[ep] = (self.w.eps[ep], self.L['Client'](self.w.eps[ep]))
        return self.clients[ep][1]

    def request_response(self, ep, spec, policy=None, probe=False):
        w = self.w
        pid, p = w.payloads.make(*spec)
        w.last_iid = pid
        w.policy[pid] = policy or {}
        it = w.interaction(pid)
        it.update(kind='rr', init=ep, resp_ep='s' if ep == 'c' else 'c')
        w.rec.log(ep, 'app_request', kind='rr', iid=pid, pid=pid, dl=spec[0], ml=spec[1], x=7 if probe else 0)
        obs = RecObserver(w, ep, pid, 'req', kind='rr')
        it['observer'] = obs
        it['disposable'] = self.client(ep).request_response(p).subscribe(obs)
        return pid

    def fire_and_forget(self, ep, spec, policy=None):
        w = self.w
        pid, p = w.payloads.make(*spec)
        w.last_iid = pid
        w.interaction(pid).update(kind='fnf', init=ep)
        w.rec.log(ep, 'app_request', kind='fnf', iid=pid, pid=pid, dl=spec[0], ml=spec[1])
        self.client(ep).fire_and_forget(p).subscribe(on_completed=lambda: w.rec.log(ep, 'cb_sent', iid=pid),
                                                   on_error=lambda ex: w.rec.log(ep, 'cb_sent', iid=pid, x=2))
        return pid

    def metadata_push(self, ep, mlen, policy=None):
        w = self.w
        pid, p = w.payloads.make(0, mlen)
        w.last_iid = pid
        w.interaction(pid).update(kind='push', init=ep)
        w.rec.log(ep, 'app_request', kind='push', iid=pid, pid=pid, ml=mlen)
        self.client(ep).metadata_push(p.metadata).subscribe(on_completed=lambda: w.rec.log(ep, 'cb_sent', iid=pid),
                                                           on_error=lambda ex: w.rec.log(ep, 'cb_sent', iid=pid, x=2))
        return pid

    def request_stream(self, ep, spec, limit=None, policy=None, subscribe=True, sub_raise_in=None):
        w = self.w
        pid, p = w.payloads.make(*spec)
        w.last_iid = pid
        w.policy[pid] = policy or {}
        it = w.interaction(pid)
        it.update(kind='stream', init=ep, resp_ep='s' if ep == 'c' else 'c')
        lim = limit if limit is not None else 2 ** 31 - 1
        w.rec.log(ep, 'app_request', kind='stream', iid=pid, pid=pid, n=lim, dl=spec[0], ml=spec[1])
        w.rec.log(ep, 'app_limit', iid=pid, role='req', n=lim)
        observable = self.client(ep).request_stream(p, lim) if limit is not None else self.client(ep).request_stream(p)
        obs = RecObserver(w, ep, pid, 'req')
        it['observer'] = obs
        it['observable'] = observable
        if subscribe:
            self.subscribe(pid)
        return pid

    def request_channel(self, ep, spec, limit=None, policy=None, pub=True, pub_policy=None, subscribe=True):
        w = self.w
        pid, p = w.payloads.make(*spec)
        w.last_iid = pid
        w.policy[pid] = policy or {}
        it = w.interaction(pid)
        it.update(kind='channel', init=ep, resp_ep='s' if ep == 'c' else 'c')
        lim = limit if limit is not None else 2 ** 31 - 1
        w.rec.log(ep, 'app_request', kind='channel', iid=pid, pid=pid, n=lim, dl=spec[0], ml=spec[1], x=1 if pub else 0)
        w.rec.log(ep, 'app_limit', iid=pid, role='req', n=lim)
        observable = None
        if pub:
            pp = pub_policy or {}
            w.rec.log(ep, 'app_producer', iid=pid, role='req', kind=pp.get('src', 'observable'), x=1,
                      n=len(pp.get('items', [])) if pp.get('error_at') is None else -1, code=1 if pp.get('src') == 'factory' else 0)
            observable = make_observable(w, self.L, ep, pid, 'req', pp)
        result = self.client(ep).request_channel(p, lim, observable)
        obs = RecObserver(w, ep, pid, 'req')
        it['observer'] = obs
        it['observable'] = result
        if subscribe:
            self.subscribe(pid)
        return pid

    def subscribe(self, iid):
        w = self.w
        it = w.interaction(iid)
        ep = it['init']
        w.rec.log(ep, 'app_subscribe', iid=iid)
        w.rec.log(ep, 'cb_subscribe', iid=iid, role='req')
        it['disposable'] = it['observable'].subscribe(it['observer'])

    def dispose(self, iid):
        w = self.w
        it = w.interaction(iid)
        d = it.get('disposable')
        obs = it.get('observer')
        if d is None or obs is None or obs.terminated or obs.cancelled:
            return False
        obs.cancelled = True
        w.rec.log(it['init'], 'app_cancel', iid=iid, role='req')
        d.dispose()
        return True
