"""World = one client endpoint + one server endpoint (real RSocketClient / RSocketServer, unmodified) over a simulated
link under a virtual-time loop, a recording application on both sides, and a recorder producing the event trace.

Everything observed is observed from outside the library:
  enq : RSocketInternal.send_frame / send_priority_frame of the endpoint instance (wrapped before connect())
  tx  : bytes leaving the transport, decoded by an independent decoder (vf/harness/wire.py)
  rx  : frames coming out of Transport.next_frame_generator() (wrapped transport instance)
  app_* / cb_* : calls made by / callbacks made into the recording application
  quiesce : the private tables the repository's own fixtures look at (open streams, partial frames, send queue)
"""
import asyncio
import struct
from datetime import timedelta

from . import link as linkmod
from . import vloop, wire


class Recorder:
    FIELDS = dict(ep='-', ev='', sid=-1, ft='', kind='', iid=0, pid=0, n=0, F=0, C=0, N=0, M=0, ml=0, dl=0,
                  mpid=0, moff=0, dpid=0, doff=0, code=0, x=0, role='', wl=0)

    def __init__(self, loop):
        self.loop = loop
        self.events = []

    def log(self, ep, ev, **kw):
        if ep == 'z':
            return dict(self.FIELDS)
        e = dict(self.FIELDS)
        e['ep'] = ep
        e['ev'] = ev
        e['t'] = int(round(self.loop.time() * 1000))
        for k, v in kw.items():
            if k not in e:
                raise KeyError(k)
            if isinstance(v, bool):
                v = int(v)
            e[k] = v
        e['i'] = len(self.events) + 1
        self.events.append(e)
        return e


# ---------------------------------------------------------------------------------------------------------------
# payloads with self-describing content

class Payloads:
    def __init__(self):
        self.by_pid = {}
        self.by_content = {}
        self.next_pid = 1

    @staticmethod
    def content(pid, part, length):
        """self-describing content: 8-byte blocks [part|pid low 7 bits, pid>>7, 0xD0|part, pid>>15, block counter (4)];
        the first byte alone identifies (part, pid) for pid < 128, the first two for pid < 32768"""
        if length == 0:
            return b''
        nblocks = (length + 7) // 8
        out = bytearray()
        for b in range(nblocks):
            out += struct.pack('>BBBBI', (part << 7) | (pid & 0x7F), (pid >> 7) & 0xFF, 0xD0 | part, (pid >> 15) & 0xFF, b)
        return bytes(out[:length])

    def make(self, dlen, mlen):
        from rsocket.payload import Payload
        pid = self.next_pid
        self.next_pid += 1
        d = self.content(pid, 0, dlen)
        m = self.content(pid, 1, mlen)
        self.by_pid[pid] = (d, m)
        self.by_content[(d, m)] = pid
        # the API accepts bytes and bytearray (rsocket.local_typing.ByteTypes); every third payload is handed over as bytearray, and
        # an absent part sometimes as b'' instead of None
        dd, mm = (d if dlen else None), (m if mlen else None)
        if pid % 3 == 0:
            dd = bytearray(dd) if dd is not None else None
            mm = bytearray(mm) if mm is not None else None
        if pid % 4 == 1:
            dd = dd if dd is not None else b''
            mm = mm if mm is not None else b''
        return pid, (Payload(dd, mm) if (dlen or mlen) else Payload())

    def make_payload(self, dlen, mlen):
        r = self.make(dlen, mlen)
        return r

    def resolve(self, data, metadata):
        """pid of a complete payload (exact bytes), 0 for the empty payload, -1 for anything else"""
        d = bytes(data) if data else b''
        m = bytes(metadata) if metadata else b''
        if not d and not m:
            return 0
        return self.by_content.get((d, m), -1)

    def resolve_chunk(self, part, chunk, prefer=None):
        """(pid, offset) of a fragment's chunk of data (part 0) / metadata (part 1); (0,0) if empty; (-1,0) unknown.
        `prefer` = (pid, offset) wins when the chunk matches there (contiguous continuation of the previous fragment)."""
        c = bytes(chunk) if chunk else b''
        if not c:
            return 0, 0
        if prefer is not None and prefer[0] in self.by_pid:
            src = self.by_pid[prefer[0]][part]
            if src[prefer[1]:prefer[1] + len(c)] == c:
                return prefer
        for pid, parts in self.by_pid.items():
            off = parts[part].find(c)
            if off >= 0:
                return pid, off
        return -1, 0

    def lens(self, pid):
        d, m = self.by_pid[pid]
        return len(d), len(m)


# ---------------------------------------------------------------------------------------------------------------
# recording application objects

def _err_code(ex):
    code = getattr(ex, 'error_code', None)
    if code is not None:
        try:
            c = int(code)
            return c if c < 2 ** 31 else -1
        except Exception:
            return -3
    if isinstance(ex, asyncio.CancelledError):
        return -2
    if isinstance(ex, RuntimeError):
        return 0x201
    return -3


def _app_raise(kind, where):
    """what the application's handler raises: an exception of its own, or - a well-behaved handler that hands the metadata it
    was given to the library's own helpers - whatever THOSE raise on peer-supplied input"""
    if kind == 'lib_mime':
        from rsocket.extensions.composite_metadata import CompositeMetadata
        cm = CompositeMetadata()
        cm.parse(b'\xb0\x00\x00\x01A')          # a well-known MIME id (0x30) that is not assigned
        raise RuntimeError('app: %s: the parser accepted an unassigned MIME id' % where)
    if kind == 'lib_auth':
        from rsocket.extensions.authentication_content import AuthenticationContent
        ac = AuthenticationContent()
        ac.parse(b'\xff' + b'token')              # a well-known authentication type id that is not assigned
        raise RuntimeError('app: %s: the parser accepted an unassigned authentication type' % where)
    if kind == 'lib_toolong':
        from rsocket.extensions.helpers import composite
        from rsocket.extensions.composite_metadata import CompositeMetadataItem
        composite(CompositeMetadataItem(b'x/' + b'y' * 300, b'v'))   # answering with a MIME type name that is too long
        raise RuntimeError('app: %s: a 302-byte MIME type name was accepted' % where)
    if kind == 'nonstr':
        raise KeyError(17, b'\xff')               # an exception whose arguments are not text
    if kind == 'noargs':
        raise Exception()
    raise RuntimeError('app: %s raised' % where)


def _avail(pol):
    """number of elements a library stream source will be able to produce (-1 for scripted / raising sources)"""
    if pol.get('src', 'scripted') == 'scripted' or pol.get('raise_at') is not None:
        return -1
    return len(pol.get('items', []))


def make_app_classes():
    """classes are created lazily so that importing this module does not import rsocket"""
    from reactivestreams.publisher import Publisher
    from reactivestreams.subscriber import Subscriber
    from reactivestreams.subscription import Subscription
    from rsocket.request_handler import BaseRequestHandler

    class RecSubscriber(Subscriber):
        """application subscriber: logs every signal; never raises unless told to"""

        def __init__(self, world, ep, iid, role, raise_in=None):
            self.w, self.ep, self.iid, self.role = world, ep, iid, role
            self.subscription = None
            self.raise_in = raise_in or ()
            self.on_next_hook = None
            self.terminated = False
            self.cancelled = False

        def on_subscribe(self, subscription):
            self.subscription = subscription
            self.w.rec.log(self.ep, 'cb_subscribe', iid=self.iid, role=self.role)
            if 'on_subscribe' in self.raise_in:
                raise RuntimeError('app: on_subscribe raised')
            act = getattr(self, 'in_subscribe', None)
            if act:
                # the canonical Reactive Streams pattern: the subscriber signals demand (or gives up) from inside on_subscribe
                if act[0] == 'request':
                    self.w.rec.log(self.ep, 'app_request_n', iid=self.iid, n=act[1], role=self.role, x=1)
                    subscription.request(act[1])
                elif act[0] == 'cancel':
                    self.cancelled = True
                    self.w.rec.log(self.ep, 'app_cancel', iid=self.iid, role=self.role)
                    subscription.cancel()

        def on_next(self, value, is_complete=False):
            pid = self.w.payloads.resolve(value.data, value.metadata)
            if is_complete:
                self.terminated = True
            self.w.rec.log(self.ep, 'cb_next', iid=self.iid, pid=pid, C=is_complete, role=self.role,
                           dl=len(value.data or b''), ml=len(value.metadata or b''))
            if self.on_next_hook is not None:
                self.on_next_hook(self, pid, is_complete)
            self.seen = getattr(self, 'seen', 0) + 1
            ck = getattr(self, 'cancel_in_next', 0)
            if ck and self.seen == ck and self.subscription is not None and not is_complete and not (self.cancelled or self.terminated):
                # the subscriber gives up from inside on_next (take(n) style)
                self.cancelled = True
                self.w.rec.log(self.ep, 'app_cancel', iid=self.iid, role=self.role)
                self.subscription.cancel()
                return      # (a subscriber that has just given up does not ask for more in the same breath)
            k = getattr(self, 'auto_request', 0)
            if k and self.subscription is not None and not is_complete and (self.w.opts.get('late_actions') or not (self.cancelled or self.terminated)):
                # the common pattern of replenishing credit from inside on_next (what CollectorSubscriber does)
                self.w.rec.log(self.ep, 'app_request_n', iid=self.iid, n=k, role=self.role, x=1)   # x=1: issued from inside on_next
                self.subscription.request(k)
            if 'on_next' in self.raise_in:
                raise RuntimeError('app: on_next raised')

        def on_complete(self):
            self.terminated = True
            self.w.rec.log(self.ep, 'cb_complete', iid=self.iid, role=self.role)
            if 'on_complete' in self.raise_in:
                raise RuntimeError('app: on_complete raised')

        def on_error(self, exception):
            self.terminated = True
            self.w.rec.log(self.ep, 'cb_error', iid=self.iid, code=_err_code(exception), role=self.role)
            if 'on_error' in self.raise_in:
                raise RuntimeError('app: on_error raised')

    class RecPublisher(Publisher, Subscription):
        """scripted application publisher: the driver decides when it emits; logs what the library asks of it"""

        def __init__(self, world, ep, iid, role, raise_in=None):
            self.w, self.ep, self.iid, self.role = world, ep, iid, role
            self.subscriber = None
            self.requested = 0
            self.cancelled = False
            self.terminated = False
            self.raise_in = raise_in or ()

        # Publisher
        def subscribe(self, subscriber):
            self.w.rec.log(self.ep, 'cb_pub_subscribe', iid=self.iid, role=self.role)
            if 'subscribe' in self.raise_in:
                raise RuntimeError('app: publisher.subscribe raised')
            self.subscriber = subscriber
            subscriber.on_subscribe(self)
            act = getattr(self, 'in_subscribe', None)
            if act == 'complete':
                # an empty publisher: completion needs no demand, it may be signalled right after on_subscribe
                self.complete()
            elif act == 'error':
                self.error()

        # Subscription (called by the library)
        def request(self, n):
            self.requested = min(self.requested + n, 2 ** 31 - 1)
            self.w.rec.log(self.ep, 'cb_pub_request', iid=self.iid, n=n, role=self.role)
            if 'request' in self.raise_in:
                raise RuntimeError('app: subscription.request raised')
            sync = getattr(self, 'sync_items', None)
            if sync is not None and not getattr(self, '_in_sync', False):
                # an in-memory publisher: it emits what was requested synchronously, from inside request(n) (re-entrantly: the
                # library is in the middle of handling the REQUEST_N / request frame)
                self._in_sync = True
                try:
                    k = n
                    while k > 0 and sync and self.legal():
                        d, m = sync.pop(0)
                        last = not sync
                        self.emit(d, m, complete=bool(last and self.sync_complete_on_last))
                        k -= 1
                    if not sync and self.legal() and not self.sync_complete_on_last:
                        self.complete()
                finally:
                    self._in_sync = False

        def cancel(self):
            self.cancelled = True
            self.w.rec.log(self.ep, 'cb_pub_cancel', iid=self.iid, role=self.role)
            if 'cancel' in self.raise_in:
                raise RuntimeError('app: subscription.cancel raised')

        # driver side (a Reactive-Streams-legal publisher: nothing after terminal / cancel)
        def legal(self):
            return self.subscriber is not None and not self.cancelled and not self.terminated

        def emit(self, dlen, mlen, complete=False):
            if not self.legal():
                return None
            pid, p = self.w.payloads.make(dlen, mlen)
            self.w.rec.log(self.ep, 'app_pub_next', iid=self.iid, pid=pid, C=complete, role=self.role, dl=dlen, ml=mlen)
            if complete:
                self.terminated = True
            self.subscriber.on_next(p, complete)
            return pid

        def complete(self):
            if not self.legal():
                return False
            self.terminated = True
            self.w.rec.log(self.ep, 'app_pub_complete', iid=self.iid, role=self.role)
            self.subscriber.on_complete()
            return True

        def error(self, msg='app error'):
            if not self.legal():
                return False
            self.terminated = True
            self.w.rec.log(self.ep, 'app_pub_error', iid=self.iid, role=self.role, code=0x201)
            self.subscriber.on_error(RuntimeError(msg))
            return True

    class RecHandler(BaseRequestHandler):
        def __init__(self, world, ep):
            self.w = world
            self._cell = world._cell(ep)

        @property
        def ep(self):
            return self._cell['ep']

        def _iid(self, payload, kind):
            pid = self.w.payloads.resolve(payload.data, payload.metadata)
            self.w.rec.log(self.ep, 'cb_request', kind=kind, iid=pid, pid=pid,
                           dl=len(payload.data or b''), ml=len(payload.metadata or b''))
            return pid

        async def on_setup(self, data_encoding, metadata_encoding, payload):
            pid = self.w.payloads.resolve(payload.data, payload.metadata)
            self.w.rec.log(self.ep, 'cb_setup', pid=pid)
            self.w.setup_seen.append((bytes(data_encoding), bytes(metadata_encoding), pid))
            how = self.w.opts.get('on_setup_raises')
            if how in ('protocol_error', 'stream_id_in_use', 'subclass'):
                # what an application's on_setup may well let escape: an error of the library's own exception type (a setup payload checked
                # against an upstream RSocket service which answered ERROR[REJECTED]; a helper that raised RSocketStreamIdInUse ...)
                from rsocket.exceptions import RSocketProtocolError, RSocketStreamIdInUse
                from rsocket.error_codes import ErrorCode
                if how == 'stream_id_in_use':
                    raise RSocketStreamIdInUse(7)
                if how == 'subclass':
                    class UpstreamRejected(RSocketProtocolError):
                        pass
                    raise UpstreamRejected(ErrorCode.APPLICATION_ERROR, data='upstream said no')
                raise RSocketProtocolError(ErrorCode.REJECTED, data='upstream rejected the credentials')
            if how:
                raise RuntimeError('app: on_setup raised')

        async def on_metadata_push(self, payload):
            pid = self.w.payloads.resolve(None, payload.metadata)
            self.w.rec.log(self.ep, 'cb_request', kind='push', iid=pid, pid=pid, ml=len(payload.metadata or b''))
            pol = self.w.policy.get(pid, {})
            if pol.get('raise'):
                _app_raise(pol['raise'], 'on_metadata_push')

        async def request_fire_and_forget(self, payload):
            iid = self._iid(payload, 'fnf')
            if self.w.policy.get(iid, {}).get('raise'):
                _app_raise(self.w.policy[iid]['raise'], 'fnf')

        async def request_response(self, payload):
            iid = self._iid(payload, 'rr')
            pol = self.w.policy.get(iid, {})
            if pol.get('suspend'):
                await asyncio.sleep(pol['suspend'])
            if pol.get('raise'):
                _app_raise(pol['raise'], 'request_response')
            if pol.get('returns') == 'none':
                return None                       # a handler that forgot to return its future
            if pol.get('returns') == 'wrong':
                from rsocket.payload import Payload
                return Payload(b'not a future')   # ... or returned the payload itself
            if pol.get('close_in_handler'):
                # the application decides, while handling a request, to close the connection (e.g. a 'bye' request)
                self.w.rec.log(self.ep, 'app_close')
                try:
                    await self.w.eps[self.ep].close()
                finally:
                    # (the handler runs inside the receiver task, which close() cancels: "returned" = control left close())
                    self.w.rec.log(self.ep, 'app_close_returned')
            fut = self.w.loop.create_future()
            it = self.w.interaction(iid)
            it['resp_future'] = fut
            self.w.rec.log(self.ep, 'app_producer', iid=iid, role='resp', kind='future')
            fut.add_done_callback(lambda f, iid=iid: self.w.rec.log(self.ep, 'cb_resp_future_done', iid=iid,
                                                                    x=1 if f.cancelled() else 0))
            mode = pol.get('mode', 'immediate')
            if mode == 'immediate':
                self.w.respond(iid, pol.get('resp', (5, 0)), ep=self.ep)
            elif mode == 'error':
                self.w.respond_error(iid, ep=self.ep)
            elif mode == 'cancelled':
                fut.cancel()                                # the application gave up before it even returned the future
            elif mode == 'cancel_soon':
                self.w.loop.call_soon(fut.cancel)           # ... or right afterwards
            return fut

        async def request_stream(self, payload):
            iid = self._iid(payload, 'stream')
            pol = self.w.policy.get(iid, {})
            if pol.get('suspend'):
                await asyncio.sleep(pol['suspend'])
            if pol.get('raise'):
                _app_raise(pol['raise'], 'request_stream')
            if pol.get('returns') == 'none':
                return None
            if pol.get('returns') == 'wrong':
                return [1, 2, 3]                  # not a Publisher
            pub = self.w.make_source(self.ep, iid, 'resp', pol)
            self.w.interaction(iid)['resp_pub'] = pub
            self.w.rec.log(self.ep, 'app_producer', iid=iid, role='resp', kind=pol.get('src', 'scripted'),
                           x=0 if pol.get('src', 'scripted') == 'scripted' else 1, n=_avail(pol))
            return pub

        async def request_channel(self, payload):
            iid = self._iid(payload, 'channel')
            pol = self.w.policy.get(iid, {})
            if pol.get('raise'):
                _app_raise(pol['raise'], 'request_channel')
            if pol.get('returns') == 'none':
                return None                       # not even a pair
            if pol.get('returns') == 'wrong':
                return 'publisher', 'subscriber'  # a pair of the wrong things
            pub = self.w.make_source(self.ep, iid, 'resp', pol) if pol.get('pub', True) else None
            sub = RecSubscriber(self.w, self.ep, iid, 'resp', pol.get('sub_raise_in')) if pol.get('sub', True) else None
            if sub is not None:
                sub.in_subscribe = pol.get('resp_in_subscribe')
            it = self.w.interaction(iid)
            it['resp_pub'] = pub
            it['resp_sub'] = sub
            if pub is not None:
                self.w.rec.log(self.ep, 'app_producer', iid=iid, role='resp', kind=pol.get('src', 'scripted'),
                               x=0 if pol.get('src', 'scripted') == 'scripted' else 1, n=_avail(pol))
            return pub, sub

        async def on_error(self, error_code, payload):
            self.w.rec.log(self.ep, 'cb_error0', code=int(error_code) if int(error_code) < 2 ** 31 else -1)

        async def on_connection_error(self, rsocket, exception):
            self.w.rec.log(self.ep, 'cb_conn_error')
            await self._auto_reconnect(rsocket, 'reconnect_on_error')       # the retry idiom

        async def _auto_reconnect(self, rsocket, key):
            # the application asks for a reconnect from inside the notification (the idiom of the repository's examples)
            limit = self.w.opts.get(key, 0)
            used = self.w.auto_reconnects_by.get(key, 0)          # (a budget per notification)
            if self.ep == 'c' and limit and used < limit:
                self.w.auto_reconnects_by[key] = used + 1
                self.w.auto_reconnects += 1
                self.w.rec.log('c', 'app_reconnect', x=1)
                await rsocket.reconnect()

        async def _auto_close(self, rsocket, key):
            # the application gives the connection up for good from inside the notification
            if self.w.opts.get(key) and self.ep == 'c' and not getattr(self.w, '_auto_closed', False):
                self.w._auto_closed = True
                self.w.rec.log('c', 'app_close', x=1)
                try:
                    await rsocket.close()
                finally:
                    self.w.rec.log('c', 'app_close_returned')

        async def on_close(self, rsocket, exception=None):
            self.w.rec.log(self.ep, 'cb_close')
            if self.w.opts.get('on_close_drains'):
                # a graceful-drain handler: it waits for the calls this endpoint still had in flight to come back (they have been failed
                # by the time on_close is called) before it lets the connection go - for at most 5 s (virtual)
                def in_flight():
                    n = 0
                    for it in self.w.inter.values():
                        if it.get('init') != self.ep or it.get('raised'):
                            continue
                        f = it.get('future')
                        if f is not None and not f.done():
                            n += 1
                        sub = it.get('sub')
                        if sub is not None and getattr(sub, 'subscription', None) is not None and not sub.terminated and not sub.cancelled:
                            n += 1
                    return n
                for _ in range(500):
                    if in_flight() == 0:
                        break
                    await asyncio.sleep(0.01)
            await self._auto_reconnect(rsocket, 'reconnect_on_close')
            await self._auto_close(rsocket, 'close_on_close')

        async def on_keepalive_timeout(self, time_since_last_keepalive, rsocket):
            cur = getattr(self.w, 'installed_handler', {}).get(self.ep)
            if cur is not None and cur is not self:
                # the application replaced its handler on the live endpoint (set_handler_using_factory): THIS object is no longer the
                # application's handler - the notification went to the wrong place
                self.w.rec.log(self.ep, 'cb_stale_handler', kind='keepalive_timeout')
                return
            self.w.rec.log(self.ep, 'cb_keepalive_timeout', x=int(time_since_last_keepalive.total_seconds() * 1000))
            await self._auto_reconnect(rsocket, 'reconnect_on_timeout')
            await self._auto_close(rsocket, 'close_on_timeout')

    from rsocket.awaitable.collector_subscriber import CollectorSubscriber

    class _LoggedSubscription:
        """what the library's CollectorSubscriber is given as its subscription: records the request(n) / cancel() calls it makes
        (they are the application's grants as far as the wire is concerned), then passes them on"""

        def __init__(self, sub, inner):
            self.sub, self.inner = sub, inner
            self.by_driver = False      # the driver (not the collector from inside on_next) is making the call: it logs itself

        def request(self, n):
            if not self.by_driver:
                self.sub.w.rec.log(self.sub.ep, 'app_request_n', iid=self.sub.iid, n=n, role=self.sub.role, x=1)
            self.inner.request(n)

        def cancel(self):
            self.sub.cancelled = True
            if not self.by_driver:
                self.sub.w.rec.log(self.sub.ep, 'app_cancel', iid=self.sub.iid, role=self.sub.role)
            self.inner.cancel()

    class RecCollector(CollectorSubscriber):
        """the library's own batching subscriber (rsocket.awaitable.CollectorSubscriber, what AwaitableRSocket.request_stream /
        request_channel use) with every signal recorded; its logic is untouched"""

        def __init__(self, world, ep, iid, role, limit_rate, limit_count=None):
            super().__init__(limit_rate, limit_count)
            self.w, self.ep, self.iid, self.role = world, ep, iid, role
            self.terminated = False
            self.cancelled = False
            self.auto_request = 0

        def on_subscribe(self, subscription):
            self.w.rec.log(self.ep, 'cb_subscribe', iid=self.iid, role=self.role)
            super().on_subscribe(_LoggedSubscription(self, subscription))

        def on_next(self, value, is_complete=False):
            pid = self.w.payloads.resolve(value.data, value.metadata)
            if is_complete:
                self.terminated = True
            self.w.rec.log(self.ep, 'cb_next', iid=self.iid, pid=pid, C=is_complete, role=self.role,
                           dl=len(value.data or b''), ml=len(value.metadata or b''))
            super().on_next(value, is_complete)

        def on_complete(self):
            self.terminated = True
            self.w.rec.log(self.ep, 'cb_complete', iid=self.iid, role=self.role)
            super().on_complete()

        def on_error(self, exception):
            self.terminated = True
            self.w.rec.log(self.ep, 'cb_error', iid=self.iid, code=_err_code(exception), role=self.role)
            super().on_error(exception)

    RecSubscriber.Collector = RecCollector
    return RecSubscriber, RecPublisher, RecHandler


# ---------------------------------------------------------------------------------------------------------------

class World:
    """opts: mode ('tcp'|'msg'), frag (None|int) or frag_c / frag_s, read_buffer (tcp), keepalive_ms, lifetime_ms,
    honor_lease_c (client honours leases; server gets a scripted lease publisher), lease_queue, setup_payload (dlen,mlen),
    connect_suspends (transport.connect awaits once), peer ('none'|'server'|'client': which side is a raw script),
    data_mime / md_mime"""

    def __init__(self, **opts):
        self.opts = opts
        self.loop = vloop.VLoop()
        self.loop.enter()
        vloop.install_virtual_datetime(self.loop)
        self.rec = Recorder(self.loop)
        self.payloads = Payloads()
        self.policy = {}
        self.inter = {}
        self.setup_seen = []
        self.mode = opts.get('mode', 'tcp')
        self.eps = {}
        self.transports = {}
        self.dirs = {}
        self.closed_transports = []
        self._frag_cursor = {}
        self.RecSubscriber, self.RecPublisher, self.RecHandler = make_app_classes()
        self.generation = 0
        self.client_transports = []
        self.lease_sub = None
        self.errors = []
        self.silent = False
        self.last_iid = None
        self.adapter_api = None
        self.auto_reconnects = 0
        self.auto_reconnects_by = {}
        self.loop.set_exception_handler(self._on_loop_exception)
        self._ep_cells = {}
        flags = 0
        if opts.get('grants_logged', True):
            flags |= 1
        if opts.get('peer', 'none') == 'none':
            flags |= 2
        if opts.get('hostile'):
            flags |= 4
        if opts.get('honor_lease_c') or opts.get('honor_lease_s'):
            flags |= 8
        if opts.get('adapters'):
            flags |= 16
            flags &= ~1       # credit is granted by the adapter, not by recorded application calls
        mimes = '%s|%s' % (opts.get('md_mime') or 'application/json', opts.get('data_mime') or 'application/json')
        self.rec.log('-', 'meta', n=flags, kind=self.mode, x=opts.get('frag') or 0, ml=opts.get('keepalive_ms', 500),
                     dl=opts.get('lifetime_ms', 600000), role=mimes,
                     C=1 if opts.get('honor_lease_c') else 0,
                     F=1 if (opts.get('server_lease_publisher') or (opts.get('honor_lease_c') and not opts.get('server_no_lease_publisher'))) else 0,
                     N=1 if opts.get('on_setup_raises') else 0, pid=opts.get('setup_payload_pid_hint', 0))

    def _on_loop_exception(self, loop, context):
        msg = context.get('message', '')
        ex = context.get('exception')
        self.errors.append('%s %r' % (msg, ex))
        self.rec.log('-', 'loop_exception', kind=type(ex).__name__ if ex else 'msg')

    # ---- interactions --------------------------------------------------------------------------------
    def interaction(self, iid):
        return self.inter.setdefault(iid, {'iid': iid})

    def make_source(self, ep, iid, role, pol):
        """the stream source a handler (or a channel requester) hands to the library"""
        src = pol.get('src', 'scripted')
        if src == 'scripted':
            pub = self.RecPublisher(self, ep, iid, role, pol.get('pub_raise_in'))
            if pol.get('sync') is not None:
                pub.sync_items = [list(x) for x in pol['sync']]
                pub.sync_complete_on_last = bool(pol.get('complete_on_last', True))
            pub.in_subscribe = pol.get('pub_in_subscribe')
            return pub
        items = pol.get('items', [])
        col = pol.get('complete_on_last', True)
        delay = timedelta(milliseconds=pol.get('delay_ms', 0))
        w = self
        raise_at = pol.get('raise_at')

        def mk(k, spec):
            pid, p = w.payloads.make(*spec)
            last = (k == len(items) - 1)
            w.rec.log(ep, 'app_pub_next', iid=iid, pid=pid, C=int(col and last), role=role, dl=spec[0], ml=spec[1], x=1)
            return p, (col and last)

        def on_cancel():
            w.rec.log(ep, 'cb_pub_cancel', iid=iid, role=role)

        def on_complete():
            w.rec.log(ep, 'cb_src_complete', iid=iid, role=role)

        if src == 'generator':
            from rsocket.streams.stream_from_generator import StreamFromGenerator

            def gen():
                try:
                    for k, spec in enumerate(items):
                        if raise_at is not None and k == raise_at:
                            raise RuntimeError('app: generator raised')
                        yield mk(k, spec)
                finally:
                    w.rec.log(ep, 'cb_gen_closed', iid=iid, role=role)

            return StreamFromGenerator(gen, delay_between_messages=delay, on_cancel=on_cancel, on_complete=on_complete)
        if src == 'async_generator':
            from rsocket.streams.stream_from_async_generator import StreamFromAsyncGenerator

            async def agen():
                try:
                    for k, spec in enumerate(items):
                        if raise_at is not None and k == raise_at:
                            raise RuntimeError('app: async generator raised')
                        if pol.get('item_delay_ms'):
                            await asyncio.sleep(pol['item_delay_ms'] / 1000.0)
                        yield mk(k, spec)
                finally:
                    w.rec.log(ep, 'cb_gen_closed', iid=iid, role=role)

            return StreamFromAsyncGenerator(agen, delay_between_messages=delay, on_cancel=on_cancel, on_complete=on_complete)
        raise ValueError(src)

    def respond(self, iid, spec, ep=None):
        it = self.interaction(iid)
        subj = it.pop('resp_subject', None)
        if subj is not None:            # (a handler behind the Rx / ReactiveX adapter: its observable emits now)
            pid, p = self.payloads.make(*spec)
            self.rec.log(ep or it.get('resp_ep', 's'), 'app_respond', iid=iid, pid=pid, dl=spec[0], ml=spec[1])
            subj.on_next(p)
            subj.on_completed()
            return pid
        fut = it.get('resp_future')
        if fut is None or fut.done():
            return None
        pid, p = self.payloads.make(*spec)
        self.rec.log(ep or it.get('resp_ep', 's'), 'app_respond', iid=iid, pid=pid, dl=spec[0], ml=spec[1])
        fut.set_result(p)
        return pid

    def respond_error(self, iid, ep=None):
        it = self.interaction(iid)
        subj = it.pop('resp_subject', None)
        if subj is not None:
            self.rec.log(ep or it.get('resp_ep', 's'), 'app_respond', iid=iid, pid=0, code=0x201)
            subj.on_error(RuntimeError('app: response error'))
            return True
        fut = it.get('resp_future')
        if fut is None or fut.done():
            return False
        self.rec.log(ep or it.get('resp_ep', 's'), 'app_respond', iid=iid, pid=0, code=0x201)
        fut.set_exception(RuntimeError('app: response error'))
        return True

    # ---- construction -----------------------------------------------------------------------------------
    def _frag(self, ep):
        return self.opts.get('frag_' + ep, self.opts.get('frag'))

    def _make_link(self):
        for d in self.dirs.values():
            d.muted = True
        c2s = linkmod.Direction(self, 'c', 's', self.mode)
        s2c = linkmod.Direction(self, 's', 'c', self.mode)
        self.dirs = {'c': c2s, 's': s2c}   # keyed by SOURCE endpoint
        return c2s, s2c

    def _make_transport(self, ep, out_dir, in_dir):
        if self.mode == 'tcp':
            from rsocket.transports.tcp import TransportTCP
            reader = asyncio.StreamReader(limit=2 ** 26, loop=self.loop)
            in_dir.reader = reader
            writer = linkmod.FakeWriter(out_dir, in_dir)
            t = TransportTCP(reader, writer, read_buffer_size=self.opts.get('read_buffer', 1024))
            t._vf_writer = writer
        else:
            from rsocket.transports import aiohttp_websocket as aw
            ws = linkmod.FakeWS(self.loop, out_dir, in_dir)
            in_dir.ws_in = ws
            if ep == 'c':
                t = aw.TransportAioHttpClient(websocket=ws)
            else:
                t = aw.TransportAioHttpWebsocket(ws)
            t._vf_ws = ws
        self._wrap_transport(ep, t)
        return t

    def _wrap_transport(self, ep, t):
        w = self
        orig_nfg = t.next_frame_generator
        cell = self._cell(ep)

        async def next_frame_generator():
            g = await orig_nfg()
            if g is None:
                return None

            async def wrapped():
                async for frame in g:
                    w.observe_rx(cell['ep'], frame)
                    yield frame

            return wrapped()

        t.next_frame_generator = next_frame_generator
        if ep == 'c' and self.generation in (self.opts.get('connect_fails') or ()):
            # the server is not reachable: connect() of this transport fails (after suspending), nothing can be read or written
            gen = self.generation

            async def failing_connect():
                for _ in range(int(self.opts.get('connect_suspends') or 0)):
                    await asyncio.sleep(0)
                w.rec.log(ep, 'transport_connect_failed', x=gen)
                for d in ('c', 's'):
                    if w.dirs[d].cut is None:
                        w.dirs[d].do_cut('error')
                raise ConnectionRefusedError('server not reachable')

            t.connect = failing_connect
        elif self.opts.get('connect_suspends') and ep == 'c':
            orig_connect = t.connect
            k = int(self.opts['connect_suspends'])

            async def connect():
                for _ in range(k):
                    await asyncio.sleep(0)
                w.rec.log(ep, 'transport_connected')
                return await orig_connect()

            t.connect = connect

        if ep == 'c' and self.opts.get('close_raises'):
            # a transport whose close() complains (the peer hung up first / it was never opened): it releases what it holds and then raises
            # something that is neither OSError nor a transport error - as the library's own aiohttp client transport does
            orig_close = t.close

            async def close():
                try:
                    await orig_close()
                except Exception:
                    pass
                raise RuntimeError('transport already closed')

            t.close = close

    def _cell(self, ep):
        cell = {'ep': ep}
        self._ep_cells.setdefault(ep, []).append(cell)
        return cell

    def _instrument_endpoint(self, ep, sock):
        w = self
        orig_send = sock.send_frame
        orig_prio = sock.send_priority_frame
        cell = self._cell(ep)

        def send_frame(frame):
            r = orig_send(frame)          # logged only if the frame really entered the queue (put_nowait is synchronous)
            q = getattr(getattr(sock, '_send_queue', None), '_queue', None)
            if q is None or (len(q) and q[-1] is frame):
                w.observe_enq(cell['ep'], frame, 0)
            # else: the endpoint keeps the frame back for now (it is logged when it enters the send queue)
            return r

        def send_priority_frame(frame):
            r = orig_prio(frame)
            w.observe_enq(cell['ep'], frame, 1)
            return r

        sock.send_frame = send_frame
        sock.send_priority_frame = send_priority_frame
        mx = self.opts.get('max_stream_id')
        if mx:
            # reduce the id space the way the library's own suite does (StreamControl._maximum_stream_id), now and whenever
            # connect() rebuilds the internals: ids wrap around within a scenario
            orig_reset = sock._reset_internals

            def reset_internals():
                orig_reset()
                sock._stream_control._maximum_stream_id = mx

            sock._reset_internals = reset_internals
            if getattr(sock, '_stream_control', None) is not None:
                sock._stream_control._maximum_stream_id = mx

    def _common_kwargs(self, ep):
        o = self.opts
        return dict(fragment_size_bytes=self._frag(ep),
                    keep_alive_period=timedelta(milliseconds=o.get('keepalive_ms', 500)),
                    max_lifetime_period=timedelta(milliseconds=o.get('lifetime_ms', 600000)))

    def _make_server(self, c2s, s2c):
        from rsocket.rsocket_server import RSocketServer
        o = self.opts
        w = self
        old = self.eps.get('s')
        if old is not None:
            self.old_servers.append(old)
            self.lease_sub = None       # the lease publisher is subscribed again by the new server endpoint (after its SETUP)
            for cell in self._ep_cells.get('s', []):
                cell['ep'] = 'z'          # events of a replaced server endpoint are no longer recorded
            self._ep_cells['s'] = []
        ts = self._make_transport('s', s2c, c2s)
        self.transports['s'] = ts
        kw = self._common_kwargs('s')
        if o.get('honor_lease_c') and not o.get('server_no_lease_publisher'):
            kw['lease_publisher'] = self._lease_publisher()
        if o.get('server_lease_publisher'):
            kw['lease_publisher'] = self._lease_publisher()
        if o.get('honor_lease_s'):
            kw['honor_lease'] = True
            kw['request_queue_size'] = o.get('lease_queue', 0)

        def on_ready(sock):
            w._instrument_endpoint('s', sock)

        hf = lambda: self.RecHandler(self, 's')
        if o.get('adapters') and not o.get('core_server'):       # (core_server: an Rx / ReactiveX CLIENT against a handler written with the core API)
            from . import adapters
            if self.adapter_api is None:
                self.adapter_api = adapters.AdapterApi(self, o['adapters'])
            cls = adapters.make_handler_class(self, self.adapter_api.L)
            hf = self.adapter_api.L['handler_factory'](lambda: cls('s'))
        self.eps['s'] = RSocketServer(ts, handler_factory=hf, on_ready=on_ready, **kw)
        if self.mode == 'msg':
            self._srv_task = self.loop.create_task(ts.handle_incoming_ws_messages())

    def _sink(self, in_dir, out_dir):
        """the receiving side of a direction that ends at a scripted peer"""
        if self.mode == 'tcp':
            in_dir.reader = asyncio.StreamReader(limit=2 ** 26, loop=self.loop)
        else:
            in_dir.ws_in = linkmod.FakeWS(self.loop, out_dir, in_dir)

    def start(self, connect=True):
        """build both endpoints; returns after the client's connect() completed (if connect)"""
        from rsocket.rsocket_client import RSocketClient
        o = self.opts
        c2s, s2c = self._make_link()
        w = self
        peer = o.get('peer', 'none')
        self.old_servers = []
        if peer != 'server':
            self._make_server(c2s, s2c)
        else:
            self._sink(c2s, s2c)

        if peer != 'client':
            async def provider():
                while True:
                    w.generation += 1
                    limit = w.opts.get('max_transports')
                    if limit is not None and w.generation > limit:
                        return
                    if w.generation > 1:
                        # a fresh link (and a fresh server endpoint) for every new connection
                        w.silent = False
                        nc2s, ns2c = w._make_link()
                        if w.opts.get('peer', 'none') != 'server':
                            w._make_server(nc2s, ns2c)
                        else:
                            w._sink(nc2s, ns2c)
                        tc = w._make_transport('c', nc2s, ns2c)
                    else:
                        tc = w._make_transport('c', c2s, s2c)
                    w.transports['c'] = tc
                    w.client_transports.append(tc)
                    w.rec.log('c', 'transport_taken', x=w.generation)
                    w._frag_cursor = {}       # fragment cursors of the recorder belong to a connection
                    if w.opts.get('provider_suspends'):
                        for _ in range(int(w.opts['provider_suspends'])):
                            await asyncio.sleep(0)
                    yield tc

            kw = self._common_kwargs('c')
            if o.get('honor_lease_c'):
                kw['honor_lease'] = True
                kw['request_queue_size'] = o.get('lease_queue', 0)
            if o.get('client_lease_publisher'):
                # the client application issues leases of its own (to a server that asks for them); whether the CLIENT honours leases -
                # the flag in its SETUP - is a separate setting
                from rsocket.lease import LeasePublisher

                class _ClientLeases(LeasePublisher):
                    def subscribe(self_, subscriber):
                        self.client_lease_sub = subscriber
                kw['lease_publisher'] = _ClientLeases()
            if o.get('setup_payload'):
                pid, p = self.payloads.make(*o['setup_payload'])
                kw['setup_payload'] = p
                self.setup_pid = pid
            def mime_arg(name):
                # the constructor accepts the MIME type as bytes, as str, or as a WellKnownMimeTypes member (opts['mime_as'])
                how = o.get('mime_as', 'bytes')
                if how == 'str':
                    return name
                if how == 'enum':
                    from rsocket.extensions.mimetypes import WellKnownMimeTypes
                    for mt in WellKnownMimeTypes:
                        if mt.value.name == name.encode():
                            return mt
                return name.encode()
            if o.get('data_mime'):
                kw['data_encoding'] = mime_arg(o['data_mime']) if isinstance(o['data_mime'], str) else o['data_mime']
            if o.get('md_mime'):
                kw['metadata_encoding'] = mime_arg(o['md_mime']) if isinstance(o['md_mime'], str) else o['md_mime']
            if o.get('adapters') and self.adapter_api is None:
                from . import adapters
                self.adapter_api = adapters.AdapterApi(self, o['adapters'])
            client = RSocketClient(provider(), handler_factory=lambda: self.RecHandler(self, 'c'), **kw)
            self._instrument_endpoint('c', client)
            self.eps['c'] = client
            if connect:
                self.rec.log('c', 'app_connect', pid=getattr(self, 'setup_pid', 0))
                self._connect_task = self.loop.create_task(client.connect())
        else:
            self._sink(s2c, c2s)
        self.loop.run_ready()
        return self

    # ---- scripted peer ------------------------------------------------------------------------------------------------
    def peer_send(self, body, towards):
        """the scripted peer puts one frame on the link towards the real endpoint and it is delivered at once"""
        src = 's' if towards == 'c' else 'c'
        d = self.dirs[src]
        if d.cut is not None:
            return False
        d.inject(len(body).to_bytes(3, 'big') + body if self.mode == 'tcp' else body)
        d.deliver()
        return True

    def _scripted_server_sees(self, f):
        """reaction of the scripted server to a frame of the real client (keep-alive acknowledgement patterns)"""
        pat = self.opts.get('ka') or {'mode': 'always'}
        if f['ft'] == 'KEEPALIVE' and f['F']:
            now = self.loop.time() * 1000.0
            mode = pat.get('mode', 'always')
            ack = (mode == 'always') or (mode == 'stop_at' and now < pat.get('stop_ms', 0)) or \
                  (mode == 'only_after' and now >= pat.get('start_ms', 0))
            if ack:
                body = wire.encode('KEEPALIVE', flags=0, extra=(f.get('pos', 0)).to_bytes(8, 'big'), d=f['d'])
                delay = pat.get('delay_ms', 0) / 1000.0
                self.loop.call_later(delay, self.peer_send, body, 'c')

    def _lease_publisher(self):
        from reactivestreams.publisher import Publisher
        w = self

        class LP(Publisher):
            def subscribe(self, subscriber):
                w.lease_sub = subscriber

        return LP()

    def publish_lease(self, count, ttl_ms, ep='s'):
        from rsocket.lease import DefinedLease
        if self.lease_sub is not None:
            self.rec.log(ep, 'app_lease', n=count, x=ttl_ms)
            self.lease_sub.on_next(DefinedLease(maximum_request_count=count, maximum_lease_time=timedelta(milliseconds=ttl_ms)))
            return True
        return False

    # ---- observation ---------------------------------------------------------------------------------------
    def _describe_parts(self, ep, sid, chan, md, d):
        """resolve metadata/data chunks to (pid, offset).  Ambiguous (tiny) chunks are resolved in favour of the
        contiguous continuation of a fragmented frame already in progress on this stream (benefit of the doubt)."""
        key = (ep, chan, sid)
        curs = self._frag_cursor.get(key) or {}
        if not curs:
            whole = self.payloads.resolve(d, md)
            if whole > 0:
                return (whole if md else 0), 0, (whole if d else 0), 0
        mres = dres = None
        for pid, c in curs.items():
            if md and mres is None:
                r = self.payloads.resolve_chunk(1, md, (pid, c['m']))
                if r == (pid, c['m']):
                    mres = r
            if d and dres is None:
                r = self.payloads.resolve_chunk(0, d, (pid, c['d']))
                if r == (pid, c['d']):
                    dres = r
        if mres is None:
            mres = self.payloads.resolve_chunk(1, md, None)
        if dres is None:
            dres = self.payloads.resolve_chunk(0, d, (mres[0], 0) if mres[0] > 0 else None)
        return mres[0], mres[1], dres[0], dres[1]

    def _advance_cursor(self, ep, sid, chan, follows, mpid, moff, ml, dpid, doff, dl):
        key = (ep, chan, sid)
        curs = self._frag_cursor.setdefault(key, {})
        pid = mpid if mpid > 0 else dpid
        if pid <= 0:
            return
        if not follows:
            curs.pop(pid, None)
            return
        c = curs.setdefault(pid, {'m': 0, 'd': 0})
        if ml:
            c['m'] = moff + ml
        if dl:
            c['d'] = doff + dl

    def observe_enq(self, ep, frame, prio):
        if ep == 'z':
            return
        ft = getattr(getattr(frame, 'frame_type', None), 'name', str(getattr(frame, 'frame_type', '?')))
        md = frame.metadata or b''
        d = frame.data or b''
        if ft == 'SETUP' or ft == 'LEASE' or ft == 'KEEPALIVE' or ft == 'ERROR':
            pid = self.payloads.resolve(d, md) if ft in ('SETUP', 'KEEPALIVE') else 0
            pid = max(pid, 0) if ft == 'KEEPALIVE' else pid
        else:
            pid = self.payloads.resolve(d, md)
        n = 0
        if hasattr(frame, 'initial_request_n') and ft in ('REQUEST_STREAM', 'REQUEST_CHANNEL'):
            n = frame.initial_request_n
        elif ft == 'REQUEST_N':
            n = frame.request_n
        elif ft == 'LEASE':
            n = frame.number_of_requests
        code = 0
        if ft == 'ERROR':
            c = int(frame.error_code)
            code = c if c < 2 ** 31 else -1
        x = prio
        if ft in ('REQUEST_RESPONSE', 'REQUEST_FNF', 'REQUEST_STREAM', 'REQUEST_CHANNEL', 'PAYLOAD'):
            x = getattr(frame, 'fragment_size_bytes', None) or 0
        if ft == 'LEASE':
            x = frame.time_to_live if frame.time_to_live is not None and frame.time_to_live < 2 ** 31 else -1
        nflag = bool(getattr(frame, 'flags_next', False)) or (ft == 'PAYLOAD' and (len(md) > 0 or len(d) > 0))
        fflag = bool(getattr(frame, 'flags_follows', False))
        if ft == 'KEEPALIVE':
            fflag = bool(getattr(frame, 'flags_respond', False))
        self.rec.log(ep, 'enq', sid=frame.stream_id, ft=ft, pid=pid, n=min(n, 2 ** 31 - 1) if isinstance(n, int) else -1,
                     F=fflag, C=bool(getattr(frame, 'flags_complete', False)),
                     N=nflag, M=len(md) > 0, ml=len(md), dl=len(d), code=code, x=x,
                     kind='')

    def _log_wire(self, ep, ev, f, chan):
        ft = f['ft']
        md, d = f.get('md', b''), f.get('d', b'')
        mpid = moff = dpid = doff = 0
        if ft == 'KEEPALIVE':
            dpid = max(self.payloads.resolve(d, b''), 0)
        if ft in ('REQUEST_RESPONSE', 'REQUEST_FNF', 'REQUEST_STREAM', 'REQUEST_CHANNEL', 'PAYLOAD', 'METADATA_PUSH', 'SETUP'):
            mpid, moff, dpid, doff = self._describe_parts(ep, f['sid'], chan, md, d)
            if ft in ('REQUEST_RESPONSE', 'REQUEST_FNF', 'REQUEST_STREAM', 'REQUEST_CHANNEL', 'PAYLOAD'):
                self._advance_cursor(ep, f['sid'], chan, f['F'], mpid, moff, len(md), dpid, doff, len(d))
        n = f.get('n', 0)
        x = f.get('x', 0)
        if ft == 'LEASE':
            x = f.get('ttl', 0)
            x = x if x < 2 ** 31 else -1
        role = ''
        if ft == 'SETUP':
            x = f.get('keepalive', 0) if f.get('keepalive', 0) < 2 ** 31 else -1
            n = f.get('lifetime', 0) if f.get('lifetime', 0) < 2 ** 31 else -1
            f['code'] = (f.get('major', 0) << 16) | f.get('minor', 0)
            role = '%s|%s' % (bytes(f.get('md_mime', b'')).decode('latin1'), bytes(f.get('d_mime', b'')).decode('latin1'))
        code = f.get('code', 0)
        self.rec.log(ep, ev, sid=f['sid'], ft=ft, n=n if n < 2 ** 31 else -1, F=f['F'], C=f['C'], N=f['N'], M=f['M'],
                     ml=len(md), dl=len(d), mpid=mpid, moff=moff, dpid=dpid, doff=doff,
                     code=code if code < 2 ** 31 else -1, x=x, wl=f.get('wlen', 0), role=role,
                     pid=self.payloads.resolve(d, md) if ft == 'SETUP' else 0)

    def observe_tx(self, ep, fb, prefixed):
        try:
            f = wire.decode(fb)
        except Exception:
            self.rec.log(ep, 'tx', ft='UNDECODABLE', dl=len(fb))
            return
        f['wlen'] = len(fb) + (3 if prefixed else 0)
        self.last_tx = getattr(self, 'last_tx', {})
        self.last_tx[ep] = f
        if f['ft'] == 'SETUP':
            self.setup_frames = getattr(self, 'setup_frames', [])
            self.setup_frames.append(f)
        if f['ft'] == 'KEEPALIVE':
            f['x'] = len(f['d'])
        self._log_wire(ep, 'tx', f, 'tx')
        if ep == 'c' and self.opts.get('peer') == 'server':
            self._scripted_server_sees(f)

    def observe_rx(self, ep, frame):
        if ep == 'z':
            return
        ftype = getattr(frame, 'frame_type', None)
        if ftype is None:
            self.rec.log(ep, 'rx', ft='INVALID')
            return
        ft = ftype.name
        f = {'sid': frame.stream_id, 'ft': ft, 'md': bytes(frame.metadata or b''), 'd': bytes(frame.data or b''),
             'F': bool(getattr(frame, 'flags_follows', False)), 'C': bool(getattr(frame, 'flags_complete', False)),
             'N': bool(getattr(frame, 'flags_next', False)), 'M': bool(frame.flags_metadata), 'n': 0, 'code': 0}
        if ft in ('REQUEST_STREAM', 'REQUEST_CHANNEL'):
            f['n'] = frame.initial_request_n
        elif ft == 'REQUEST_N':
            f['n'] = frame.request_n
        elif ft == 'LEASE':
            f['n'] = frame.number_of_requests
            f['ttl'] = frame.time_to_live
        elif ft == 'ERROR':
            try:
                f['code'] = int(frame.error_code)
            except Exception:
                f['code'] = -3
        elif ft == 'KEEPALIVE':
            f['F'] = bool(frame.flags_respond)
            f['x'] = len(f['d'])
        elif ft == 'SETUP':
            f['F'] = bool(frame.flags_resume)
            f['C'] = bool(frame.flags_lease)
            f['keepalive'] = frame.keep_alive_milliseconds
            f['lifetime'] = frame.max_lifetime_milliseconds
            f['major'], f['minor'] = frame.major_version, frame.minor_version
            f['md_mime'] = bytes(frame.metadata_encoding)
            f['d_mime'] = bytes(frame.data_encoding)
        self._log_wire(ep, 'rx', f, 'rx')

    def on_transport_closed(self, ep):
        self.closed_transports.append((ep, self.generation))
        self.rec.log(ep, 'transport_closed', x=self.generation)

    # ---- driver primitives -------------------------------------------------------------------------------------
    def settle(self):
        self.loop.run_ready()

    def advance(self, ms):
        self.rec.log('-', 'tick', x=int(ms))
        self.loop.advance(ms / 1000.0)
        self.rec.log('-', 'tock', x=int(ms))

    def deliver(self, src, k=None):
        n = self.dirs[src].deliver(k)
        self.loop.run_ready()
        return n

    def pump(self, max_rounds=400, chunk=None):
        """deliver everything in both directions until the link is empty and nothing is ready.  Livelock guard (e.g. an
        echo storm): a bound on rounds when whole buffers are delivered, on delivered volume when delivering in small chunks"""
        start = sum(d.pending() for d in self.dirs.values())
        delivered = 0
        rounds = 0
        while True:
            self.loop.run_ready()
            moved = 0
            for src in ('c', 's'):
                d = self.dirs[src]
                if d.pending() and d.cut is None:
                    moved += d.deliver(chunk)
                    self.loop.run_ready()
            if not moved:
                return True
            rounds += 1
            delivered += moved
            if (chunk is None or self.mode != 'tcp') and rounds > max_rounds:
                raise vloop.Budget('pump did not converge (%d rounds)' % rounds)
            if chunk is not None and self.mode == 'tcp' and delivered > 40 * start + 100000:
                raise vloop.Budget('pump did not converge (%d bytes delivered)' % delivered)

    def gate(self, ep, k=None, close=False):
        g = self.dirs[ep].gate
        if close:
            g.close()
        elif k is None:
            g.open()
        else:
            g.grant(k)
        self.loop.run_ready()

    def cut(self, src, how):
        """'eof': src's outgoing direction ends in an orderly way (the other direction follows when dst closes its transport);
        'error': the connection is reset - both directions fail at once"""
        self.dirs[src].do_cut(how)
        if how == 'error':
            other = 's' if src == 'c' else 'c'
            self.dirs[other].do_cut(how)
        self.loop.run_ready()

    def snapshot(self, label=''):
        """quiescence record: the private tables the suite's own fixtures inspect"""
        for ep, sock in self.eps.items():
            try:
                streams = sorted(sock._stream_control._streams.keys())
            except Exception:
                streams = [-1]
            try:
                partial = sorted(sock._frame_fragment_cache._frames_by_stream_id.keys())
            except Exception:
                partial = [-1]
            try:
                qlen = sock._send_queue.qsize()
            except Exception:
                qlen = -1
            rt = sock._receiver_task
            stt = sock._sender_task
            alive = int(rt is not None and not rt.done()) + 2 * int(stt is not None and not stt.done())
            self.rec.log(ep, 'quiesce', n=len(streams), x=len(partial), code=qlen, pid=alive, kind=label,
                         sid=streams[0] if streams else -1)
            self.rec.events[-1]['streams'] = streams
            self.rec.events[-1]['partial'] = partial

    def close(self):
        """tear down without recording (end of scenario)"""
        try:
            for ep, sock in self.eps.items():
                t = self.loop.create_task(sock.close())
            self.loop.run_ready()
            for t in asyncio.all_tasks(self.loop):
                t.cancel()
            self.loop.run_ready()
        except Exception:
            pass
        finally:
            try:
                self.loop.leave()
                self.loop.close()
            except Exception:
                pass

    # ---- application-side API calls ------------------------------------------------------------------------------
    def new_payload(self, spec):
        return self.payloads.make(*spec)

    def request_response(self, ep, spec, policy=None, probe=False):
        if self.adapter_api is not None and self.opts.get('adapters') and not self.opts.get('core_client'):
            return self.adapter_api.request_response(ep, spec, policy, probe)
        pid, p = self.payloads.make(*spec)
        self.last_iid = pid
        self.policy[pid] = policy or {}
        it = self.interaction(pid)
        it.update(kind='rr', init=ep, resp_ep='s' if ep == 'c' else 'c')
        self.rec.log(ep, 'app_request', kind='rr', iid=pid, pid=pid, dl=spec[0], ml=spec[1], x=7 if probe else 0)
        fut = self.eps[ep].request_response(p)
        it['future'] = fut

        def done(f, pid=pid, ep=ep):
            if f.cancelled():
                self.rec.log(ep, 'cb_future', iid=pid, code=-2, kind='cancelled')
            elif f.exception() is not None:
                self.rec.log(ep, 'cb_future', iid=pid, code=_err_code(f.exception()), kind='error')
            else:
                r = f.result()
                self.rec.log(ep, 'cb_future', iid=pid, pid=self.payloads.resolve(r.data, r.metadata), kind='result',
                             dl=len(r.data or b''), ml=len(r.metadata or b''))

        fut.add_done_callback(done)
        return pid

    def fut_cancel(self, iid):
        it = self.interaction(iid)
        self.rec.log(it['init'], 'app_fut_cancel', iid=iid)
        return it['future'].cancel()

    def fire_and_forget(self, ep, spec, policy=None):
        if self.adapter_api is not None and self.opts.get('adapters') and not self.opts.get('core_client'):
            return self.adapter_api.fire_and_forget(ep, spec, policy)
        pid, p = self.payloads.make(*spec)
        self.last_iid = pid
        self.policy[pid] = policy or {}
        it = self.interaction(pid)
        it.update(kind='fnf', init=ep)
        self.rec.log(ep, 'app_request', kind='fnf', iid=pid, pid=pid, dl=spec[0], ml=spec[1])
        fut = self.eps[ep].fire_and_forget(p)
        it['sent_future'] = fut
        fut.add_done_callback(lambda f, pid=pid, ep=ep: self.rec.log(ep, 'cb_sent', iid=pid, x=1 if f.cancelled() else 0))
        return pid

    def metadata_push(self, ep, mlen, policy=None):
        if self.adapter_api is not None and self.opts.get('adapters') and not self.opts.get('core_client'):
            return self.adapter_api.metadata_push(ep, mlen, policy)
        pid, p = self.payloads.make(0, mlen)
        self.policy[pid] = policy or {}
        it = self.interaction(pid)
        it.update(kind='push', init=ep)
        self.rec.log(ep, 'app_request', kind='push', iid=pid, pid=pid, ml=mlen)
        fut = self.eps[ep].metadata_push(p.metadata)
        it['sent_future'] = fut
        fut.add_done_callback(lambda f, pid=pid, ep=ep: self.rec.log(ep, 'cb_sent', iid=pid, x=1 if f.cancelled() else 0))
        return pid

    def request_stream(self, ep, spec, n0=None, policy=None, subscribe=True, sub_raise_in=None):
        if self.adapter_api is not None and self.opts.get('adapters') and not self.opts.get('core_client'):
            return self.adapter_api.request_stream(ep, spec, n0, policy, subscribe)
        pid, p = self.payloads.make(*spec)
        self.last_iid = pid
        self.policy[pid] = policy or {}
        it = self.interaction(pid)
        it.update(kind='stream', init=ep, resp_ep='s' if ep == 'c' else 'c')
        if (policy or {}).get('collector'):
            n0 = policy['collector']['limit_rate']
        self.rec.log(ep, 'app_request', kind='stream', iid=pid, pid=pid, n=n0 if n0 is not None else 2 ** 31 - 1,
                     dl=spec[0], ml=spec[1])
        req = self.eps[ep].request_stream(p)
        it['requester'] = req
        it['sid'] = req.stream_id
        if n0 is not None:
            req.initial_request_n(n0)
        col = (policy or {}).get('collector')
        if col:
            # AwaitableRSocket.request_stream(limit_rate): initial request n = limit_rate, CollectorSubscriber replenishes
            req.initial_request_n(col['limit_rate'])
            sub = self.RecSubscriber.Collector(self, ep, pid, 'req', col['limit_rate'], col.get('limit_count'))
        else:
            sub = self.RecSubscriber(self, ep, pid, 'req', sub_raise_in)
            sub.auto_request = (policy or {}).get('auto_request', 0)
            sub.in_subscribe = (policy or {}).get('in_subscribe')
            sub.cancel_in_next = (policy or {}).get('cancel_in_next', 0)
        it['sub'] = sub
        if subscribe:
            self.subscribe(pid)
        return pid

    def request_channel(self, ep, spec, n0=None, policy=None, pub=True, pub_policy=None, subscribe=True):
        if self.adapter_api is not None and self.opts.get('adapters') and not self.opts.get('core_client'):
            return self.adapter_api.request_channel(ep, spec, n0, policy, pub, pub_policy, subscribe)
        pid, p = self.payloads.make(*spec)
        self.last_iid = pid
        self.policy[pid] = policy or {}
        it = self.interaction(pid)
        it.update(kind='channel', init=ep, resp_ep='s' if ep == 'c' else 'c')
        publisher = self.make_source(ep, pid, 'req', pub_policy or {}) if pub else None
        it['req_pub'] = publisher
        if (policy or {}).get('collector'):
            n0 = policy['collector']['limit_rate']
        self.rec.log(ep, 'app_request', kind='channel', iid=pid, pid=pid, n=n0 if n0 is not None else 2 ** 31 - 1,
                     dl=spec[0], ml=spec[1], x=1 if pub else 0)
        if pub:
            src = (pub_policy or {}).get('src', 'scripted')
            self.rec.log(ep, 'app_producer', iid=pid, role='req', kind=src, x=0 if src == 'scripted' else 1, n=_avail(pub_policy or {}))
        req = self.eps[ep].request_channel(p, publisher)
        it['requester'] = req
        it['sid'] = req.stream_id
        if n0 is not None:
            req.initial_request_n(n0)
        col = (policy or {}).get('collector')
        if col:
            req.initial_request_n(col['limit_rate'])
            sub = self.RecSubscriber.Collector(self, ep, pid, 'req', col['limit_rate'], col.get('limit_count'))
        else:
            sub = self.RecSubscriber(self, ep, pid, 'req')
            sub.auto_request = (policy or {}).get('auto_request', 0)
            sub.in_subscribe = (policy or {}).get('in_subscribe')
            sub.cancel_in_next = (policy or {}).get('cancel_in_next', 0)
        it['sub'] = sub
        if subscribe:
            self.subscribe(pid)
        return pid

    def subscribe(self, iid):
        if self.adapter_api is not None and self.opts.get('adapters') and not self.opts.get('core_client'):
            return self.adapter_api.subscribe(iid)
        it = self.interaction(iid)
        self.rec.log(it['init'], 'app_subscribe', iid=iid)
        it['requester'].subscribe(it['sub'])

    def sub_request(self, iid, n, role='req'):
        it = self.interaction(iid)
        sub = it['sub'] if role == 'req' else it.get('resp_sub')
        ep = it['init'] if role == 'req' else it['resp_ep']
        if sub is None or sub.subscription is None:
            return False
        self.rec.log(ep, 'app_request_n', iid=iid, n=n, role=role)
        if hasattr(sub.subscription, 'by_driver'):
            sub.subscription.by_driver = True
        try:
            sub.subscription.request(n)
        finally:
            if hasattr(sub.subscription, 'by_driver'):
                sub.subscription.by_driver = False
        return True

    def sub_cancel(self, iid, role='req'):
        it = self.interaction(iid)
        sub = it['sub'] if role == 'req' else it.get('resp_sub')
        ep = it['init'] if role == 'req' else it['resp_ep']
        if sub is None or sub.subscription is None:
            return False
        self.rec.log(ep, 'app_cancel', iid=iid, role=role)
        if hasattr(sub.subscription, 'by_driver'):
            sub.subscription.by_driver = True
        try:
            sub.subscription.cancel()
        finally:
            if hasattr(sub.subscription, 'by_driver'):
                sub.subscription.by_driver = False
        return True

    def pub(self, iid, role='resp'):
        it = self.interaction(iid)
        return it.get('resp_pub') if role == 'resp' else it.get('req_pub')

    def app_close(self, ep, steps=None):
        """steps = k: only k loop callbacks run, so that what the application does next lands inside the close()"""
        self.rec.log(ep, 'app_close')
        t = self.loop.create_task(self.eps[ep].close())
        t.add_done_callback(lambda _t, ep=ep: self.rec.log(ep, 'app_close_returned'))
        if steps is None:
            self.loop.run_ready()
        else:
            for _ in range(steps):
                self.loop._one()
        return t

    def app_reconnect(self, steps=None):
        """steps = None: the loop runs until nothing is ready (the reconnect proceeds as far as it can); steps = k: only k callbacks
        run, so that what the application does next lands inside the reconnect"""
        self.rec.log('c', 'app_reconnect')
        t = self.loop.create_task(self.eps['c'].reconnect())
        if steps is None:
            self.loop.run_ready()
        else:
            for _ in range(steps):
                self.loop._one()
        return t
