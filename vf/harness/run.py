"""Worker: run a batch of scenario programs against the real library and write the recorded traces.
usage: python -m vf.harness.run <family> <seed> <first> <count> <out.json> [knobs-json]"""
import json
import random
import sys


def main():
    family, seed, first, count, out = sys.argv[1], int(sys.argv[2]), int(sys.argv[3]), int(sys.argv[4]), sys.argv[5]
    knobs = json.loads(sys.argv[6]) if len(sys.argv) > 6 else {}
    from . import gen, prog
    res = []
    for i in range(first, first + count):
        rng = random.Random('%s/%d/%d' % (family, seed, i))
        g = getattr(gen, 'gen_' + family)
        opts, program = g(rng, dict(knobs, _i=i))
        r = prog.run_program(opts, program, wall=45)      # (wall-clock watchdog against spinning code only: generous, the machine may be loaded)
        r.update(tid=i, family=family, opts=opts, prog=program)
        res.append(r)
        if sum(1 for x in res if x['status'] != 'ok') >= 3:
            break       # the library hangs or livelocks in this batch: three witnesses are enough
    with open(out, 'w') as f:
        json.dump(res, f)


if __name__ == '__main__':
    main()
