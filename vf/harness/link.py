"""Simulated link: the real transport classes over hand-fed readers and gated fake writers.

TCP framing   : rsocket.transports.tcp.TransportTCP over a real asyncio.StreamReader (fed by the driver in any
                chunking) and FakeWriter (write() appends to the link, drain() is a gate the driver opens).
Message framing: rsocket.transports.aiohttp_websocket.TransportAioHttpWebsocket / TransportAioHttpClient over FakeWS.

One Direction object per direction of the link holds the bytes/messages written but not yet delivered, observes the
outgoing stream with an independent decoder (-> 'tx' events), and can be cut (orderly EOF or transport error).
"""
import asyncio

from . import wire


class Gate:
    """sender-side back-pressure: the sender passes only while tokens are available (None = open)"""

    def __init__(self, loop):
        self.loop = loop
        self.tokens = None
        self.waiter = None

    async def wait(self):
        while self.tokens is not None and self.tokens <= 0:
            self.waiter = self.loop.create_future()
            try:
                await self.waiter
            finally:
                self.waiter = None
        if self.tokens is not None:
            self.tokens -= 1

    def close(self):
        self.tokens = 0

    def grant(self, k=1):
        if self.tokens is not None:
            self.tokens += k
        self._wake()

    def open(self):
        self.tokens = None
        self._wake()

    def _wake(self):
        if self.waiter is not None and not self.waiter.done():
            self.waiter.set_result(None)


class Direction:
    """bytes (tcp) or messages (msg) in flight from `src` endpoint to `dst` endpoint"""

    def __init__(self, world, src, dst, mode):
        self.world = world
        self.src, self.dst = src, dst
        self.mode = mode
        self.buf = bytearray()       # tcp: undelivered bytes
        self.msgs = []               # msg: undelivered messages
        self.obs = bytearray()       # tcp: observer buffer for frame boundary detection
        self.sent_bytes = 0
        self.delivered_bytes = 0
        self.cut = None              # None | 'eof' | 'error'
        self.gate = Gate(world.loop)
        self.frames_out = 0
        self.reader = None           # tcp: StreamReader of dst
        self.ws_in = None            # msg: FakeWS of dst
        self.broken_writer = False
        self.muted = False          # a direction of a replaced (old) connection: no longer recorded

    # ---- sender side -------------------------------------------------------------------
    def write(self, data):
        if self.cut is not None or self.broken_writer:
            if self.broken_writer:
                raise ConnectionResetError('link cut')
            return  # bytes written after an orderly cut vanish
        data = bytes(data)
        self.sent_bytes += len(data)
        self.buf += data
        self.obs += data
        while len(self.obs) >= 3:
            ln = int.from_bytes(self.obs[:3], 'big')
            if len(self.obs) < 3 + ln:
                break
            fb = bytes(self.obs[3:3 + ln])
            del self.obs[:3 + ln]
            self.frames_out += 1
            if not self.muted:
                self.world.observe_tx(self.src, fb, prefixed=True)

    def send_message(self, data):
        if self.cut is not None or self.broken_writer:
            if self.broken_writer:
                raise ConnectionResetError('link cut')
            return
        data = bytes(data)
        self.sent_bytes += len(data)
        self.msgs.append(data)
        self.frames_out += 1
        if not self.muted:
            self.world.observe_tx(self.src, data, prefixed=False)

    # ---- driver side -------------------------------------------------------------------
    def pending(self):
        return len(self.buf) if self.mode == 'tcp' else len(self.msgs)

    def deliver(self, k=None):
        """tcp: feed the next k bytes (None = all); msg: feed the next k messages (None = all). Returns amount fed."""
        if self.cut is not None or getattr(self.world, 'silent', False):
            return 0
        if self.mode == 'tcp':
            if not self.buf:
                return 0
            k = len(self.buf) if k is None else min(k, len(self.buf))
            chunk = bytes(self.buf[:k])
            del self.buf[:k]
            self.delivered_bytes += k
            if not self.muted:
                self.world.rec.log(self.dst, 'bytes_in', n=k, x=self.delivered_bytes)
            self.reader.feed_data(chunk)
            return k
        else:
            k = len(self.msgs) if k is None else min(k, len(self.msgs))
            for m in self.msgs[:k]:
                self.delivered_bytes += len(m)
                if not self.muted:
                    self.world.rec.log(self.dst, 'bytes_in', n=len(m), x=self.delivered_bytes)
                self.ws_in.feed(m)
            del self.msgs[:k]
            return k

    def deliver_frame(self):
        """feed exactly the next whole frame (tcp: its length-prefixed bytes; msg: one message)"""
        if self.cut is not None or getattr(self.world, 'silent', False):
            return 0
        if self.mode != 'tcp':
            return self.deliver(1)
        if len(self.buf) < 3:
            return 0
        ln = int.from_bytes(self.buf[:3], 'big')
        if len(self.buf) < 3 + ln:
            return self.deliver(None)
        return self.deliver(3 + ln)

    def inject(self, data):
        """scripted peer: put raw bytes (tcp) / one message (msg) on the link without any sender endpoint"""
        if self.mode == 'tcp':
            self.buf += data
        else:
            self.msgs.append(data if isinstance(data, NonBinary) else bytes(data))

    def do_cut(self, how):
        """how = 'eof' (orderly close seen by the receiver) | 'error' (receiver's read fails, sender's writes fail)"""
        if self.cut is not None:
            return
        self.cut = how
        if not self.muted:
            self.world.rec.log(self.dst, 'cut', x=self.delivered_bytes, kind=how)
        self.buf.clear()
        self.msgs.clear()
        if self.mode == 'tcp':
            if how == 'eof':
                self.reader.feed_eof()
            else:
                self.reader.set_exception(ConnectionResetError('link cut'))
        else:
            if how == 'eof':
                self.ws_in.feed_close()
            else:
                self.ws_in.feed_error(ConnectionResetError('link cut'))
        if how == 'error':
            self.broken_writer = True
        self.gate.open()


class FakeWriter:
    """stands in for asyncio.StreamWriter"""

    def __init__(self, out_dir: Direction, in_dir: Direction):
        self.out = out_dir
        self.inn = in_dir
        self.closed = False

    def write(self, data):
        if self.closed:
            raise ConnectionResetError('writer closed')
        self.out.write(data)

    def writelines(self, ds):
        for d in ds:
            self.write(d)

    async def drain(self):
        if self.out.broken_writer:
            raise ConnectionResetError('link cut')
        await self.out.gate.wait()

    def close(self):
        if not self.closed:
            self.closed = True
            if not self.out.muted or self.out.src == 'c':
                self.out.world.on_transport_closed(self.out.src)
            # closing our side is seen by the peer as EOF
            self.out.do_cut('eof')
            self.out.gate.open()

    def is_closing(self):
        return self.closed

    async def wait_closed(self):
        return

    def get_extra_info(self, name, default=None):
        return default


class NonBinary(bytes):
    """a websocket message that is not BINARY (TEXT / PING / PONG): a message transport has to skip it"""
    kind = 'TEXT'


class _Msg:
    def __init__(self, data):
        import aiohttp
        if isinstance(data, NonBinary):
            self.type = getattr(aiohttp.WSMsgType, data.kind)
            self.data = data.decode('latin-1') if data.kind == 'TEXT' else bytes(data)
        else:
            self.type = aiohttp.WSMsgType.BINARY
            self.data = data


class FakeWS:
    """stands in for an aiohttp websocket (both client and server response objects)"""

    def __init__(self, loop, out_dir: Direction, in_dir: Direction):
        self.loop = loop
        self.out = out_dir
        self.inn = in_dir
        self.q = asyncio.Queue()
        self.closed = False

    def feed(self, data):
        self.q.put_nowait(('m', data))

    def feed_close(self):
        self.q.put_nowait(('c', None))

    def feed_error(self, ex):
        self.q.put_nowait(('e', ex))

    def __aiter__(self):
        return self

    async def __anext__(self):
        k, v = await self.q.get()
        if k == 'm':
            return _Msg(v)
        if k == 'e':
            raise v
        raise StopAsyncIteration

    async def send_bytes(self, data):
        if self.closed:
            raise ConnectionResetError('websocket closed')
        self.out.send_message(data)
        await self.out.gate.wait()

    async def close(self):
        if not self.closed:
            self.closed = True
            if not self.out.muted or self.out.src == 'c':
                self.out.world.on_transport_closed(self.out.src)
            self.out.do_cut('eof')
            self.q.put_nowait(('c', None))
