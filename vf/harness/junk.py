"""Hostile input by class (C12).  Frames are built with the independent encoder, so the class is known by construction."""
import random

from . import wire

CLASSES = ['random_bytes', 'empty', 'short', 'truncated', 'unknown_type', 'unknown_stream', 'finished_stream', 'duplicate_request',
           'bad_continuation', 'setup_again', 'resume', 'conn_frame_on_stream', 'error_on_zero', 'request_n_zero', 'lease_unexpected',
           'ignore_flag_garbage', 'metadata_flag_no_length', 'huge_metadata_length', 'resume_ok', 'ext', 'non_binary_message']


def make(cls, p, dst, live, refs, w):
    """returns (list of frame bodies, offending stream id, is_setup_level)"""
    rnd = random.Random(p.get('r', 0))
    peer_parity = 1 if dst == 's' else 0       # ids the (hostile) peer of dst would open
    fresh = 1001 + (0 if peer_parity else 1) + 2 * rnd.randint(0, 50)
    own_parity_id = 1000 + (1 if dst == 'c' else 0) + 2 * rnd.randint(1, 50) + (1 if dst == 'c' else 0) * 0
    if cls == 'non_binary_message':
        # message transports only: a TEXT / PING / PONG websocket message between the BINARY ones (on a byte stream: a zero-length frame)
        if w.mode != 'msg':
            return [b''], 0, False
        from .link import NonBinary
        m = NonBinary(rnd.choice([b'hello', b'', wire.encode('CANCEL', sid=fresh)]))
        m.kind = rnd.choice(['TEXT', 'PING', 'PONG'])
        return [m], 0, False
    if cls == 'random_bytes':
        return [bytes(rnd.randrange(256) for _ in range(rnd.choice([6, 7, 9, 13, 40])))], 0, False
    if cls == 'empty':
        return [b''], 0, False
    if cls == 'short':
        return [bytes(rnd.randrange(256) for _ in range(rnd.randint(1, 5)))], 0, False
    if cls == 'truncated':
        full = rnd.choice([wire.encode('REQUEST_N', sid=fresh, n=5), wire.encode('ERROR', sid=fresh, code=0x201, d=b'x'),
                           wire.encode('KEEPALIVE', flags=wire.F_RESPOND, extra=b'\x00' * 8),
                           wire.encode('REQUEST_STREAM', sid=fresh, n=3, d=b'abc'),
                           wire.encode('SETUP', extra=wire.setup_extra(500, 1000)),
                           wire.encode('LEASE', extra=b'\x00\x00\x00\x05\x00\x00\x00\x02'),
                           wire.encode('PAYLOAD', sid=fresh, flags=wire.F_NEXT, md=b'mmmm', d=b'dd')])
        cut = rnd.randint(6, max(6, len(full) - 1))
        return [full[:cut]], fresh, False
    if cls == 'unknown_type':
        t = rnd.choice([0, 15, 16, 0x3E, 0x20])
        return [fresh.to_bytes(4, 'big') + bytes([(t << 2) & 0xFF, 0]) + b'zzzz'], fresh, False
    if cls == 'unknown_stream':
        sid = rnd.choice([fresh, own_parity_id])
        ft = rnd.choice(['PAYLOAD', 'CANCEL', 'REQUEST_N', 'ERROR', 'PAYLOAD'])
        if ft == 'PAYLOAD':
            b = wire.encode('PAYLOAD', sid=sid, flags=rnd.choice([wire.F_NEXT, wire.F_COMPLETE, wire.F_NEXT | wire.F_COMPLETE, wire.F_NEXT | wire.F_FOLLOWS]), d=b'junk')
        elif ft == 'CANCEL':
            b = wire.encode('CANCEL', sid=sid)
        elif ft == 'REQUEST_N':
            b = wire.encode('REQUEST_N', sid=sid, n=rnd.choice([1, 0x7FFFFFFF]))
        else:
            b = wire.encode('ERROR', sid=sid, code=rnd.choice([0x201, 0x202, 0x203, 0x204]), d=b'boo')
        return [b], sid, False
    if cls == 'finished_stream':
        done = [w.interaction(i).get('sid') for i in refs if w.interaction(i).get('sid') and w.interaction(i).get('sid') not in live]
        if not done:
            return None, 0, False
        sid = rnd.choice(done)
        b = rnd.choice([wire.encode('PAYLOAD', sid=sid, flags=wire.F_NEXT, d=b'late'), wire.encode('CANCEL', sid=sid),
                        wire.encode('REQUEST_N', sid=sid, n=3), wire.encode('ERROR', sid=sid, code=0x201, d=b'late')])
        return [b], sid, False
    if cls == 'duplicate_request':
        cand = [s for s in live if s % 2 == peer_parity and s != p.get('spare')]
        if not cand:
            return None, 0, False
        sid = rnd.choice(sorted(cand))
        ft = rnd.choice(['REQUEST_RESPONSE', 'REQUEST_STREAM', 'REQUEST_CHANNEL', 'REQUEST_FNF'])
        b = wire.encode(ft, sid=sid, n=3 if ft in ('REQUEST_STREAM', 'REQUEST_CHANNEL') else None, d=b'dup')
        return [b], sid, False
    if cls == 'bad_continuation':
        a = wire.encode('REQUEST_RESPONSE', sid=fresh, flags=wire.F_FOLLOWS, d=b'part1')
        b = wire.encode('REQUEST_RESPONSE', sid=fresh, d=b'part2') if rnd.random() < 0.4 else (
            wire.encode('REQUEST_STREAM', sid=fresh, n=2, d=b'part2') if rnd.random() < 0.5 else wire.encode('REQUEST_FNF', sid=fresh, d=b'part2'))
        return [a, b], fresh, False
    if cls == 'setup_again':
        return [wire.encode('SETUP', extra=wire.setup_extra(500, 10000), flags=rnd.choice([0, wire.F_LEASE, wire.F_RESUME if False else 0]))], 0, True
    if cls == 'resume':
        body = wire.encode('RESUME', extra=b'\x00\x01\x00\x00' + b'\x00\x02' + b'tk' + b'\x00' * 16)
        return [body], 0, True
    if cls == 'resume_ok':
        return [wire.encode('RESUME_OK', extra=b'\x00' * 8)], 0, True
    if cls == 'conn_frame_on_stream':
        ft = rnd.choice(['KEEPALIVE', 'METADATA_PUSH', 'LEASE'])
        if ft == 'KEEPALIVE':
            b = wire.encode('KEEPALIVE', sid=fresh, flags=wire.F_RESPOND, extra=b'\x00' * 8)
        elif ft == 'METADATA_PUSH':
            b = wire.encode('METADATA_PUSH', sid=fresh, md=b'pushed')
        else:
            b = wire.encode('LEASE', sid=fresh, extra=b'\x00\x00\x03\xe8\x00\x00\x00\x05')
        return [b], fresh, False
    if cls == 'error_on_zero':
        return [wire.encode('ERROR', sid=0, code=rnd.choice([0x101, 0x201, 0x001]), d=b'conn')], 0, True
    if cls == 'request_n_zero':
        cand = sorted(live)
        sid = rnd.choice(cand) if cand and rnd.random() < 0.5 else fresh
        return [wire.encode('REQUEST_N', sid=sid, n=0)], sid, False
    if cls == 'lease_unexpected':
        # a LEASE although no lease was negotiated: whatever it grants (nothing / one request / already expired), the requests the
        # receiving endpoint makes afterwards must not be held back by it
        ttl = rnd.choice([0, 0, 1000, 1, 0x7FFFFFFF])
        n = rnd.choice([0, 0, 1, 5])
        return [wire.encode('LEASE', extra=ttl.to_bytes(4, 'big') + n.to_bytes(4, 'big'))], 0, True
    if cls == 'ignore_flag_garbage':
        return [fresh.to_bytes(4, 'big') + bytes([(8 << 2) | 0x02, 0]) + b'\x01'], fresh, False
    if cls == 'metadata_flag_no_length':
        return [fresh.to_bytes(4, 'big') + bytes([(4 << 2) | 0x01, 0]) + b'\x00'], fresh, False
    if cls == 'huge_metadata_length':
        return [fresh.to_bytes(4, 'big') + bytes([(4 << 2) | 0x01, 0]) + b'\xff\xff\xff' + b'abc'], fresh, False
    if cls == 'ext':
        return [fresh.to_bytes(4, 'big') + bytes([(0x3F << 2) & 0xFF, 0]) + b'\x00\x00\x00\x01ext'], fresh, False
    return None, 0, False
