"""Virtual-time asyncio event loop, stepped by the driver.  No sockets, no wall clock, no threads.

time() is a counter; it only moves when the driver calls advance().  run_ready() runs loop iterations until no
callback is ready (timers that are not yet due do not fire).  Every run has an iteration budget.
"""
import asyncio
import datetime as _dt
import selectors


class _NullSelector(selectors.BaseSelector):
    def __init__(self):
        self._map = {}

    def register(self, fileobj, events, data=None):
        key = selectors.SelectorKey(fileobj, fileobj if isinstance(fileobj, int) else fileobj.fileno(), events, data)
        self._map[key.fd] = key
        return key

    def unregister(self, fileobj):
        fd = fileobj if isinstance(fileobj, int) else fileobj.fileno()
        return self._map.pop(fd, None)

    def modify(self, fileobj, events, data=None):
        self.unregister(fileobj)
        return self.register(fileobj, events, data)

    def select(self, timeout=None):
        return []

    def close(self):
        self._map.clear()

    def get_map(self):
        return self._map


class Budget(Exception):
    pass


class VLoop(asyncio.SelectorEventLoop):
    def __init__(self):
        super().__init__(selector=_NullSelector())
        self._vt = 0.0
        self.iterations = 0
        self.max_iterations = 200000

    def time(self):
        return self._vt

    def enter(self):
        asyncio.set_event_loop(self)
        asyncio.events._set_running_loop(self)

    def leave(self):
        asyncio.events._set_running_loop(None)

    def _one(self):
        self.iterations += 1
        if self.iterations > self.max_iterations:
            raise Budget('iteration budget exhausted')
        self.call_soon(self.stop)
        # driver code runs with this loop marked as 'running' (the library calls asyncio.create_task from
        # synchronous constructors); the mark is lifted while the loop really runs one iteration
        saved = asyncio.events._get_running_loop()
        asyncio.events._set_running_loop(None)
        try:
            self.run_forever()
        finally:
            asyncio.events._set_running_loop(saved)

    def _due(self):
        w = self._next_when()
        return w is not None and w <= self._vt + self._clock_resolution

    def _next_when(self):
        # skip cancelled timers at the head
        while self._scheduled and self._scheduled[0]._cancelled:
            import heapq
            h = heapq.heappop(self._scheduled)
            h._scheduled = False
            self._timer_cancelled_count = max(0, self._timer_cancelled_count - 1)
        return self._scheduled[0]._when if self._scheduled else None

    def run_ready(self, cap=20000):
        """run until nothing is ready at the current virtual time"""
        n = 0
        self._one()
        while self._ready or self._due():
            self._one()
            n += 1
            if n > cap:
                raise Budget('livelock: still ready after %d iterations at t=%s' % (cap, self._vt))

    def advance(self, dt):
        """move the virtual clock forward by dt seconds, firing timers in order"""
        target = self._vt + dt
        self.run_ready()
        while True:
            w = self._next_when()
            if w is None or w > target:
                break
            if w > self._vt:
                self._vt = w
            self.run_ready()
        self._vt = target
        self.run_ready()

    def next_timer(self):
        return self._next_when()


class VDateTime:
    """stand-in for the name `datetime` in modules that call datetime.now(); bound to a VLoop"""
    _base = _dt.datetime(2030, 1, 1)

    def __init__(self, loop):
        self._loop = loop

    def now(self, tz=None):
        return self._base + _dt.timedelta(seconds=self._loop.time())

    def __call__(self, *a, **k):
        return _dt.datetime(*a, **k)


def install_virtual_datetime(loop):
    import rsocket.lease
    import rsocket.rsocket_client
    v = VDateTime(loop)
    rsocket.lease.datetime = v
    rsocket.rsocket_client.datetime = v
    return v
