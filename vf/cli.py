"""./check <PROPERTY> [--tier quick|thorough] [--seed N]   |   ./check replay <path>   |   ./check selftest   |   ./check extra"""
import argparse
import importlib
import os
import sys
import traceback

from . import common

LEVELS = {
    'C02': 'exploration', 'C18': 'exploration',
}


def main(argv=None):
    ap = argparse.ArgumentParser()
    ap.add_argument('prop')
    ap.add_argument('path', nargs='*')
    ap.add_argument('--tier', default=None)
    ap.add_argument('--seed', default=None)
    ap.add_argument('--keep', action='store_true')
    a = ap.parse_args(argv)
    if a.tier:
        os.environ['VERIF_TIER'] = a.tier
    if a.seed is not None:
        os.environ['VERIF_SEED'] = str(a.seed)
    if common.tier() not in ('quick', 'thorough'):
        os.environ['VERIF_TIER'] = 'quick'
    os.environ.setdefault('PYTHONHASHSEED', '0')
    if common.REPO not in sys.path:
        sys.path.insert(0, common.REPO)
    import logging
    logging.disable(logging.CRITICAL)
    rc = 2
    try:
        if a.prop == 'selftest':
            from . import selftest
            rc = selftest.main(a.path)
        elif a.prop == 'replay':
            from . import replay
            rc = replay.main(a.path[0] if a.path else None)
        elif a.prop == 'extra':
            from .props import extra
            rc = extra.run()
        else:
            pid = a.prop.upper()
            mod = importlib.import_module('vf.props.' + pid.lower())
            v = common.Verdict(pid, LEVELS.get(pid, 'model_checking'))
            mod.run(v)
            rc = v.finish()
            if rc == 0:
                print('OK property=%s tier=%s seed=%d wall=%.1fs' % (pid, common.tier(), common.seed(), common.elapsed()))
    except common.Machinery as e:
        print('MACHINERY-FAILURE: %s' % e)
        rc = 2
    except Exception:
        traceback.print_exc()
        print('MACHINERY-FAILURE: unexpected exception in the check itself')
        rc = 2
    finally:
        if not a.keep and rc == 0:
            common.cleanup_workdir()
    return rc


if __name__ == '__main__':
    sys.exit(main())
