"""./check replay <file>: re-drive the real code with the recorded scenario(s) of a replay file and re-validate.
Prints, for each replayed failure, what the application / the wire shows around the failing event.  Exit 1 if at least one of the
recorded failures reproduces on the current /repo tree, 0 if none does, 2 on machinery problems."""
import json
import os
import subprocess
import sys

from . import common, trace


def _run_conn(rp):
    env = dict(os.environ)
    env['PYTHONPATH'] = common.ROOT + os.pathsep + common.REPO
    work = common.workdir()
    inp = os.path.join(work, 'replay_in.json')
    out = os.path.join(work, 'replay_out.json')
    json.dump({'opts': rp['opts'], 'prog': rp['prog']}, open(inp, 'w'))
    code = ("import json,sys; from vf.harness import prog; x=json.load(open(%r)); r=prog.run_program(x['opts'], x['prog']); "
            "json.dump(r, open(%r,'w'))" % (inp, out))
    p = subprocess.run([common.PY, '-c', code], env=env, cwd=common.ROOT, stdout=subprocess.PIPE, stderr=subprocess.STDOUT, text=True, timeout=300)
    if p.returncode != 0:
        raise common.Machinery('replay worker failed: ' + p.stdout[-2000:])
    return json.load(open(out))


def main(path):
    if not path or not os.path.exists(path):
        print('usage: ./check replay <replay file>')
        return 2
    d = json.load(open(path))
    prop = d.get('property')
    reproduced = 0
    seen = set()
    for f in d.get('failures', []):
        rp = f.get('replay') or {}
        key = json.dumps(rp, sort_keys=True, default=str)[:2000]
        if key in seen:
            continue
        seen.add(key)
        if len(seen) > 5:
            break
        print('=== %s  %s' % (f.get('clause'), f.get('detail', '')[:300]))
        if rp.get('kind') == 'conn':
            r = _run_conn(rp)
            res, _ = trace.validate([{'tid': 1, 'events': r['events']}])
            fails = res.get(1, [])
            mine = [(c, i) for (c, i) in fails if c == f.get('clause')]
            print('    program: %s' % json.dumps(rp['prog'])[:600])
            print('    status=%s; clauses failing now: %s' % (r['status'], sorted(set(c for c, i in fails))))
            ev = [e for e in r['events'] if e['ev'] != 'bytes_in']
            for (c, i) in mine[:2]:
                print('    around event #%d:' % i)
                for k in range(max(0, i - int(os.environ.get('VERIF_REPLAY_WINDOW', '7'))), min(len(ev), i + 2)):
                    e = ev[k]
                    print('      %s%3d %s' % ('>>' if k == i - 1 else '  ', k + 1, {a: b for a, b in e.items() if b not in (0, '', -1, []) and a != 'i'}))
            if mine or r['status'] != 'ok':
                reproduced += 1
        elif rp.get('kind') == 'suite':
            from .props import suitetraces
            units, tail = suitetraces.record(select=['"%s"' % rp['test']])
            traces = [{'tid': k, 'events': [dict(e, kind='tcp') if e['ev'] == 'meta' else e for e in u['events']]} for k, (t, u) in enumerate(units, 1)]
            res, _ = trace.validate(traces)
            for k, (t, u) in enumerate(units, 1):
                fails = sorted(set(c for c, i in res.get(k, [])))
                print('    %s endpoint (%s), %d events: clauses failing now: %s' % (u['ep'], u['cls'], len(u['events']), fails))
                if f.get('clause') in fails:
                    reproduced += 1
                    for (c, i) in res.get(k, []):
                        if c == f.get('clause'):
                            for e in u['events'][max(0, i - 8):i + 1]:
                                print('      %s%3d %s' % ('>>' if e['i'] == i else '  ', e['i'], {a: b for a, b in e.items() if b not in (0, '', -1, []) and a != 'i'}))
                            break
        elif rp.get('kind') == 'dispatch':
            from .props import dispatch

            class _V:
                coverage = {}

                def add(self, *a):
                    pass

                def add_failure(self, *a):
                    pass
            rows = dispatch.table(_V(), prop)
            row = [r for r in rows if r['c'] == rp['case']][0]
            obs = dispatch.run_row(rp['ep'], rp['case'], rp.get('mode', 'tcp'), rp.get('chunk'))
            now = dispatch.judge(prop, rp['ep'], rp['case'], row, obs)
            print('    row %s -> table %s' % (rp['case'], row['r']))
            print('    endpoint %s now: told %s, queued %s, registered %s, probes %s' % (rp['ep'], obs['told'], obs['out'], obs['reg'], obs['probe_futures']))
            print('    clauses failing now: %s' % sorted(set(c for c, _ in now if c != 'DRIFT')))
            if any(c == f.get('clause') for c, _ in now):
                reproduced += 1
        else:
            print('    (component-level case; re-run the property check to re-evaluate) %s' % json.dumps(rp, default=str)[:400])
            rc = subprocess.run([os.path.join(common.ROOT, 'check'), prop, '--tier', 'quick'], env=dict(os.environ, VERIF_NO_EVIDENCE='1'),
                                stdout=subprocess.PIPE, stderr=subprocess.STDOUT, text=True).returncode
            if rc == 1:
                reproduced += 1
            break
    print('replay: %d recorded failure(s) reproduce on the current tree' % reproduced)
    return 1 if reproduced else 0
