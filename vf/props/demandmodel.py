"""Demand.tla: the demand side of the library's front ends in isolation - the Rx v3 / ReactiveX v4 clients' request_stream /
request_channel result observables (RxSubscriber + trigger task), AwaitableRSocket's CollectorSubscriber, and the handler adapters'
RxSubscriberFromObserver - each with a request limit L, fed by a legal publisher (never more than requested).

(A) TLC checks Demand.tla exhaustively (L in 1..3, streams of 0..6 elements, the three endings, disposal at every point):
    BatchIsLimit, OutstandingWithinLimit, NoStall, Transparent, CancelOnce.
(B) spec -> code: every transition is replayed on the real front-end classes over a fake RSocket whose request_stream() /
    request_channel() return a recording publisher (initial_request_n, subscribe, request(n), cancel()), under the virtual-time loop.
    Oracle on the real observations: every batch equals the limit, outstanding demand never exceeds it, a live stream at quiescence has
    demand outstanding, the application gets element for element and the same terminal signal, disposal cancels a live stream exactly
    once and silences it.  A mere mismatch with the specification state is DRIFT.
"""
from .. import common, tlc
from . import graphreplay


class _Subscription:
    def __init__(self, real):
        self.real = real

    def request(self, n):
        self.real.reqs.append(n)
        if self.real.term != 'none':
            self.real.late_reqs += 1

    def cancel(self):
        self.real.cancels += 1


class _Publisher:
    """what RSocket.request_stream() / request_channel() return"""

    def __init__(self, real):
        self.real = real

    def initial_request_n(self, n):
        self.real.initial = n
        return self

    def subscribe(self, subscriber):
        self.real.subscriber = subscriber
        self.real.subscribed += 1
        subscriber.on_subscribe(_Subscription(self.real))


class _FakeRSocket:
    def __init__(self, real):
        self.real = real

    def request_stream(self, payload):
        return _Publisher(self.real)

    def request_channel(self, payload, publisher=None, sending_done=None):
        return _Publisher(self.real)


class RealDemand:
    KIND = 'x_client'
    P = 'C20'

    def __init__(self):
        import logging
        logging.disable(logging.CRITICAL)
        from ..harness import vloop
        self.loop = vloop.VLoop()
        self.loop.enter()
        self.L = self.N = 0
        self.E = 'none'
        self.initial = None
        self.reqs = []
        self.late_reqs = 0
        self.cancels = 0
        self.subscribed = 0
        self.subscriber = None
        self.recv = 0
        self.term = 'none'           # what the publisher signalled
        self.app = []                # what the application was told: ('next', data) / ('complete',) / ('error', name)
        self.app_at_dispose = None
        self.disposed = False
        self.disposable = None
        self.task = None

    def configure(self, l, n, e):
        self.L, self.N, self.E = l, n, e

    def _observer_args(self):
        return dict(on_next=lambda p: self.app.append(('next', bytes(p.data))),
                    on_error=lambda ex: self.app.append(('error', type(ex).__name__)),
                    on_completed=lambda: self.app.append(('complete',)))

    def subscribe(self):
        from rsocket.payload import Payload
        k = self.KIND
        fake = _FakeRSocket(self)
        if k in ('x_client', 'x_client_channel'):
            from rsocket.reactivex.reactivex_client import ReactiveXClient
            c = ReactiveXClient(fake)
            obs = c.request_stream(Payload(b'q'), request_limit=self.L) if k == 'x_client' else c.request_channel(Payload(b'q'), request_limit=self.L)
            self.disposable = obs.subscribe(**self._observer_args())
        elif k in ('rx_client', 'rx_client_channel'):
            from rsocket.rx_support.rx_rsocket import RxRSocket
            c = RxRSocket(fake)
            obs = c.request_stream(Payload(b'q'), request_limit=self.L) if k == 'rx_client' else c.request_channel(Payload(b'q'), request_limit=self.L)
            self.disposable = obs.subscribe(**self._observer_args())
        elif k in ('collector', 'collector_channel'):
            import asyncio
            from rsocket.awaitable.awaitable_rsocket import AwaitableRSocket
            a = AwaitableRSocket(fake)
            co = a.request_stream(Payload(b'q'), limit_rate=self.L) if k == 'collector' else a.request_channel(Payload(b'q'), limit_rate=self.L)
            self.task = asyncio.ensure_future(co)
            self.loop.run_ready()
        elif k in ('x_from_observer', 'rx_from_observer'):
            if k == 'x_from_observer':
                from reactivex import Observer
                from rsocket.reactivex.from_rsocket_publisher import RxSubscriberFromObserver
            else:
                from rx.core import Observer
                from rsocket.rx_support.from_rsocket_publisher import RxSubscriberFromObserver
            a = self._observer_args()
            sub = RxSubscriberFromObserver(Observer(a['on_next'], a['on_error'], a['on_completed']), self.L)
            _Publisher(self).subscribe(sub)
        else:
            raise common.Machinery('unknown demand kind %r' % k)

    def run(self):
        self.loop.run_ready()

    def next(self):
        from rsocket.payload import Payload
        k = self.recv + 1
        flagged = (k == self.N and self.E == 'flag')
        self.recv = k
        if flagged:
            self.term = 'complete'
        self.subscriber.on_next(Payload(b'e%d' % k), flagged)

    def complete(self):
        self.term = 'complete'
        self.subscriber.on_complete()

    def error(self):
        self.term = 'error'
        self.subscriber.on_error(RuntimeError('stream failed'))

    def dispose(self):
        self.disposed = True
        self.app_at_dispose = len(self.app)
        self.disposable.dispose()
        self.loop.run_ready()

    # ---- observation
    def _app(self):
        if self.KIND.startswith('collector'):
            vals = list(self.subscriber.values) if self.subscriber is not None else []
            app = [('next', bytes(p.data)) for p in vals if (p.data or p.metadata)]
            if self.task is not None and self.task.done():
                self.loop.run_ready()
                if self.task.cancelled():
                    app.append(('cancelled',))
                elif self.task.exception() is not None:
                    app.append(('error', type(self.task.exception()).__name__))
                else:
                    app.append(('complete',))
            elif self.subscriber is not None and self.subscriber.is_done.is_set():
                app.append(('error', 'x') if self.subscriber.error else ('complete',))
            return app
        return self.app

    def observe(self):
        app = self._app()
        t = 'none'
        for s in app:
            if s[0] in ('complete', 'error'):
                t = s[0]
        return {'initial': self.initial or 0, 'reqs': list(self.reqs), 'out': sum(1 for s in app if s[0] == 'next'), 'appTerm': t,
                'cancels': self.cancels, 'lateReq': self.late_reqs}

    def oracle(self, quiet, live_spec):
        P, L = self.P, self.L
        app = self._app()
        if self.subscribed > 1:
            return ('%s.demand_subscribes_once' % P, 'the front end subscribed %d times to the response publisher' % self.subscribed)
        if (self.initial is not None and self.initial != L) or any(n != L for n in self.reqs):
            return ('%s.batch_is_request_limit' % P, 'request limit %d, initial_request_n %r, request(n) calls %r' % (L, self.initial, self.reqs))
        requested = (self.initial or 0) + sum(self.reqs)
        if requested - self.recv > L:
            return ('%s.outstanding_demand_within_limit' % P, '%d requested, %d received: outstanding demand above the limit %d' % (requested, self.recv, L))
        live = self.subscriber is not None and self.term == 'none' and not self.disposed
        if quiet and live and requested - self.recv <= 0:
            return ('%s.demand_does_not_stall' % P, 'live stream at quiescence: %d requested, %d received, no demand outstanding (limit %d)' % (
                requested, self.recv, L))
        if self.disposed:
            if len(self.app) > self.app_at_dispose:
                return ('%s.silent_after_dispose' % P, 'the application was signalled %r after it disposed the result' % (self.app[self.app_at_dispose],))
            want = 1 if (self.term_at_dispose == 'none' and self.sub_at_dispose) else 0
            if self.cancels != want:
                return ('%s.dispose_cancels_exactly_once' % P, '%d cancel() call(s) on the subscription after dispose (stream %s when disposed)' % (
                    self.cancels, 'live' if want else 'not live'))
        else:
            if self.cancels:
                return ('%s.dispose_cancels_exactly_once' % P, 'cancel() without a dispose')
            got = [s for s in app if s[0] == 'next']
            if quiet and got != [('next', b'e%d' % i) for i in range(1, self.recv + 1)]:
                return ('%s.observable_element_for_element' % P, 'publisher handed over %d element(s), the application got %r' % (self.recv, got[:8]))
            t = [s[0] for s in app if s[0] in ('complete', 'error', 'cancelled')]
            if quiet and t != ([] if self.term == 'none' else [self.term]):
                return ('%s.terminal_kind_preserved' % P, 'publisher signalled %s, the application was told %r' % (self.term, t))
        return None

    term_at_dispose = 'none'
    sub_at_dispose = False

    def close(self):
        try:
            import asyncio
            for t in asyncio.all_tasks(self.loop):
                t.cancel()
            self.loop.run_ready()
        except BaseException:
            pass
        try:
            self.loop.leave()
            self.loop.close()
        except BaseException:
            pass


def _mk(kind, prop):
    return type('RealDemand_%s' % kind, (RealDemand,), {'KIND': kind, 'P': prop})


def _state(vs):
    return tlc.parse_value(vs['d'])


def _apply(real, name, args, before):
    if name == 'Configure':
        real.configure(int(args[0]), int(args[1]), args[2])
    elif name == 'Subscribe':
        real.subscribe()
    elif name == 'Run':
        real.run()
    elif name == 'Next':
        real.next()
    elif name == 'Complete':
        real.complete()
    elif name == 'Error':
        real.error()
    elif name == 'Dispose':
        real.term_at_dispose = real.term
        real.sub_at_dispose = real.subscriber is not None
        real.dispose()
    else:
        raise common.Machinery('unknown Demand action %r' % name)
    return None


def _quiet(exp, async_trigger):
    return not (async_trigger and (exp['sub'] == 'starting' or exp['owed']))


def _compare_for(async_trigger):
    def _compare(real, exp, obs):
        if exp['sub'] in ('unconfigured', 'no'):
            return None
        q = _quiet(exp, async_trigger)
        bad = real.oracle(q, None)
        if bad:
            return bad
        o = real.observe()
        for key in ('initial', 'cancels', 'lateReq'):
            if o[key] != exp[key]:
                return ('DRIFT', '%s is %s, the specification says %s' % (key, o[key], exp[key]))
        if o['reqs'] != list(exp['reqs']):
            return ('DRIFT', 'request(n) calls %r, the specification says %r' % (o['reqs'], list(exp['reqs'])))
        if not exp['disposed'] and q and (o['out'] != exp['out'] or o['appTerm'] != exp['appTerm']):
            return ('DRIFT', 'application got %d element(s) / %s, the specification says %d / %s' % (o['out'], o['appTerm'], exp['out'], exp['appTerm']))
        return None
    return _compare


KINDS = {
    'Demand_client.cfg': (True, ['x_client', 'rx_client', 'x_client_channel', 'rx_client_channel']),
    'Demand_collector.cfg': (False, ['collector', 'collector_channel']),
    'Demand_fromobserver.cfg': (False, ['x_from_observer', 'rx_from_observer']),
}


def check(v, prop, cfgs=None):
    thorough = common.tier() == 'thorough'
    cfgs = cfgs or sorted(KINDS)
    for cfg in cfgs:
        r = tlc.run('Demand', cfg, workers=2, timeout=600, name='dem_' + cfg.replace('.cfg', ''))
        if r.timed_out or not r.finished:
            raise common.Machinery('TLC did not finish on Demand/%s: %s' % (cfg, r.out[-1500:]))
        if r.violated:
            v.add_failure('%s.design_%s' % (prop, r.violated), {'cfg': cfg}, 'TLC: %s violated in the demand model %s' % (r.violated, cfg))
        v.add('states', r.distinct)
        v.add('transitions', r.generated)
        v.coverage.setdefault('mc_configs', {})[cfg] = {'states': r.distinct, 'transitions': r.generated, 'depth': r.depth, 'wall_s': round(r.wall, 1)}
    desc = lambda s: 'L=%s N=%s ending=%s sub=%s initial=%s reqs=%s recv=%s term=%s disposed=%s' % (
        s['lim'], s['cnt'], s['ending'], s['sub'], s['initial'], list(s['reqs']), s['recv'], s['term'], s['disposed'])
    for cfg in cfgs:
        async_trigger, kinds = KINDS[cfg]
        if not thorough:
            kinds = kinds[:2]
        for kind in kinds:
            graphreplay.replay(v, 'Demand', cfg, _mk(kind, prop), _apply, _compare_for(async_trigger), _state, prop=prop,
                               label='demand_%s' % kind, describe=desc)
