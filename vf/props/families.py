"""Scenario families per connection-level property (DESIGN section 6).  quick/thorough = number of scenarios."""

ALL_KINDS = ['rr', 'rr', 'stream', 'stream', 'channel', 'channel', 'fnf', 'push']

FAMILIES = {
    'C01': [
        {'family': 'tlc', 'knobs': {}, 'quick': 320, 'thorough': 3200, 'first': 500000},
        {'family': 'tlccover', 'knobs': {}, 'quick': 0, 'thorough': 0, 'first': 700000},
        {'family': 'tlccover2', 'knobs': {}, 'quick': 0, 'thorough': 0, 'first': 800000},
        {'family': 'core', 'knobs': {}, 'quick': 350, 'thorough': 5000},
        {'family': 'idwrap', 'knobs': {}, 'quick': 200, 'thorough': 3000, 'first': 300000},
        {'family': 'core', 'knobs': {'frag': 64, 'max_inter': 4, 'min_inter': 2, 'p_cancel': 0.0, 'p_error': 0.02}, 'quick': 150,
         'thorough': 3000, 'first': 100000},
        # requests parked while no lease is available must still be delivered, each exactly once, when leases arrive
        {'family': 'lease', 'knobs': {}, 'quick': 150, 'thorough': 2500, 'first': 400000},
    ],
    'C05': [
        {'family': 'core', 'knobs': {'frag': 64, 'gating': True, 'min_steps': 20, 'max_steps': 60, 'sources': ['scripted'],
                                     'kinds': ['stream', 'channel', 'channel', 'rr']}, 'quick': 300, 'thorough': 5000},
        {'family': 'core', 'knobs': {'frag': 100, 'mode': 'msg'}, 'quick': 100, 'thorough': 2000, 'first': 100000},
        # an interaction is ended while a fragmented frame of it is half-written (the CANCEL / ERROR is handled with the sender blocked)
        {'family': 'midframe', 'knobs': {}, 'quick': 200, 'thorough': 3000, 'first': 950000},
        # ... and the emitter itself goes on (next element, completion) while the sender is inside the write of the j-th fragment of its frame,
        # the last one included: what it signalled reaches the peer (C05.terminal_not_lost)
        {'family': 'midframe', 'knobs': {'p_own_end': 1.0}, 'quick': 150, 'thorough': 2500, 'first': 960000},
        {'family': 'lease', 'knobs': {'lease_cancel': True}, 'quick': 150, 'thorough': 2500, 'first': 300000, 'also': ('C08.first_frame_is_request',)},
        {'family': 'core', 'knobs': {}, 'quick': 100, 'thorough': 2000, 'first': 200000},
        {'family': 'tlccover2', 'knobs': {}, 'quick': 0, 'thorough': 0, 'first': 800000},
    ],
    'C06': [
        {'family': 'core', 'knobs': {'kinds': ['stream', 'channel'], 'sources': ['generator', 'async_generator'], 'p_cancel': 0.03,
                                     'p_error': 0.0}, 'quick': 400, 'thorough': 6000},
        # observable-backed publishers (plain observables and back-pressure factories behind the Rx / ReactiveX handler adapters)
        # driven by a core-API requester whose grants pile up or arrive while a batch is being produced
        {'family': 'adapters_mixed', 'knobs': {}, 'quick': 300, 'thorough': 5000, 'first': 200000},
    ],
    'C07': [
        {'family': 'tlc', 'knobs': {}, 'quick': 320, 'thorough': 3200, 'first': 500000},
        {'family': 'tlccover', 'knobs': {}, 'quick': 0, 'thorough': 0, 'first': 700000},
        {'family': 'core', 'knobs': {'p_cancel': 0.15, 'p_error': 0.15}, 'quick': 400, 'thorough': 6000},
        {'family': 'cut', 'knobs': {}, 'quick': 300, 'thorough': 5000, 'first': 100000},
        # the terminal frame is the last thing read before the loss (terminal signal and loss handled in one receiver step)
        {'family': 'cut', 'knobs': {'p_terminal_race': 1.0, 'faults': ['eof', 'eof', 'error']}, 'quick': 300, 'thorough': 4000, 'first': 200000},
        # ... or is handled while a reconnect / close requested locally is tearing the connection down
        {'family': 'reconnect', 'knobs': {'who': 'app', 'causes': ['healthy'], 'p_teardown_race': 1.0, 'min_pending': 1, 'p_stale_fragments': 0.0,
                                          'kinds': ['stream', 'stream', 'rr', 'channel']}, 'quick': 300, 'thorough': 4000, 'first': 300000},
    ],
    'C13': [
        {'family': 'core', 'knobs': {'max_steps': 20}, 'quick': 120, 'thorough': 1500},
        {'family': 'hostile', 'knobs': {'classes': ['duplicate_request'], 'p_raise': 0.0}, 'quick': 120, 'thorough': 1500, 'first': 100000},
        # ids wrap around and are used again within one connection (id space reduced to 0..7 / 0..15)
        {'family': 'idwrap', 'knobs': {}, 'quick': 300, 'thorough': 5000, 'first': 300000},
        # ... while subscribers / callers of interactions that ended long ago still tidy up (a late cancel() / request() / future.cancel()
        # must not touch the stream that has the id by now)
        {'family': 'idwrap', 'knobs': {'late_actions': True}, 'quick': 300, 'thorough': 5000, 'first': 400000},
    ],
    'C08': [
        {'family': 'tlc', 'knobs': {}, 'quick': 320, 'thorough': 3200, 'first': 500000},
        {'family': 'tlccover', 'knobs': {}, 'quick': 0, 'thorough': 0, 'first': 700000},
        {'family': 'core', 'knobs': {}, 'quick': 300, 'thorough': 5000},
        {'family': 'core', 'knobs': {'late_actions': True, 'p_cancel': 0.2, 'p_bad_n': 0.06}, 'quick': 150, 'thorough': 2500, 'first': 100000},
        # the application cancels / requests more on an interaction whose request frame is still waiting for a lease
        {'family': 'lease', 'knobs': {'lease_cancel': True}, 'quick': 150, 'thorough': 2500, 'first': 300000},
        {'family': 'core', 'knobs': {'late_actions': True, 'p_cancel': 0.3, 'p_auto_request': 0.8, 'p_cancel_race': 0.8,
                                     'kinds': ['stream', 'stream', 'channel']}, 'quick': 150, 'thorough': 2500, 'first': 200000},
        # the connection is replaced while channels (with a live application publisher), streams and requests are pending: every frame
        # on the NEW connection belongs to an interaction opened on it
        {'family': 'reconnect', 'knobs': {'min_pending': 1, 'kinds': ['channel', 'channel', 'stream', 'rr'], 'p_stale_fragments': 0.1},
         'quick': 200, 'thorough': 3000, 'first': 300000},
    ],
    'C09': [
        {'family': 'tlc', 'knobs': {}, 'quick': 320, 'thorough': 3200, 'first': 500000},
        {'family': 'tlccover', 'knobs': {}, 'quick': 0, 'thorough': 0, 'first': 700000},
        {'family': 'tlccover2', 'knobs': {}, 'quick': 0, 'thorough': 0, 'first': 800000},
        {'family': 'core', 'knobs': {'p_cancel': 0.35, 'kinds': ['rr', 'stream', 'stream', 'channel', 'channel']}, 'quick': 400,
         'thorough': 6000},
        # cancelling through the Rx front ends (disposal at every moment, incl. the loop turn of subscribe())
        {'family': 'adapters', 'knobs': {'p_dispose': 0.6}, 'quick': 200, 'thorough': 3000, 'first': 300000},
    ],
    'C11': [
        {'family': 'cut', 'knobs': {}, 'quick': 500, 'thorough': 8000},
        # the loss follows a REQUEST / a terminal frame in the same read (handler just invoked, tasks created but not yet run)
        {'family': 'cut', 'knobs': {'p_request_race': 0.6, 'p_terminal_race': 1.0, 'faults': ['eof', 'eof', 'error']}, 'quick': 300,
         'thorough': 4000, 'first': 200000},
        # the loss / close() finds the sender inside the write of a (fragmented) frame
        {'family': 'cut', 'knobs': {'p_midwrite': 1.0}, 'quick': 200, 'thorough': 3000, 'first': 900000},
        # ... and with the interactions driven through the Rx / ReactiveX front ends
        {'family': 'adapters_cut', 'knobs': {}, 'quick': 250, 'thorough': 4000, 'first': 400000},
        # the connection ends while requests are waiting for a lease
        {'family': 'lease', 'knobs': {'end_with_loss': True}, 'quick': 150, 'thorough': 2500, 'first': 800000},
        # close() called from inside on_keepalive_timeout / on_close
        {'family': 'close_cb', 'knobs': {}, 'quick': 200, 'thorough': 3000, 'first': 700000},
        # close() while the FIRST connect is still under way (transport provider / transport.connect() suspended, SETUP not sent yet)
        {'family': 'setup_client', 'knobs': {'p_early': 1.0, 'early': ['close']}, 'quick': 150, 'thorough': 2000, 'first': 950000},
        # explicit close() while a reconnect the application asked for is under way
        {'family': 'reconnect', 'knobs': {'who': 'app', 'p_close_race': 1.0, 'p_stale_fragments': 0.0}, 'quick': 200, 'thorough': 3000, 'first': 600000},
    ],
    'C12': [
        {'family': 'hostile', 'knobs': {}, 'quick': 500, 'thorough': 8000},
        {'family': 'hostile', 'knobs': {'p_raise': 0.8}, 'quick': 200, 'thorough': 3000, 'first': 100000},
    ],
    'C14': [
        {'family': 'lease', 'knobs': {}, 'quick': 400, 'thorough': 6000},
        # a lease belongs to its connection: reconnects while leases are held / requests are waiting
        {'family': 'lease', 'knobs': {'p_reconnect': 0.12}, 'quick': 250, 'thorough': 4000, 'first': 100000},
    ],
    'C15': [
        {'family': 'keepalive', 'knobs': {}, 'quick': 400, 'thorough': 6000},
        {'family': 'keepalive2', 'knobs': {}, 'quick': 150, 'thorough': 2000, 'first': 100000},
        # keep-alive across connections: the time-out handler reconnects; the new connection must send its keep-alives every
        # period and detect the next silence again
        {'family': 'reconnect', 'knobs': {'who': 'on_timeout', 'p_stale_fragments': 0.0}, 'quick': 200, 'thorough': 3000, 'first': 200000},
    ],
    'C16': [
        {'family': 'setup_client', 'knobs': {}, 'quick': 400, 'thorough': 6000},
        {'family': 'setup_server', 'knobs': {}, 'quick': 200, 'thorough': 2000, 'first': 100000},
    ],
    'C17': [
        {'family': 'reconnect', 'knobs': {}, 'quick': 400, 'thorough': 6000},
        # the application keeps issuing requests while the reconnect is under way
        {'family': 'reconnect', 'knobs': {'who': 'app', 'p_window': 1.0, 'p_fnf_then_request': 0.6, 'p_stale_fragments': 0.0, 'p_teardown_race': 0.0},
         'quick': 300, 'thorough': 4000, 'first': 200000},
        # the next transport cannot be connected (server down): the application retries from on_connection_error
        {'family': 'reconnect', 'knobs': {'p_connect_fail': 1.0, 'p_stale_fragments': 0.0}, 'quick': 200, 'thorough': 3000, 'first': 300000},
        # reconnect() while the FIRST connect is still under way
        {'family': 'setup_client', 'knobs': {'p_early': 1.0, 'early': ['reconnect']}, 'quick': 150, 'thorough': 2000, 'first': 950000},
        # a lease-honouring client reconnects while requests are waiting for a lease: "requests issued afterwards are served" once the new
        # connection's LEASE allows them (whatever the previous connection left behind)
        {'family': 'lease', 'knobs': {'p_reconnect': 0.2}, 'quick': 250, 'thorough': 4000, 'first': 500000,
         'also': ('C14.released_when_lease_allows', 'C14.fifo_release', 'C14.no_request_before_first_lease', 'C01.all_delivered_at_quiescence',
                  'C01.request_delivered_once_to_matching_handler')},
        # after the reconnect the application re-subscribes first and releases what it held of the old connection afterwards (a late
        # cancel() / request() / future.cancel() on interactions the reconnect has failed): the new requests are served all the same
        {'family': 'reconnect', 'knobs': {'who': 'app', 'min_pending': 1, 'kinds': ['stream', 'stream', 'rr'], 'p_late_tidy': 1.0, 'p_stale_fragments': 0.0,
                                          'p_window': 0.0, 'p_teardown_race': 0.0}, 'quick': 200, 'thorough': 3000, 'first': 800000,
         'also': ('C01.all_delivered_at_quiescence', 'C01.request_delivered_once_to_matching_handler')},
    ],
    'C20': [
        {'family': 'adapters', 'knobs': {'version': 'reactivex'}, 'quick': 300, 'thorough': 5000},
        {'family': 'adapters', 'knobs': {'version': 'rx'}, 'quick': 300, 'thorough': 5000, 'first': 100000},
        {'family': 'adapters_mixed', 'knobs': {}, 'quick': 300, 'thorough': 5000, 'first': 200000},
        {'family': 'adapters_cut', 'knobs': {}, 'quick': 200, 'thorough': 3000, 'first': 400000},
        # several interactions in flight at one handler adapter: request-responses answered asynchronously, in any order, next to streams
        {'family': 'adapters', 'knobs': {'min_inter': 2, 'max_inter': 4, 'kinds': ['rr', 'rr', 'rr', 'stream', 'channel'],
                                         'rr_modes': ['later', 'later', 'later', 'immediate', 'error']}, 'quick': 200, 'thorough': 3000, 'first': 500000},
    ],
    'C10': [
        {'family': 'tlc', 'knobs': {}, 'quick': 320, 'thorough': 3200, 'first': 500000},
        {'family': 'tlccover', 'knobs': {}, 'quick': 0, 'thorough': 0, 'first': 700000},
        {'family': 'tlccover2', 'knobs': {}, 'quick': 0, 'thorough': 0, 'first': 800000},
        {'family': 'core', 'knobs': {'p_cancel': 0.15, 'p_error': 0.15}, 'quick': 400, 'thorough': 6000},
        # cancels (and errors) racing fragmented elements that are partly written / partly in flight: whatever was left half-way - in the
        # sender's queue or in the peer's reassembly cache - must be gone at quiescence
        {'family': 'core', 'knobs': {'frag': 64, 'gating': True, 'p_cancel': 0.4, 'p_error': 0.1, 'kinds': ['stream', 'stream', 'channel', 'rr'],
                                     'sources': ['scripted'], 'min_steps': 20, 'max_steps': 50}, 'quick': 250, 'thorough': 4000, 'first': 900000},
        {'family': 'midframe', 'knobs': {}, 'quick': 250, 'thorough': 4000, 'first': 950000},
        # interactions cancelled / granted more credit while their request is still waiting for a lease
        {'family': 'lease', 'knobs': {'lease_cancel': True}, 'quick': 150, 'thorough': 2500, 'first': 300000},
        # "... and the stream's id can be used again": ids wrap around and are used again within one connection
        {'family': 'idwrap', 'knobs': {}, 'quick': 200, 'thorough': 3000, 'first': 300000},
        # interactions that end with their connection, between two fragments of an inbound frame; the id is used again after the reconnect
        {'family': 'reconnect', 'knobs': {'who': 'app', 'p_stale_fragments': 1.0}, 'quick': 200, 'thorough': 3000, 'first': 400000},
        # the interactions driven through the Rx / ReactiveX front ends (publishers made from observables / async generators): whatever
        # ends them - disposal, a CANCEL before any credit, errors - both stream tables are empty afterwards
        {'family': 'adapters', 'knobs': {}, 'quick': 250, 'thorough': 4000, 'first': 600000},
        {'family': 'adapters_mixed', 'knobs': {}, 'quick': 150, 'thorough': 2500, 'first': 650000},
        {'family': 'adapters_client', 'knobs': {}, 'quick': 250, 'thorough': 4000, 'first': 680000},
    ],
}
