"""Dispatch.tla: what an endpoint does with ONE complete frame, as a function of the frame and of the state of the stream it is
addressed to.

(A) TLC enumerates the table (7 stream states x 18 frame kinds x the id it is sent on: 180 cases), checks Contained (C12),
    DuplicateRejected (C13), UnknownDropped, LegalIsHandled, ReactionFramesLegal (C08), Unregisters and prints every row.
(B) spec -> code: every row is replayed on BOTH real endpoints: a real client / server pair on the simulated link is brought into the
    state (a live interaction of the kind and role, plus a bystander stream), the frame - built by the independent encoder - is put on the
    link towards the endpoint, and what the endpoint does (application callbacks, frames queued, stream table) is compared with the row.
    Afterwards the bystander must still work and a fresh request must be served in BOTH directions.
    Verdicts: a legal frame not handled as the row says, a protocol-violating frame that is neither ignored nor answered with an ERROR
    on the offending stream (and is not one of the implementation's named deviations), a duplicate request that replaces a stream, a dead
    connection or an unserved probe are violations; any other difference from the row is DRIFT.
"""
import json

from .. import common, tlc

ERR = {0x202: 'REJECTED', 0x004: 'REJECTED_RESUME', 0x201: 'APPLICATION_ERROR', 0x002: 'UNSUPPORTED_SETUP', 0x003: 'REJECTED_SETUP',
       0x001: 'INVALID_SETUP', 0x101: 'CONNECTION_ERROR', 0x102: 'CONNECTION_CLOSE', 0x203: 'CANCELED', 0x204: 'INVALID'}


def _bodies(wire, ft, sid, frag):
    """the frame as it goes on the wire: whole, as two fragments (the first with the follows flag, the second a PAYLOAD), or its first
    fragment only"""
    if frag == 'whole':
        return [_body(wire, ft, sid)]
    if ft.startswith('PAYLOAD'):
        k = ft.split('_')[1]
        first = wire.encode('PAYLOAD', sid=sid, flags=wire.F_NEXT | wire.F_FOLLOWS, d=b'ju')
        last = wire.encode('PAYLOAD', sid=sid, flags=wire.F_NEXT | (wire.F_COMPLETE if 'C' in k else 0), d=b'nk')
    else:
        n = 3 if ft in ('REQUEST_STREAM', 'REQUEST_CHANNEL') else None
        first = wire.encode(ft, sid=sid, flags=wire.F_FOLLOWS, n=n, d=b'du')
        last = wire.encode('PAYLOAD', sid=sid, flags=wire.F_NEXT, d=b'p')
    return [first] if frag == 'first' else [first, last]


def _body(wire, ft, sid):
    if ft.startswith('PAYLOAD'):
        k = ft.split('_')[1]
        fl = {'N': wire.F_NEXT, 'NC': wire.F_NEXT | wire.F_COMPLETE, 'C': wire.F_COMPLETE, '0': 0}[k]
        return wire.encode('PAYLOAD', sid=sid, flags=fl, d=b'junk' if 'N' in k else b'')
    if ft == 'ERROR':
        return wire.encode('ERROR', sid=sid, code=0x201, d=b'boo')
    if ft == 'CANCEL':
        return wire.encode('CANCEL', sid=sid)
    if ft == 'REQUEST_N':
        return wire.encode('REQUEST_N', sid=sid, n=2)
    if ft in ('REQUEST_RESPONSE', 'REQUEST_FNF'):
        return wire.encode(ft, sid=sid, d=b'dup')
    if ft in ('REQUEST_STREAM', 'REQUEST_CHANNEL'):
        return wire.encode(ft, sid=sid, n=3, d=b'dup')
    if ft == 'KEEPALIVE':
        return wire.encode('KEEPALIVE', sid=sid, flags=wire.F_RESPOND, extra=b'\x00' * 8)
    if ft == 'LEASE':
        return wire.encode('LEASE', sid=sid, extra=b'\x00\x00\x03\xe8\x00\x00\x00\x05')
    if ft == 'METADATA_PUSH':
        return wire.encode('METADATA_PUSH', sid=sid, md=b'pushed')
    if ft == 'SETUP':
        return wire.encode('SETUP', sid=sid, extra=wire.setup_extra(500, 10000))
    if ft == 'RESUME':
        return wire.encode('RESUME', sid=sid, extra=b'\x00\x01\x00\x00' + b'\x00\x02' + b'tk' + b'\x00' * 16)
    if ft == 'RESUME_OK':
        return wire.encode('RESUME_OK', sid=sid, extra=b'\x00' * 8)
    if ft == 'EXT':
        return sid.to_bytes(4, 'big') + bytes([(0x3F << 2) & 0xFF, 0]) + b'\x00\x00\x00\x01ext'
    raise common.Machinery('unknown frame kind %r' % ft)


def run_row(E, case, mode='tcp', chunk=None):
    """returns the observation dict for one row on endpoint E"""
    from ..harness import prog, wire
    P = 's' if E == 'c' else 'c'
    X, ft, sm, frag = case['X'], case['ft'], case['sid'], case.get('frag', 'whole')
    ex = prog.Exec({'mode': mode, 'hostile': True, 'read_buffer': 1024})
    w = ex.w
    steps = []

    def do(st):
        steps.append(st)
        ex.do(st)

    do(['start'])
    do(['pump'])
    # the bystander: a stream E serves for its peer, with one element delivered before and one after the frame under test
    do(['stream', P, [7, 0], 5, {'src': 'scripted'}, True])
    do(['pump'])
    do(['emit', 0, 'resp', 9, 0, 0])
    do(['pump'])
    if X == 'rrq':
        do(['rr', E, [5, 0], {'mode': 'later'}])
    elif X == 'rrs':
        do(['rr', P, [5, 0], {'mode': 'later'}])
    elif X == 'stq':
        do(['stream', E, [5, 0], 3, {'src': 'scripted'}, True])
    elif X == 'sts':
        do(['stream', P, [5, 0], 3, {'src': 'scripted'}, True])
    elif X == 'chq':
        do(['channel', E, [5, 0], 3, {'src': 'scripted', 'pub': True, 'sub': True}, True, {'src': 'scripted'}, True])
    elif X == 'chs':
        do(['channel', P, [5, 0], 3, {'src': 'scripted', 'pub': True, 'sub': True}, True, {'src': 'scripted'}, True])
    do(['pump'])
    if sm == 'zero':
        sid = 0
    elif X == 'none':
        peer_parity = 1 if E == 's' else 0
        sid = 1000 + (1 if (sm == 'peer') == (peer_parity == 1) else 0)
    else:
        iid = ex.refs[1]
        sid = [e['sid'] for e in w.rec.events if e['ev'] == 'enq' and e['ft'].startswith('REQUEST_') and e['pid'] == iid][0]
    n0 = len(w.rec.events)
    w.rec.log(E, 'inject', kind='dispatch', sid=sid, x=0, n=1)
    for body in _bodies(wire, ft, sid, frag):
        w.dirs[P].inject((len(body).to_bytes(3, 'big') + body) if mode == 'tcp' else body)
    status = 'ok'
    try:
        ex.do(['pump'] if chunk is None else ['pump', chunk])
    except BaseException as e:         # Hang / Budget / anything the library lets escape
        status = type(e).__name__
    told, out = [], []
    for e in w.rec.events[n0:]:
        if e['ep'] != E:
            continue
        if e['ev'] == 'enq':
            if e['ft'] == 'ERROR':
                out.append('ERROR:%s:%s' % ('0' if e['sid'] == 0 else ('sid' if e['sid'] == sid else 'other'), ERR.get(e['code'], hex(e['code']))))
            else:
                out.append('%s:%s' % (e['ft'], '0' if e['sid'] == 0 else ('sid' if e['sid'] == sid else 'other')))
        elif e['ev'].startswith('cb_'):
            k = e['ev'][3:]
            if k == 'pub_request':
                k = 'pub_request:%d' % e['n']
            told.append(k)
    try:
        reg = sid in w.eps[E]._stream_control._streams
        partial = sid in w.eps[E]._frame_fragment_cache._frames_by_stream_id
    except Exception:
        reg = partial = None
    obs = {'told': sorted(told), 'out': sorted(out), 'reg': reg, 'status': status, 'sid': sid, 'partial': partial}
    # afterwards: the bystander goes on, and a fresh request is served in both directions
    n1 = len(w.rec.events)
    try:
        ex.do(['emit', 0, 'resp', 11, 0, 0])
        ex.do(['pump'])
        ex.do(['probe', P, [6, 0], [3, 1]])
        ex.do(['pump'])
        ex.do(['probe', E, [4, 0], [3, 2]])
        ex.do(['pump'])
    except BaseException as e:
        obs['status'] = 'after:' + type(e).__name__
    ev = w.rec.events
    obs['closed'] = any(e['ev'] in ('cb_close', 'transport_closed') for e in ev)
    obs['bystander_next'] = sum(1 for e in ev[n1:] if e['ev'] == 'cb_next' and e['ep'] == P)
    obs['probes_answered'] = sum(1 for e in ev[n1:] if e['ev'] == 'cb_future' and e.get('x') in (7, 0) and e.get('kind') != 'error' and e.get('code', 0) == 0)
    obs['probe_futures'] = [(e['ep'], e.get('code', 0)) for e in ev[n1:] if e['ev'] == 'cb_future']
    obs['steps'] = steps
    try:
        w.close()
    except BaseException:
        pass
    return obs


def judge(prop, E, case, row, obs):
    """-> list of (clause, detail); DRIFT entries have clause 'DRIFT'"""
    bad = []
    X, ft, sm = case['X'], case['ft'], case['sid']
    frag = case.get('frag', 'whole')
    where = 'endpoint %s, stream state %s, %s%s on %s' % (E, X, ft, {'whole': '', 'two': ' (in two fragments)', 'first': ' (first fragment only)'}[frag], {'zero': 'stream 0', 'peer': "an id of the peer's parity", 'own': "an id of its own parity"}[sm]
                                                        if X == 'none' or sm == 'zero' else 'the live stream')
    r = row['r']
    exp_told, exp_out, exp_reg = sorted(r['told']), sorted(r['out']), r['reg']
    if obs['status'] != 'ok':
        bad.append(('C12.terminates', '%s: handling the frame did not come to an end (%s)' % (where, obs['status'])))
        return bad
    if obs['closed']:
        bad.append(('C12.connection_stays_up', '%s: the connection was closed' % where))
    if obs['bystander_next'] < 1:
        bad.append(('C12.alive_after_input', '%s: the bystander stream no longer delivers' % where))
    served = [c for (_, c) in obs['probe_futures']]
    if len(served) < 2 or any(served[-2:]):
        bad.append(('C12.probe_served', '%s: probe requests afterwards (one in each direction) ended as %r' % (where, obs['probe_futures'])))
    same = (obs['told'] == exp_told and obs['out'] == exp_out and obs['reg'] == exp_reg)
    if frag == 'first' and (obs['told'] or obs['out']):
        bad.append(('C03.delivered_only_at_last_fragment', '%s: application told %r, queued %r before the frame was complete' % (where, obs['told'], obs['out'])))
        return bad
    if frag == 'two' and obs['partial']:
        bad.append(('C10.dispatch_partial_frame_released', '%s: the reassembly cache still holds a partial frame for the stream after its last fragment' % where))
    dup = ft.startswith('REQUEST_') and ft != 'REQUEST_N' and X != 'none' and sm != 'zero' and frag != 'first'
    if dup:
        if 'ERROR:sid:REJECTED' not in obs['out']:
            bad.append(('C13.incoming_duplicate_rejected', '%s: queued %r' % (where, obs['out'])))
        if obs['reg'] is not True or 'request' in obs['told'] or 'pub_subscribe' in obs['told']:
            bad.append(('C13.existing_stream_not_replaced', '%s: application told %r, stream registered afterwards: %s' % (where, obs['told'], obs['reg'])))
    if same:
        if frag == 'first' and not obs['partial']:
            bad.append(('DRIFT', '%s: the first fragment is not waiting in the reassembly cache' % where))
        return bad
    detail = '%s: application told %r (table: %r), queued %r (table: %r), stream registered %s (table: %s)' % (
        where, obs['told'], exp_told, obs['out'], exp_out, obs['reg'], exp_reg)
    if row['legal']:
        # a frame a conforming peer may send: the row is what the properties demand
        t = set(exp_told) | set(exp_out)
        if t & {'next', 'complete', 'error', 'future', 'request', 'PAYLOAD:sid'} or (exp_reg != obs['reg']):
            clause = 'C01.dispatch_delivers' if obs['told'] != exp_told or obs['out'] != exp_out else 'C10.dispatch_unregisters'
        elif any(x.startswith('pub_request') for x in t):
            clause = 'C06.dispatch_credit_reaches_publisher'
        elif t & {'pub_cancel', 'resp_future_done'}:
            clause = 'C09.dispatch_cancels_producer'
        elif 'KEEPALIVE:0' in t:
            clause = 'C15.dispatch_echo'
        else:
            clause = 'C12.dispatch_legal_frame_handled'
        bad.append((clause, detail))
    elif not dup:
        # protocol-violating input: ignored, or an ERROR on the offending stream - and the stream it is aimed at survives
        ignored = not obs['told'] and not obs['out'] and obs['reg'] == (X != 'none' and sm != 'zero')
        errored = not obs['told'] and obs['out'] and all(o.startswith('ERROR:%s:' % ('0' if sm == 'zero' else 'sid')) for o in obs['out']) \
            and obs['reg'] == (X != 'none' and sm != 'zero')
        if ignored or errored:
            bad.append(('DRIFT', detail))
        else:
            bad.append(('C12.violating_frame_contained', detail))
    else:
        bad.append(('DRIFT', detail))
    return bad


def table(v, prop):
    r = tlc.run('Dispatch', 'Dispatch.cfg', workers=1, timeout=600, name='dispatch')
    if r.timed_out or not r.finished:
        raise common.Machinery('TLC did not finish on Dispatch: %s' % r.out[-1500:])
    if r.violated:
        v.add_failure('%s.design_%s' % (prop, r.violated), {'model': 'Dispatch'}, 'TLC: %s violated in the dispatch table' % r.violated)
    rows = []
    for line in r.out.splitlines():
        line = line.strip()
        if line.startswith('"{') and line.endswith('}"'):
            o = json.loads(json.loads(line))
            rows.append(o)
    if len(rows) < 100:
        raise common.Machinery('the dispatch table printed by TLC has only %d rows' % len(rows))
    v.add('states', r.distinct)
    v.add('transitions', r.generated)
    v.coverage.setdefault('mc_configs', {})['Dispatch.cfg'] = {'states': r.distinct, 'transitions': r.generated, 'depth': r.depth, 'wall_s': round(r.wall, 1)}
    return rows


def check(v, prop, only_duplicates=False):
    import logging
    logging.disable(logging.CRITICAL)
    rows = table(v, prop)
    thorough = common.tier() == 'thorough'
    variants = [('tcp', None)] + ([('msg', None), ('tcp', 1)] if thorough else [])
    n = drift = 0
    classes = {}
    notes = []
    for row in rows:
        case = row['c']
        dup = case['ft'].startswith('REQUEST_') and case['ft'] != 'REQUEST_N' and case['X'] != 'none' and case['sid'] != 'zero' \
            and case.get('frag', 'whole') != 'first'
        if only_duplicates and not dup:
            continue
        for E in ('c', 's'):
            for (mode, chunk) in variants:
                obs = run_row(E, case, mode, chunk)
                n += 1
                classes[row['r']['class']] = classes.get(row['r']['class'], 0) + 1
                for clause, detail in judge(prop, E, case, row, obs):
                    if clause == 'DRIFT':
                        drift += 1
                        if len(notes) < 3:
                            notes.append(detail)
                    else:
                        v.add_failure(clause, {'model': 'Dispatch', 'X': case['X'], 'ft': case['ft'], 'sid': case['sid'], 'ep': E},
                                      detail, {'kind': 'dispatch', 'ep': E, 'case': case, 'mode': mode, 'chunk': chunk})
    v.add('dispatch_rows_replayed', n)
    v.add('dispatch_rows_matching_table', n - drift)
    v.coverage['dispatch_row_classes'] = classes
    if drift:
        v.notes.append('DRIFT (Dispatch): on %d of %d replayed rows the real endpoint reacted differently from the table although within what the '
                       'property allows: %s' % (drift, n, ' | '.join(notes)))
    v.sample({'model': 'Dispatch', 'row': rows[len(rows) // 2]})
