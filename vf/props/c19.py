"""C19 routed dispatch and the authentication gate.

Routing.tla defines the decision function; TLC enumerates (route table for the type, unknown handler, what other types registered,
verifier, request route, authentication, position of the routing entry) - 9600 cases - checks the gate / exactness / independence
invariants and prints the decision table.  Every row is replayed on a real RequestRouter + RoutingRequestHandler:
  - one handler instance per table (= per connection); the table's 36 requests are issued in random order, twice, so any dependence
    on earlier requests (cached verification results, leaked state) shows;
  - overlapping requests: a second request arrives while an asynchronous verifier is still deciding the first;
  - parameter binding: handlers declared with (payload), (composite_metadata), (payload, composite_metadata), annotated names, or
    nothing receive exactly the request payload / the parsed composite metadata;
  - a sample of rows goes through a real client/server pair on the simulated link with a concurrent witness request ("that request alone").
Clauses: C19.dispatch_exact, C19.gate, C19.parameters_as_annotated, C19.error_on_that_request_alone.
"""
import asyncio
import json
import random

from .. import common, tlc

TYPES = ['response', 'stream', 'channel', 'fire_and_forget', 'metadata_push']


class Pub:
    """marker publisher returned by recorded stream/channel handlers"""

    def __init__(self, tag):
        self.tag = tag

    def subscribe(self, subscriber):
        pass


class Decoded:
    """what the application's payload deserializer makes of a request payload"""

    def __init__(self, payload):
        self.of = payload


def make_router(case_table, log, sigvariant):
    """real RequestRouter with recording handlers for the table; returns router"""
    from rsocket.routing.request_router import RequestRouter
    from rsocket.payload import Payload
    from rsocket.extensions.composite_metadata import CompositeMetadata
    from rsocket.helpers import create_future
    # (variants 5-7: the router has a payload deserializer; a parameter annotated with a type gets the deserialised value, a parameter
    # annotated Payload - or not annotated - gets the request payload itself, whatever the order of the parameters)
    router = RequestRouter(payload_deserializer=lambda cls, p: Decoded(p)) if sigvariant >= 5 else RequestRouter()

    def result_for(t, tag):
        if t == 'response':
            return create_future(Payload(('resp:%s' % tag).encode()))
        if t == 'stream':
            return Pub(tag)
        if t == 'channel':
            return Pub(tag), None
        return None

    def mk(t, tag, variant):
        # handler signatures by variant
        if variant == 0:
            async def h(payload):
                log.append((t, tag, {'payload': payload}))
                return result_for(t, tag)
        elif variant == 1:
            async def h(composite_metadata):
                log.append((t, tag, {'cm': composite_metadata}))
                return result_for(t, tag)
        elif variant == 2:
            async def h(payload, composite_metadata):
                log.append((t, tag, {'payload': payload, 'cm': composite_metadata}))
                return result_for(t, tag)
        elif variant == 3:
            async def h(request: Payload, meta: CompositeMetadata):
                log.append((t, tag, {'payload': request, 'cm': meta}))
                return result_for(t, tag)
        elif variant == 5:
            async def h(body: Decoded, raw: Payload):
                log.append((t, tag, {'payload': raw, 'body': body}))
                return result_for(t, tag)
        elif variant == 6:
            async def h(raw: Payload, body: Decoded):
                log.append((t, tag, {'payload': raw, 'body': body}))
                return result_for(t, tag)
        elif variant == 7:
            async def h(body: Decoded, meta: CompositeMetadata, payload):
                log.append((t, tag, {'payload': payload, 'body': body, 'cm': meta}))
                return result_for(t, tag)
        else:
            async def h():
                log.append((t, tag, {}))
                return result_for(t, tag)
        return h

    for t in TYPES:
        spec = case_table[t]
        for r in spec['registered']:
            getattr(router, t)(CONCRETE.get(r, r))(mk(t, r, sigvariant))
        if spec['unknown']:
            getattr(router, t + '_unknown')()(mk(t, 'unknown', sigvariant))
    return router


# The specification's route names are abstract; on the wire they are these texts: non-ASCII (a tag's length prefix counts BYTES of
# its UTF-8 form, not characters), one a one-character extension of the other, passed as str the way applications write them.
CONCRETE = {'r1': 'men\u00fc.item', 'r2': 'men\u00fc.items', 'rX': 'donn\u00e9es.\u00e9t\u00e9'}


def table_for(c):
    tbl = {}
    for t in TYPES:
        if t == c['type']:
            tbl[t] = {'registered': list(c['registered']), 'unknown': c['unknown']}
        elif c['others'] == 'all':
            tbl[t] = {'registered': ['r1', 'r2', 'rX'], 'unknown': True}
        else:
            tbl[t] = {'registered': [], 'unknown': False}
    return tbl


REVOKED = set()      # credentials the verifier no longer accepts


def _accepted(c):
    return c['auth'] == 'good' or (c['auth'] == 'scoped' and c['route'] == 'r1')


def metadata_for(c, nonce, revoke=True):
    from rsocket.extensions.helpers import composite, route, authenticate_simple, authenticate_bearer, metadata_item
    from rsocket.extensions.mimetypes import WellKnownMimeTypes
    items = []
    auth = None
    if c['auth'] == 'scoped':
        # credentials the (route-aware) verifier accepts on route r1 only
        auth = authenticate_simple('user', 'scoped-pw') if nonce % 2 else authenticate_bearer('scoped-token')
    elif c['auth'] == 'revoked':
        # credentials that were valid and have been revoked (revoke=False: not yet - the caller revokes them after a first request)
        tok = 'revocable-%d' % (nonce % 2)
        auth = authenticate_simple('user', tok) if nonce % 2 else authenticate_bearer(tok)
        if revoke:
            REVOKED.add(tok.encode())
        else:
            REVOKED.discard(tok.encode())
    if c['auth'] == 'good':
        auth = authenticate_simple('user', 'good-%d' % (nonce % 3)) if nonce % 2 else authenticate_bearer('good-token')
    elif c['auth'] == 'bad':
        auth = authenticate_simple('user', 'bad') if nonce % 2 else authenticate_bearer('bad-token')
    rt = route(CONCRETE.get(c['route'], c['route']), 'second-tag') if c['route'] != 'none' else None
    other = metadata_item(b'{"x":1}', WellKnownMimeTypes.APPLICATION_JSON)
    if c['pos'] == 'first':
        order = [rt, auth, other]
    elif c['pos'] == 'after_auth':
        order = [auth, rt, other]
    else:
        order = [other, auth, rt]
    items = [x for x in order if x is not None]
    return composite(*items)


def verifier_of_shape(shape):
    """the verifier is any callable that returns an awaitable (Routing.tla: the decision does not depend on its shape): an `async def`
    function, an object with an async __call__, a plain function that passes the call through to one (a decorator), a functools.partial"""
    import functools
    if shape == 'callable_object':
        class V:
            async def __call__(self, route, authentication):
                return await verifier(route, authentication)
        return V()
    if shape == 'wrapped':
        @functools.wraps(verifier)
        def passthrough(route, authentication):
            return verifier(route, authentication)
        return passthrough
    if shape == 'partial':
        async def v3(tag, route, authentication):
            return await verifier(route, authentication)
        return functools.partial(v3, 'x')
    return verifier


SHAPES = ['async_def', 'callable_object', 'wrapped', 'partial']


async def verifier(route, authentication):
    """a function of (route, credentials) at the time of the call"""
    tok = bytes(getattr(authentication, 'password', None) or getattr(authentication, 'token', None))
    if tok.startswith(b'good'):
        return
    if tok.startswith(b'scoped') and route == CONCRETE['r1']:
        return
    if tok.startswith(b'revocable') and tok not in REVOKED:
        return
    raise Exception('bad credentials')


async def invoke(handler, t, payload):
    """call the handler entry point the way RSocketBase does; returns ('ok', result) | ('error', exc)"""
    try:
        if t == 'response':
            fut = await handler.request_response(payload)
            try:
                return 'ok', await asyncio.wait_for(fut, 5)
            except Exception as ex:
                return 'error', ex
        if t == 'stream':
            pub = await handler.request_stream(payload)
            return ('ok', pub) if isinstance(pub, Pub) else ('error', pub)
        if t == 'channel':
            pub, sub = await handler.request_channel(payload)
            return ('ok', pub) if isinstance(pub, Pub) else ('error', pub)
        if t == 'fire_and_forget':
            await handler.request_fire_and_forget(payload)
            return 'none', None
        await handler.on_metadata_push(payload)
        return 'none', None
    except Exception as ex:
        return 'raised', ex


def judge(v, c, d, log_slice, outcome, payload, sigvariant, ctx):
    """compare what ran with the decision d"""
    from rsocket.extensions.composite_metadata import CompositeMetadata
    sig = {'type': c['type'], 'decision': d, 'verifier': c['verifier'], 'auth': c['auth'], 'route': c['route'], 'ctx': ctx}
    ran = [(t, tag) for (t, tag, args) in log_slice]
    want = [] if d == 'error' else [(c['type'], c['route'] if d == 'handler' else 'unknown')]
    rp = {'kind': 'c19', 'case': c, 'ctx': ctx}
    if ran != want:
        clause = 'C19.gate' if (c['verifier'] and not _accepted(c) and ran) else 'C19.dispatch_exact'
        v.add_failure(clause, sig, 'case %s: decision %s, but the functions that ran were %s (%s)' % (
            {k: c[k] for k in ('type', 'registered', 'unknown', 'others', 'verifier', 'route', 'auth', 'pos')}, d, ran, ctx), rp)
        return
    if outcome[0] == 'raised':
        v.add_failure('C19.error_on_that_request_alone', sig, 'handler entry point raised %r instead of containing the failure' % (outcome[1],), rp)
        return
    if c['type'] in ('response', 'stream', 'channel'):
        if d == 'error' and outcome[0] != 'error':
            v.add_failure('C19.dispatch_exact', sig, 'decision error but the requester would get %r' % (outcome,), rp)
        if d != 'error' and outcome[0] != 'ok':
            v.add_failure('C19.dispatch_exact', sig, 'decision %s but the request failed with %r' % (d, outcome[1]), rp)
    if d != 'error' and log_slice:
        args = log_slice[0][2]
        ok = True
        if sigvariant in (0, 2, 3, 5, 6, 7) and args.get('payload') is not payload:
            ok = False
        if sigvariant in (5, 6, 7) and not (isinstance(args.get('body'), Decoded) and args['body'].of is payload):
            ok = False
        if sigvariant in (1, 2, 3, 7):
            cm = args.get('cm')
            if not isinstance(cm, CompositeMetadata) or len(cm.items) < 1:
                ok = False
        if not ok:
            v.add_failure('C19.parameters_as_annotated', dict(sig, variant=sigvariant), 'signature variant %d received %s' % (
                sigvariant, {k: type(x).__name__ for k, x in args.items()}), rp)


def run(v):
    from rsocket.routing.routing_request_handler import RoutingRequestHandler
    from rsocket.payload import Payload
    thorough = common.tier() == 'thorough'
    rnd = random.Random(common.seed())
    r = tlc.run('Routing', 'Routing.cfg', workers=1, timeout=600, name='routing')
    if not r.finished:
        raise common.Machinery('TLC did not finish on Routing: ' + r.out[-1500:])
    if r.violated:
        v.add_failure('C19.spec_' + r.violated, {}, 'TLC: %s violated in Routing.tla itself' % r.violated)
    rows = []
    for line in r.out.splitlines():
        if line.startswith('"{'):
            o = json.loads(json.loads(line))
            rows.append((o['c'], o['d']))
    if len(rows) != r.distinct:
        raise common.Machinery('expected %d decision rows, parsed %d' % (r.distinct, len(rows)))
    v.add('states', r.distinct)
    v.add('transitions', r.generated)
    decisions = {json.dumps(c, sort_keys=True): d for c, d in rows}
    # group by table (= one handler instance = one connection)
    groups = {}
    for c, d in rows:
        key = json.dumps([c['type'], sorted(c['registered']), c['unknown'], c['others'], c['verifier']])
        groups.setdefault(key, []).append((c, d))
    loop = asyncio.new_event_loop()
    asyncio.set_event_loop(loop)
    replayed = 0

    async def run_group(cases, sigvariant, passes, shape='async_def'):
        nonlocal replayed
        c0 = cases[0][0]
        log = []
        router = make_router(table_for(c0), log, sigvariant)
        handler = RoutingRequestHandler(router, verifier_of_shape(shape) if c0['verifier'] else None)
        for p in range(passes):
            order = list(cases)
            rnd.shuffle(order)
            if p == 1:
                # adversarial order for history dependence: every rejected request immediately followed by the same request again
                order = sorted(order, key=lambda x: (x[0]['route'], x[0]['pos'], x[0]['auth'] != 'bad'))
            for k, (c, d) in enumerate(order):
                if c['auth'] == 'revoked':
                    # the same request while the credentials are still valid: decided as for good credentials ...
                    md0 = metadata_for(c, k + p, revoke=False)
                    payload0 = Payload(b'valid-%d' % k, md0) if c['type'] != 'metadata_push' else Payload(None, md0)
                    n0 = len(log)
                    out = await invoke(handler, c['type'], payload0)
                    cg = dict(c, auth='good')
                    judge(v, cg, decisions[json.dumps(cg, sort_keys=True)], log[n0:], out, payload0, sigvariant, 'credentials valid, revoked afterwards')
                    replayed += 1
                    # ... then they are revoked, and presented again
                md = metadata_for(c, k + p)
                payload = Payload(b'data-%d' % k, md) if c['type'] != 'metadata_push' else Payload(None, md)
                n0 = len(log)
                out = await invoke(handler, c['type'], payload)
                judge(v, c, d, log[n0:], out, payload, sigvariant, 'sequential pass %d' % p)
                replayed += 1
                if p == 1 and c['auth'] == 'bad':
                    # the very same request again (same credentials, same route)
                    payload2 = Payload(b'again-%d' % k, md) if c['type'] != 'metadata_push' else Payload(None, md)
                    n0 = len(log)
                    out = await invoke(handler, c['type'], payload2)
                    judge(v, c, d, log[n0:], out, payload2, sigvariant, 'same rejected request repeated')
                    replayed += 1

    async def overlapping(cases):
        """a second request with the same rejected credentials arrives while a slow verifier is still deciding the first"""
        nonlocal replayed
        c0 = cases[0][0]
        if not c0['verifier']:
            return
        gate = asyncio.Event()

        async def slow_verifier(route, authentication):
            await gate.wait()
            await verifier(route, authentication)

        log = []
        router = make_router(table_for(c0), log, 2)
        handler = RoutingRequestHandler(router, slow_verifier)
        bad = [(c, d) for (c, d) in cases if c['auth'] == 'bad' and c['route'] != 'none'][:3]
        for c, d in bad:
            md = metadata_for(c, 1)
            p1 = Payload(b'first', md) if c['type'] != 'metadata_push' else Payload(None, md)
            p2 = Payload(b'second', md) if c['type'] != 'metadata_push' else Payload(None, md)
            gate.clear()
            n0 = len(log)
            t1 = asyncio.ensure_future(invoke(handler, c['type'], p1))
            await asyncio.sleep(0)
            t2 = asyncio.ensure_future(invoke(handler, c['type'], p2))
            for _ in range(3):
                await asyncio.sleep(0)
            ran_early = [(t, tag) for (t, tag, a) in log[n0:]]
            gate.set()
            o1 = await asyncio.wait_for(t1, 5)
            o2 = await asyncio.wait_for(t2, 5)
            judge(v, c, d, log[n0:], o2, p2, 2, 'overlapping requests while the verifier is deciding')
            if ran_early:
                v.add_failure('C19.gate', {'type': c['type'], 'ctx': 'overlap'}, 'handler %s ran before the verifier had decided' % ran_early,
                              {'kind': 'c19', 'case': c, 'ctx': 'overlap'})
            replayed += 2

    keys = sorted(groups)
    for gi, key in enumerate(keys):
        cases = groups[key]
        variants = [gi % 8] if not thorough else [0, 1, 2, 3, 4, 5, 6, 7]
        for sv in variants:
            # every group is also driven with two of the four verifier shapes (all four in the thorough tier)
            for shape in (SHAPES if thorough else [SHAPES[gi % 4], SHAPES[(gi + 1 + sv) % 4]]):
                loop.run_until_complete(asyncio.wait_for(run_group(cases, sv, 2, shape), 120))
        loop.run_until_complete(asyncio.wait_for(overlapping(cases), 60))
    loop.close()
    v.add('spec_rows_replayed', replayed)
    v.add('tables', len(groups))
    v.add('traces_validated_against_impl', replayed)
    v.add('evaluations', replayed)
    v.add('distinct_nontrivial', len(rows))
    v.setc('exhaustive', True)
    v.setc('rule', 'every row of the decision table printed by TLC (9600 = type x registered subset x unknown x others x verifier x route x '
                   'authentication x position), replayed per table on one handler instance in random and adversarial orders')
    v.sample({'case': rows[len(rows) // 3][0], 'decision': rows[len(rows) // 3][1]})
    # through a real connection: "that request alone"
    _via_connection(v, rows, rnd, 40 if not thorough else 400)
    v.assumptions += ['the authentication verifier used is a function of (route, credentials) at the time of the call: it accepts credentials starting '
                      'with "good", "scoped" ones on route r1 only, "revocable" ones until they are revoked, and raises for anything else',
                      'a request without any routing entry may only fail (it is neither handed to a handler nor to the unknown-route handler)']


def _via_connection(v, rows, rnd, count):
    """sample of rows through real endpoints on the simulated link, with a concurrent witness request on another stream"""
    import os
    import subprocess
    import sys
    work = common.workdir()
    inp = os.path.join(work, 'c19_rows.json')
    sample = [rows[i] for i in rnd.sample(range(len(rows)), min(count, len(rows)))]
    sample = [(c, d) for (c, d) in sample if c['type'] in ('response', 'stream')]
    json.dump(sample, open(inp, 'w'))
    env = dict(os.environ)
    env['PYTHONPATH'] = common.ROOT + os.pathsep + common.REPO
    p = subprocess.run([common.PY, '-c', 'from vf.props import c19; c19._conn_main(%r)' % inp], env=env, cwd=common.ROOT,
                       stdout=subprocess.PIPE, stderr=subprocess.STDOUT, text=True, timeout=600)
    if p.returncode != 0:
        raise common.Machinery('C19 connection replayer failed: ' + p.stdout[-3000:])
    res = json.loads(p.stdout.strip().splitlines()[-1])
    for b in res['bad']:
        v.add_failure(b['clause'], {'type': b['case']['type'], 'ctx': 'connection'}, b['why'], {'kind': 'c19conn', 'case': b['case']})
    v.add('rows_through_real_connection', res['n'])


def _conn_main(path):
    import logging
    logging.disable(logging.CRITICAL)
    from vf.harness.world import World
    from rsocket.routing.routing_request_handler import RoutingRequestHandler
    from rsocket.payload import Payload
    from rsocket.extensions.mimetypes import WellKnownMimeTypes
    from reactivestreams.subscriber import DefaultSubscriber
    rows = json.load(open(path))
    bad = []
    n = 0
    for c, d in rows:
        log = []
        w = World(mode='tcp', md_mime='message/x.rsocket.composite-metadata.v0')
        router = make_router(table_for(dict(c, others='all')), log, 2)
        # witness route, always registered, no authentication needed when no verifier; with verifier it carries good credentials
        w.start()
        w.pump()
        server = w.eps['s']
        server.set_handler_using_factory(lambda: RoutingRequestHandler(router, verifier if c['verifier'] else None))
        # RoutingRequestHandler.on_setup ran on the recording handler; set encodings like a fresh handler would have
        server._handler.data_encoding = b'application/json'
        server._handler.metadata_encoding = WellKnownMimeTypes.MESSAGE_RSOCKET_COMPOSITE_METADATA.value.name
        client = w.eps['c']
        md = metadata_for(c, 1)
        wit_type = 'stream' if c['type'] == 'response' else 'response'
        wit_case = dict(c, type=wit_type, route='rX', auth='good', pos='first')
        wit_md = metadata_for(wit_case, 1)
        results = {}
        if c['type'] == 'response':
            f1 = client.request_response(Payload(b'req', md))
        else:
            got = []

            class S(DefaultSubscriber):
                def on_error(self, ex):
                    got.append(('error', ex))

                def on_complete(self):
                    got.append(('complete', None))

                def on_next(self, value, is_complete=False):
                    got.append(('next', value))

            client.request_stream(Payload(b'req', md)).subscribe(S())
        if wit_type == 'response':
            f2 = client.request_response(Payload(b'witness', wit_md))
        else:
            f2 = None
            client.request_stream(Payload(b'witness', wit_md)).subscribe(DefaultSubscriber())
        w.pump()
        w.advance(10)
        w.pump()
        n += 1
        ran = [(t, tag) for (t, tag, a) in log]
        want_first = [] if d == 'error' else [(c['type'], c['route'] if d == 'handler' else 'unknown')]
        want = want_first + [(wit_type, 'rX')]
        if sorted(ran) != sorted(want):
            bad.append({'clause': 'C19.dispatch_exact', 'case': c, 'why': 'through a real connection: ran %s, expected %s' % (ran, want)})
        if f2 is not None and (not f2.done() or f2.exception() is not None or bytes(f2.result().data) != b'resp:rX'):
            bad.append({'clause': 'C19.error_on_that_request_alone', 'case': c,
                        'why': 'the concurrent witness request on another stream was not served correctly (%s)' % (
                            f2.exception() if f2.done() else 'pending')})
        if c['type'] == 'response':
            if d == 'error' and not (f1.done() and f1.exception() is not None):
                bad.append({'clause': 'C19.error_on_that_request_alone', 'case': c, 'why': 'decision error but the requester did not get an error'})
            if d != 'error' and not (f1.done() and f1.exception() is None):
                bad.append({'clause': 'C19.dispatch_exact', 'case': c, 'why': 'decision %s but the requester got %s' % (d, f1.exception() if f1.done() else 'nothing')})
        if not (server._receiver_task is not None and not server._receiver_task.done()):
            bad.append({'clause': 'C19.error_on_that_request_alone', 'case': c, 'why': 'the server receiver task died'})
        w.close()
    print(json.dumps({'bad': bad, 'n': n}))
