"""KeepAlive.tla: the client's keep-alive sender, the time-out watchdog, the echo, and what the client does after it has declared
the server dead - under a clock.

(A) TLC checks KeepAlive.tla exhaustively for several (period, lifetime) pairs - period < lifetime, period > lifetime, equal, and
    period 1 - against NoFalseTimeout, TimeoutDetected, Periodic, EchoExactlyOnce, NoEchoWithoutFlag and the implementation-
    defined aftermath invariants (AtMostOneFrameAfterDead, DeadClientClosesAtNextInput, CloseAtMostOnce).
(B) spec -> code: every transition of every graph is replayed on a real RSocketClient connected over the simulated link to a
    scripted, silent server under the virtual-time event loop: Tick = advance one unit and run to quiescence, PeerKa = a
    KEEPALIVE frame from the server.  After every step the number of respond-flagged KEEPALIVEs and of echoes written, of
    on_keepalive_timeout and on_close callbacks, and the gaps reported to the callback are compared with the specification.
"""
from .. import common, tlc
from . import graphreplay

UNIT_MS = 50


class RealKa:
    P = 2
    L = 3

    def __init__(self):
        import logging
        logging.disable(logging.CRITICAL)
        from ..harness import prog
        opts = {'mode': 'tcp', 'peer': 'server', 'keepalive_ms': self.P * UNIT_MS, 'lifetime_ms': self.L * UNIT_MS, 'ka': {'mode': 'never'}}
        self.ex = prog.Exec(opts)
        self.ex.do(['start'])
        self.ex.do(['settle'])
        self.now = 0
        self.last = 0            # time of the last KEEPALIVE from the server (connect counts)
        self.flagged = 0         # respond-flagged KEEPALIVEs the server sent
        self.to_at_last = 0      # number of time-out callbacks seen when the last KEEPALIVE arrived
        self.blocked = False
        self.faulted = False     # the connection is half-dead (writes fail, nothing arrives)
        self.base = 0            # time the current connection was made
        self.at_base = {'timeouts': 0, 'closes': 0, 'enqKa': 0, 'txKa': 0, 'txEcho': 0}     # cumulative counters at that moment

    def reconnect(self):
        self.ex.do(['reconnect'])
        self.ex.do(['settle'])
        o = self.observe()
        self.base = self.last = self.now
        self.at_base = {key: o[key] for key in self.at_base}
        self.to_at_last = o['timeouts']
        self.flagged = 0
        self.blocked = False
        self.faulted = False

    def write_fault(self):
        self.ex.do(['write_fault', 'c'])
        self.faulted = True

    def tick(self):
        self.ex.do(['advance', UNIT_MS])
        self.ex.do(['settle'])
        self.now += 1

    def peer_ka(self, respond):
        o = self.observe()
        self.to_at_last = o['timeouts']
        self.last = self.now
        if respond:
            self.flagged += 1
        self.ex.do(['peer_keepalive', 8, bool(respond)])
        self.ex.do(['settle'])

    def oracle(self):
        """the C15 invariants of KeepAlive.tla evaluated on what the real client did (the aftermath of a time-out - how
        many more frames a client that has declared the server dead still writes, when it closes - is not part of C15)"""
        cum = self.observe()
        o = dict(cum)
        for key, b in self.at_base.items():
            o[key] = cum[key] - b           # of the current connection
        L, P = self.L, self.P
        for g in o['gaps']:
            if g <= L * UNIT_MS:
                return ('C15.no_false_timeout', 'on_keepalive_timeout invoked with %d ms since the last KEEPALIVE, maximum lifetime %d ms' % (g, L * UNIT_MS))
        if cum['timeouts'] > self.to_at_last and self.now - self.last <= L:
            return ('C15.no_false_timeout', 'on_keepalive_timeout invoked at time %d, last KEEPALIVE at %d, lifetime %d' % (self.now, self.last, L))
        if o['closes'] == 0 and self.now - self.last >= 2 * L and cum['timeouts'] <= self.to_at_last:
            return ('C15.timeout_detected', 'server silent since %d, now %d (lifetime %d): on_keepalive_timeout not invoked' % (self.last, self.now, L))
        if o['timeouts'] == 0 and o['closes'] == 0 and not self.faulted:
            # (a client whose writes fail may stop producing keep-alives: only the detection of the silence is demanded of it)
            if o['enqKa'] != (self.now - self.base) // P:
                return ('C15.periodic', '%d respond-flagged KEEPALIVEs queued by time %d on the connection made at %d, period %d%s' % (
                    o['enqKa'], self.now, self.base, P, ' (the transport is not accepting writes)' if self.blocked else ''))
            if not self.blocked and o['txKa'] != o['enqKa']:
                return ('C15.periodic', '%d of %d queued KEEPALIVEs written although the transport accepts writes' % (o['txKa'], o['enqKa']))
            if not self.blocked and o['txEcho'] != self.flagged:
                return ('C15.echo_exactly_once_same_data_flag_cleared', '%d echoes written for %d respond-flagged KEEPALIVEs' % (o['txEcho'], self.flagged))
        if o['txEcho'] > self.flagged:
            return ('C15.no_echo_without_flag', '%d echoes written for %d respond-flagged KEEPALIVEs' % (o['txEcho'], self.flagged))
        return None

    def block(self):
        self.ex.do(['gate_close', 'c'])
        self.blocked = True

    def unblock(self):
        self.ex.do(['gate_open', 'c'])
        self.ex.do(['settle'])
        self.blocked = False

    def observe(self):
        ka = echo = to = cl = enq = 0
        gaps = []
        for e in self.ex.w.rec.events:
            if e['ep'] != 'c':
                continue
            if e['ev'] == 'enq' and e['ft'] == 'KEEPALIVE' and e['F']:
                enq += 1
            if e['ev'] == 'tx' and e['ft'] == 'KEEPALIVE':
                if e['F']:
                    ka += 1
                else:
                    echo += 1
            elif e['ev'] == 'cb_keepalive_timeout':
                to += 1
                gaps.append(e['x'])
            elif e['ev'] == 'cb_close':
                cl += 1
        return {'txKa': ka, 'txEcho': echo, 'timeouts': to, 'closes': cl, 'gaps': gaps, 'enqKa': enq}

    def close(self):
        try:
            self.ex.w.close()
        except BaseException:
            pass


def _mk(p, l):
    return type('RealKa_p%dl%d' % (p, l), (RealKa,), {'P': p, 'L': l})


def _state(vs):
    k = tlc.parse_value(vs['k'])
    return {'now': k['now'], 'enqKa': k['enqKa'], 'txKa': k['txKa'], 'txEcho': k['txEcho'], 'timeouts': k['timeouts'], 'closes': k['closes'],
            'gaps': [g * UNIT_MS for g in k['gaps']], 'alive': k['alive'], 'last': k['last']}


def _apply(real, name, args, before):
    if name == 'Tick':
        real.tick()
    elif name == 'PeerKa':
        real.peer_ka(args[0])
    elif name == 'Block':
        real.block()
    elif name == 'Unblock':
        real.unblock()
    elif name == 'Reconnect':
        real.reconnect()
    elif name == 'WriteFault':
        real.write_fault()
    else:
        raise common.Machinery('unknown KeepAlive action %r' % name)
    return None


def _compare(real, exp, obs):
    bad = real.oracle()
    if bad:
        return bad
    o = real.observe()
    for key in ('timeouts', 'gaps', 'enqKa', 'txKa', 'txEcho', 'closes'):
        if o[key] != exp[key]:
            return ('DRIFT', 'at time %d (last arrival %d): %s is %s, the specification says %s' % (exp['now'], exp['last'], key, o[key], exp[key]))
    return None


PAIRS = [(2, 3), (3, 2), (2, 2), (1, 4)]


def check(v):
    from concurrent.futures import ThreadPoolExecutor
    cfgs = ['KeepAlive_p%dl%d.cfg' % pl for pl in PAIRS] + ['KeepAlive_reconnect_wide.cfg' if common.tier() == 'thorough' else 'KeepAlive_reconnect.cfg',
                                                              'KeepAlive_fault.cfg']

    def one(c):
        return c, tlc.run('KeepAlive', c, workers=2, timeout=900, name='ka_' + c.replace('.cfg', ''))

    with ThreadPoolExecutor(max_workers=4) as ex:
        results = list(ex.map(one, cfgs))
    for cfg, r in results:
        if r.timed_out or not r.finished:
            raise common.Machinery('TLC did not finish on KeepAlive/%s: %s' % (cfg, r.out[-1500:]))
        if r.violated:
            v.add_failure('C15.design_%s' % r.violated, {'cfg': cfg}, 'TLC: %s violated in the keep-alive model %s' % (r.violated, cfg))
        v.add('states', r.distinct)
        v.add('transitions', r.generated)
        v.coverage.setdefault('mc_configs', {})[cfg] = {'states': r.distinct, 'transitions': r.generated, 'depth': r.depth, 'wall_s': round(r.wall, 1)}
    desc = lambda s: 'now=%d last=%d alive=%s txKa=%d txEcho=%d timeouts=%d closes=%d' % (
        s['now'], s['last'], s['alive'], s['txKa'], s['txEcho'], s['timeouts'], s['closes'])
    pairs = PAIRS if common.tier() == 'thorough' else PAIRS[:2]
    # keep-alive belongs to the connection: the same with a reconnect() at every point (healthy, after a time-out, after the close)
    rcfg = 'KeepAlive_reconnect_wide.cfg' if common.tier() == 'thorough' else 'KeepAlive_reconnect.cfg'
    for (p, l) in pairs:
        graphreplay.replay(v, 'KeepAlive', 'KeepAlive_p%dl%d.cfg' % (p, l), _mk(p, l), _apply, _compare, _state, prop='C15',
                           label='ka_p%dl%d' % (p, l), describe=desc)
    graphreplay.replay(v, 'KeepAlive', rcfg, _mk(2, 3), _apply, _compare, _state, prop='C15', label='ka_reconnect', describe=desc)
    # a half-dead connection at every point: the sender dies at its next write, the watchdog must report the silence all the same
    graphreplay.replay(v, 'KeepAlive', 'KeepAlive_fault.cfg', _mk(2, 3), _apply, _compare, _state, prop='C15', label='ka_fault', describe=desc)
