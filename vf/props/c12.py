"""C12: hostile input and failing application code are contained.  Families inject junk frames by class (built with the
independent encoder, so the class is known by construction) towards either endpoint and run interactions whose application code
raises at every entry point; a witness stream must complete with all its payloads and a probe request must be served afterwards.
Clauses C12.* of RSocket.tla; C01.* failures in these families count as C12 ('requests on other streams are still served correctly')."""
from .. import common
from . import conn, families, mc, dispatch, transportmodel


def run(v):
    # Dispatch.tla: every frame kind aimed at every stream state on both endpoints (the table TLC checks for containment, replayed)
    dispatch.check(v, 'C12')
    # Transport.tla: every short sequence of websocket messages (valid / undecodable / empty / not BINARY) x every ending, on every message transport class
    transportmodel.check(v, 'C12')
    # the routing layer: every request entry point of a real RoutingRequestHandler with damaged routing / composite metadata
    from . import routinghostile, taggingmodel
    taggingmodel.check(v, 'C12')          # Tagging.tla: the tag list as a function of arbitrary bytes (every body up to 4 / 5 bytes)
    routinghostile.check(v, 'C12')
    mc.run_for(v, 'C12')
    scns, res = conn.check(v, 'C12', families.FAMILIES['C12'], extra_clause_props=('C01',))
    classes = {}
    for s in scns:
        for e in s['events']:
            if e['ev'] == 'inject':
                classes[e['kind']] = classes.get(e['kind'], 0) + 1
    v.coverage['junk_classes_injected'] = classes
    from ..harness.junk import CLASSES
    never = [c for c in CLASSES if classes.get(c, 0) == 0]
    if never:
        # vacuity guard: a class that is in the generator's list but is never applicable in any scenario checks nothing
        raise common.Machinery('junk classes never injected in this run (no applicable scenario): %s' % ', '.join(never))
    v.coverage['raise_point_scenarios'] = sum(1 for s in scns if any(isinstance(st[-1], dict) and (st[-1].get('raise') or st[-1].get('pub_raise_in')
                                                                      or st[-1].get('sub_raise_in') or st[-1].get('raise_at') is not None)
                                                                     for st in s['prog'] if len(st) > 1))
