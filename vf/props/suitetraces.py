"""Traces of the REPOSITORY'S OWN TEST SUITE validated against the connection monitor (spec/RSocket.tla via RSocketTrace).

The pinned suite is run once, unedited, from the tree under check, with the pytest plugin vf/suiteplugin.py loaded (nothing in /repo is
changed): every RSocket endpoint the tests create - over kernel TCP sockets, aiohttp, quart, websockets, QUIC, HTTP/3 - records the
frames it queues and the frames it is handed.  One trace per CONNECTION of one endpoint (a single observed endpoint facing an unobserved
peer); every trace is replayed through the TLA+ monitor by TLC, and the clauses that can be decided from one endpoint's frames alone
(frame legality per stream and interaction type, stream-id discipline, CANCEL at most once, KEEPALIVE echoes) are judged.  Whether a
test passes or fails is irrelevant here (the suite has load-dependent flakes): a trace is whatever happened.

This reaches executions nobody in /verif designed: the suite's own handlers, payloads, transports and timing."""
import glob
import json
import os
import shutil
import subprocess
import tempfile

from .. import common, trace
from . import conn

# clauses decidable from the frames of one endpoint (own enq + own rx), by property
CLAUSES = {
    'C08': ('C08.connection_frames_on_stream0', 'C08.setup_first_once', 'C08.stream_parity', 'C08.initial_n_positive',
            'C08.first_frame_is_request', 'C08.type_allowed_for_role_and_kind', 'C08.no_payload_after_own_complete',
            'C08.nothing_after_termination'),
    'C09': ('C09.exactly_one_cancel_frame',),
    'C13': ('C13.allocated_id_not_active', 'C14.each_request_sent_at_most_once'),
    'C15': ('C15.no_echo_without_flag', 'C15.echo_exactly_once_same_data_flag_cleared'),
}


def record(select=None, timeout=1500):
    """run the pinned suite (or the tests selected) from common.REPO with the recording plugin; -> list of (test, unit)"""
    out = tempfile.mkdtemp(prefix='vf_suite_', dir=common.workdir())
    try:
        env = dict(os.environ, VERIF_SUITE_TRACES=out, PYTHONPATH=common.ROOT + os.pathsep + os.environ.get('PYTHONPATH', ''))
        py = common.PY + ' -m pytest -q -p no:cacheprovider -p vf.suiteplugin --timeout=900 %s' % (' '.join(select) if select else '')
        # a private network namespace (loopback only), as the baseline is run: the suite binds fixed ports
        inner = 'ip link set lo up 2>/dev/null; cd %s && %s > %s/log.txt 2>&1' % (common.REPO, py, out)
        cmd = ['unshare', '-rn', 'sh', '-c', inner]
        try:
            if subprocess.run(['unshare', '-rn', 'true'], capture_output=True, timeout=20).returncode != 0:
                cmd = ['sh', '-c', inner]           # (no user namespaces here: the suite runs on the host's loopback)
        except (OSError, subprocess.TimeoutExpired):
            cmd = ['sh', '-c', inner]
        try:
            subprocess.run(cmd, env=env, timeout=timeout)
        except subprocess.TimeoutExpired:
            raise common.Machinery('the repository suite did not finish within %d s' % timeout)
        units = []
        for f in sorted(glob.glob(os.path.join(out, '*.json'))):
            d = json.load(open(f))
            for u in d['units']:
                units.append((d['test'], u))
        tail = ''
        try:
            tail = open(os.path.join(out, 'log.txt')).read()[-400:]
        except OSError:
            pass
        return units, tail
    finally:
        shutil.rmtree(out, ignore_errors=True)


def check(v, prop, select=None):
    clauses = set(c for p in (CLAUSES if prop == 'C08' else {prop: CLAUSES.get(prop, ())}) for c in CLAUSES.get(p, ()))
    units, tail = record(select)
    if len(units) < (20 if select else 300):
        raise common.Machinery('only %d connection traces were recorded from the repository suite: %s' % (len(units), tail))
    traces = []
    for k, (test, u) in enumerate(units, 1):
        for e in u['events']:
            if e['ev'] == 'meta':
                e['kind'] = 'tcp'
        traces.append({'tid': k, 'events': u['events']})
    res, stats = trace.validate(traces)
    others = {}
    nfr = 0
    for k, (test, u) in enumerate(units, 1):
        nfr += len(u['events']) - 1
        for clause, idx in res.get(k, []):
            if clause not in clauses:
                others[clause] = others.get(clause, 0) + 1
                continue
            scn = {'events': u['events'], 'family': 'suite', 'opts': {'mode': 'tcp'}}
            e, sig = conn._ctx(scn, idx)
            v.add_failure(clause, sig, 'repository test %s, %s endpoint (%s), event #%d: %s' % (test, u['ep'], u['cls'], idx, conn._brief(e)),
                          {'kind': 'suite', 'test': test, 'ep': u['ep'], 'clause': clause, 'event_index': idx})
    v.add('suite_connection_traces_validated', len(units))
    v.add('suite_frames_validated', nfr)
    v.add('suite_tests_recorded', len(set(t for t, _ in units)))
    v.add('traces_validated_against_impl', len(units))
    v.add('states', stats['states'])
    v.coverage['suite_traces'] = {'connection_traces': len(units), 'frames': nfr, 'tests': len(set(t for t, _ in units)),
                                  'clauses_judged': sorted(clauses),
                                  'other_clauses_reported_by_the_monitor_not_judged_here': others,
                                  'truncated_traces': sum(1 for _, u in units if u.get('truncated'))}
    v.sample({'suite_trace': units[len(units) // 2][0], 'endpoint': units[len(units) // 2][1]['cls'],
              'events': [conn._brief(e) for e in units[len(units) // 2][1]['events'][1:9]]})
