"""C01: connection-level check (see DESIGN section 6 / C01): scenario families on the real endpoints, recorded traces
validated against RSocket.tla by TLC; design-level model checking of the same monitors in RSocketMC.tla."""
from . import conn, families, mc


def run(v):
    mc.run_for(v, 'C01')
    # (lease family: a parked request that is neither released nor kept when a lease allows it was not delivered)
    conn.check(v, 'C01', families.FAMILIES['C01'], also=('C14.released_when_lease_allows', 'C14.each_request_sent_at_most_once'))
