"""C13 stream ids.

(A) TLC checks StreamIds.tla exhaustively (every history of Allocate/Register/Finish/Incoming on
    reduced id spaces 0..7 and 0..15, both parities) against the declarative clauses of C13.
(B) spec -> code: the complete state graph is dumped (dot, action labels with arguments) and EVERY
    transition is replayed on the real rsocket.stream_control.StreamControl (id space reduced the
    way the suite does); the returned id / raised exception, the active set and the identity of the
    registered handler are compared after every step.  A second pass replays walks of the same graph
    at the REAL 31-bit scale through a window refinement (ids near 2^31-1 and near 0).
(C) connection level: vf/props/conn family 'ids' (parity on the wire, REJECTED on duplicate id).
"""
import os
import random

from .. import common, tlc


class _Unreachable(Exception):
    pass


class _H:
    """dummy stream handler that records frames dispatched to it"""

    def __init__(self, tag):
        self.tag = tag
        self.got = 0

    def frame_received(self, frame):
        self.got += 1


class _F:
    def __init__(self, sid):
        self.stream_id = sid


class RealCtl:
    """The real StreamControl behind the operations of the spec; `mapid` maps model ids to real ids."""

    def __init__(self, first, max_id, mapid=None, unmap=None, start_last=None):
        from rsocket.stream_control import StreamControl
        self.sc = StreamControl(first)
        self.mapid = mapid or (lambda i: i)
        self.unmap = unmap or (lambda i: i)
        if mapid is None:
            self.sc._maximum_stream_id = max_id      # the suite's way of reducing the id space
        if start_last is not None:
            self.sc._current_stream_id = self.mapid(start_last)
        self.handlers = {}
        self.n = 0

    def allocate(self):
        from rsocket.exceptions import RSocketStreamAllocationFailure
        try:
            return self.unmap(self.sc.allocate_stream())
        except RSocketStreamAllocationFailure:
            return 0

    def register(self, i):
        self.n += 1
        h = _H(self.n)
        self.sc.register_stream(self.mapid(i), h)
        self.handlers[i] = h

    def finish(self, i):
        self.sc.finish_stream(self.mapid(i))
        self.handlers.pop(i, None)

    def incoming(self, i):
        from rsocket.exceptions import RSocketStreamIdInUse
        try:
            self.sc.assert_stream_id_available(self.mapid(i))
        except RSocketStreamIdInUse:
            return -2
        self.register(i)
        return i

    def active(self, ids):
        from rsocket.exceptions import RSocketStreamIdInUse
        act = set()
        for i in ids:
            try:
                self.sc.assert_stream_id_available(self.mapid(i))
            except RSocketStreamIdInUse:
                act.add(i)
        return act

    def handler_ok(self, ids):
        """every active id dispatches to exactly the handler we registered last for it; inactive ids to nobody"""
        for i in ids:
            h = self.handlers.get(i)
            before = h.got if h else None
            r = self.sc.handle_stream(_F(self.mapid(i)))
            if h is None:
                if r:
                    return 'frame for inactive id %d was dispatched' % i
            else:
                if not r or h.got != before + 1:
                    return 'frame for id %d did not reach the handler registered for it' % i
        return None


def _apply(ctl, name, args):
    try:
        return _apply0(ctl, name, args)
    except Exception as ex:   # the library raised where the specification defines a result
        return 'raised %s: %s' % (type(ex).__name__, ex)


def _apply0(ctl, name, args):
    if name == 'Allocate':
        return ctl.allocate()
    if name == 'Register':
        ctl.register(args[0])
        return -1
    if name == 'Finish':
        ctl.finish(args[0])
        return -1
    if name == 'Incoming':
        return ctl.incoming(args[0])
    raise common.Machinery('unknown action ' + name)


def _canonical(first, max_id, last, active):
    """real object driven to (last, active) through public operations only"""
    ctl = RealCtl(first, max_id)
    init_last = (first + max_id + 1 - 2) % (max_id + 1)
    guard = 0
    cur = init_last
    while cur != last:
        cur = ctl.allocate()
        guard += 1
        if guard > max_id + 2 or cur == 0:
            raise _Unreachable('%d consecutive allocations on a fresh StreamControl(first=%d) never returned id %d' % (guard, first, last))
    for i in sorted(active):
        ctl.register(i)
    return ctl


def _resync(first, max_id, last, active):
    try:
        return _canonical(first, max_id, last, active)
    except _Unreachable:
        return RealCtl(first, max_id)


def replay_graph(v, cfgname, first, max_id, rnd):
    work = common.workdir()
    dump = os.path.join(work, 'ids_' + cfgname)
    r = tlc.run('StreamIds', 'StreamIds_%s.cfg' % cfgname, workers=1, dump=dump, timeout=600, name='dump' + cfgname)
    if not r.ok:
        raise common.Machinery('TLC dump failed: ' + r.out[-2000:])
    nodes, edges, inits = tlc.parse_dot(dump + '.dot')
    st = {}
    for nid, vs in nodes.items():
        st[nid] = (int(vs['last']), set(tlc.parse_value(vs['active'])), int(vs['res']))
    out = {}
    for (a, b, lab) in edges:
        out.setdefault(a, []).append((b, lab))
    ids = list(range(1, max_id + 1))
    todo = {a: list(range(len(es))) for a, es in out.items()}
    for a in todo:
        rnd.shuffle(todo[a])
    remaining = sum(len(x) for x in todo.values())
    total = remaining
    cur = inits[0]
    ctl = RealCtl(first, max_id)
    teleports = 0
    replayed = 0
    unreachable = 0
    pending_states = [a for a in todo if todo[a]]
    while remaining > 0:
        if not todo.get(cur):
            # teleport: fresh real object driven canonically to a state with unreplayed transitions
            while pending_states and not todo[pending_states[-1]]:
                pending_states.pop()
            if not pending_states:
                break
            cur = pending_states[-1]
            try:
                ctl = _canonical(first, max_id, st[cur][0], st[cur][1])
            except _Unreachable as ex:
                v.add_failure('C13.advances_by_two_and_wraps', {'action': 'Allocate', 'parity': first % 2, 'scale': 'reduced'},
                              str(ex), {'cfg': cfgname})
                remaining -= len(todo[cur])
                todo[cur] = []
                unreachable += 1
                if unreachable > 50:
                    break
                continue
            teleports += 1
        k = todo[cur].pop()
        remaining -= 1
        b, lab = out[cur][k]
        name, args = tlc.parse_action_label(lab)
        got = _apply(ctl, name, args)
        exp_last, exp_active, exp_res = st[b]
        replayed += 1
        sig = {'action': name, 'parity': first % 2, 'scale': 'reduced'}
        if got != exp_res:
            v.add_failure(_clause(name, got, exp_res, st[cur], first), dict(sig, got=got, expected=exp_res),
                          'state last=%d active=%s --%s--> expected res %d, StreamControl returned %s' % (
                              st[cur][0], sorted(st[cur][1]), lab, exp_res, got),
                          {'cfg': cfgname, 'state': [st[cur][0], sorted(st[cur][1])], 'action': lab})
            # resynchronise so the rest of the graph is still checked
            ctl = _resync(first, max_id, exp_last, exp_active)
        else:
            act = ctl.active(ids)
            if act != exp_active:
                v.add_failure('C13.active_set', dict(sig), 'after %s active=%s expected %s' % (lab, sorted(act), sorted(exp_active)),
                              {'cfg': cfgname, 'state': [st[cur][0], sorted(st[cur][1])], 'action': lab})
                ctl = _resync(first, max_id, exp_last, exp_active)
            else:
                why = ctl.handler_ok(ids)
                if why:
                    v.add_failure('C13.incoming_duplicate_rejected_and_not_replaced', dict(sig), why,
                                  {'cfg': cfgname, 'state': [st[cur][0], sorted(st[cur][1])], 'action': lab})
                    ctl = _resync(first, max_id, exp_last, exp_active)
        cur = b
    v.add('spec_transitions_replayed', replayed)
    v.add('spec_transitions_total', total)
    v.add('teleports', teleports)
    v.add('states', r.distinct)
    v.add('transitions', r.generated)
    v.sample({'cfg': cfgname, 'example_transition': edges[len(edges) // 2][2],
              'from': [st[edges[len(edges) // 2][0]][0], sorted(st[edges[len(edges) // 2][0]][1])]})
    return nodes, edges, inits, st, out


def _clause(name, got, exp, state, first):
    if isinstance(got, str):
        return 'C13.operation_raised'
    if name == 'Incoming':
        return 'C13.incoming_duplicate_rejected_and_not_replaced'
    if got == 0 and exp != 0:
        return 'C13.fails_only_when_full'
    if got != 0 and got > 0:
        if got % 2 != first % 2:
            return 'C13.parity'
        if got in state[1]:
            return 'C13.not_active'
    if got == 0 and name == 'Allocate' and exp == 0:
        return 'C13.nonzero'
    return 'C13.advances_by_two_and_wraps'


def replay_real_scale(v, st, out, inits, first, rnd, walks, steps):
    """window refinement: model ids 8..15 <-> real 2^31-8..2^31-1, model ids 0..7 <-> real 0..7 (MaxId=15 graph).
    Valid while the walk crosses the top of the id space at most once and never passes model id 7 afterwards."""
    top = 0x7FFFFFFF

    def mapid(m):
        return m if m < 8 else top - (15 - m)

    def unmap(r):
        if r <= 7:
            return r
        if r >= top - 7:
            return 15 - (top - r)
        return 1000 + (r % 2)   # outside the window: reported as a foreign value

    starts = [n for n, s in st.items() if s[0] >= 9]
    done = 0
    for w in range(walks):
        cur = rnd.choice(starts)
        last, active, _ = st[cur]
        ctl = RealCtl(first, 15, mapid=mapid, unmap=unmap, start_last=last)
        try:
            for i in sorted(active):
                ctl.register(i)
        except Exception as ex:
            v.add_failure('C13.operation_raised', {'action': 'Register', 'scale': 'real'},
                          'register_stream(%d) raised %s: %s' % (mapid(i), type(ex).__name__, ex))
            continue
        wrapped = False
        for _ in range(steps):
            es = out.get(cur, [])
            if not es:
                break
            b, lab = rnd.choice(es)
            name, args = tlc.parse_action_label(lab)
            if name == 'Allocate':
                # the window mapping is a refinement only while the scan of candidates does not walk from the
                # low window (<=7) into the high one (>=8): the real id space has 2^31-16 free ids in between
                l0, r0 = st[cur][0], st[b][2]
                if l0 <= 7:
                    valid = l0 < r0 <= 7
                else:
                    valid = (r0 > l0) or (1 <= r0 <= 7 and not wrapped)
                if not valid:
                    break
                if l0 >= 8 and r0 <= 7:
                    wrapped = True
            got = _apply(ctl, name, args)
            done += 1
            if got != st[b][2]:
                v.add_failure(_clause(name, got, st[b][2], st[cur], first),
                              {'action': name, 'parity': first % 2, 'scale': 'real', 'got': got, 'expected': st[b][2]},
                              'real-scale: state last=%d(model) active=%s --%s--> expected %d got %s' % (
                                  st[cur][0], sorted(st[cur][1]), lab, st[b][2], got),
                              {'scale': 'real', 'state': [st[cur][0], sorted(st[cur][1])], 'action': lab})
                break
            act = ctl.active(range(1, 16))
            if act != st[b][1]:
                v.add_failure('C13.active_set', {'action': name, 'scale': 'real'}, 'after %s' % lab)
                break
            cur = b
    v.add('real_scale_steps', done)


def _apalache(inv, expect_ok, timeout=900):
    import subprocess
    work = common.workdir()
    out = os.path.join(work, 'apalache_%s' % inv)
    try:
        p = subprocess.run(['apalache-mc', 'check', '--init=ScaleInit', '--next=ScaleNext', '--inv=' + inv, '--length=1', '--out-dir=' + out,
                            'StreamIdsScale.tla'], cwd=tlc.SPEC_DIR, stdout=subprocess.PIPE, stderr=subprocess.STDOUT, text=True, timeout=timeout)
    except (subprocess.TimeoutExpired, FileNotFoundError) as ex:
        raise common.Machinery('apalache-mc did not run to the end on StreamIdsScale/%s: %s' % (inv, ex))
    ok = 'EXITCODE: OK' in p.stdout and 'NoError' in p.stdout
    refuted = 'invariant 0 violated' in p.stdout
    if not ok and not refuted:
        raise common.Machinery('apalache-mc gave no verdict on StreamIdsScale/%s:\n%s' % (inv, p.stdout[-1500:]))
    return ok


def symbolic_real_scale(v, rnd):
    """StreamIdsScale.tla: the allocation step at the real 31-bit scale for EVERY allocator position and EVERY set of at most 4 active ids,
    decided symbolically by Apalache; a control invariant must be refuted; and the transcribed step function is compared with the real
    StreamControl on boundary and random states of that domain (the binding)."""
    from rsocket.stream_control import StreamControl
    from rsocket.exceptions import RSocketStreamAllocationFailure
    if not _apalache('ScaleInv', True):
        v.add_failure('C13.design_ScaleInv', {'model': 'StreamIdsScale'}, 'Apalache: ScaleInv refuted at the real 31-bit scale (the allocation step hands out 0 / an active id / '
                      'the wrong parity / not the first free id for some position and some set of up to 4 active ids)')
    if _apalache('ScaleNeverWraps', False):
        raise common.Machinery('control invariant ScaleNeverWraps of StreamIdsScale.tla was not refuted: the symbolic check is vacuous')
    v.coverage['symbolic_real_scale'] = 'Apalache: ScaleInv holds for all positions in 0..2^31-1 of either parity and all sets of <= 4 active ids; control refuted'
    mod = 2 ** 31

    def alloc(last, act):           # the step function of StreamIdsScale.tla
        cur = last
        for _ in range(6):
            cur = (cur + 2) % mod
            if cur != 0 and cur not in act:
                return cur
        return -1

    n = 0
    marks = [0, 1, 2, 3, 4, 5, mod - 1, mod - 2, mod - 3, mod - 4, mod - 5, mod // 2, mod // 2 + 1]
    for _ in range(4000):
        parity = rnd.randint(0, 1)
        last = rnd.choice(marks) if rnd.random() < 0.7 else rnd.randrange(mod)
        last -= (last - parity) % 2
        last %= mod
        act = set()
        for _k in range(rnd.randint(0, 4)):
            x = rnd.choice([(last + 2 * rnd.randint(1, 5)) % mod, rnd.choice(marks), rnd.randrange(1, mod)])
            if x != 0:
                act.add(x)
        sc = StreamControl(parity if parity else 2)
        sc._current_stream_id = last
        for a in act:
            sc._streams[a] = object()
        try:
            got = sc.allocate_stream()
        except RSocketStreamAllocationFailure:
            got = -1
        n += 1
        want = alloc(last, act)
        if got != want:
            v.add_failure('C13.advances_by_two_and_wraps', {'scale': 'real', 'model': 'StreamIdsScale'},
                          'allocator at %d with ids %s in use handed out %s, the specification step says %s' % (last, sorted(act), got, want))
            break
    v.add('real_scale_symbolic_domain_samples', n)


def run(v):
    thorough = common.tier() == 'thorough'
    rnd = random.Random(common.seed())
    symbolic_real_scale(v, rnd)
    cfgs = [('c7', 1, 7), ('s7', 2, 7), ('c15', 1, 15), ('s15', 2, 15)]
    # (A) exhaustive model checking with coverage
    for name, first, mx in cfgs:
        r = tlc.run('StreamIds', 'StreamIds_%s.cfg' % name, coverage=True, timeout=900, name='mc' + name)
        if r.violated:
            v.add_failure('C13.spec_' + r.violated, {'cfg': name}, 'TLC: %s violated in the specification itself' % r.violated)
        if not r.finished:
            raise common.Machinery('TLC did not finish on StreamIds_%s: %s' % (name, r.out[-1500:]))
        cov = r.coverage()
        for act in ('Allocate', 'Register', 'Finish', 'Incoming'):
            if cov.get(act, (0, 0))[1] == 0:
                v.notes.append('vacuity warning: action %s never taken in %s' % (act, name))
        v.add('mc_states', r.distinct)
        v.add('mc_transitions', r.generated)
    # (B) replay every transition on the real object
    graphs = {}
    for name, first, mx in cfgs:
        graphs[name] = (replay_graph(v, name, first, mx, rnd), first)
    for name in ('c15', 's15'):
        (nodes, edges, inits, st, out), first = graphs[name]
        replay_real_scale(v, st, out, inits, first, rnd, walks=4000 if thorough else 600, steps=40)
    # (C) connection level: parity / first id on the wire of real endpoints, duplicate incoming ids rejected without
    # disturbing the live stream (hostile class 'duplicate_request': witness and probe must still be served)
    from . import conn, families
    scns_res = conn.check(v, 'C13', families.FAMILIES['C13'], also=('C08.stream_parity', 'C17.ids_restart_at_first_id', 'C12.probe_served',
                                                          'C01.all_delivered_at_quiescence', 'C01.deliver_is_next', 'C01.correlation'))
    dups = sum(1 for sc in scns_res[0] for e in sc['events'] if e['ev'] == 'inject' and e['kind'] == 'duplicate_request')
    # (D) Dispatch.tla: every request type aimed at every kind of live stream, in either role, on both endpoints (DuplicateRejected)
    from . import dispatch
    dispatch.check(v, 'C13', only_duplicates=True)
    v.coverage['duplicate_requests_injected'] = dups
    if dups == 0:
        raise common.Machinery('no request frame re-using an active id was injected in this run: the connection-level part of C13 checked nothing')
    v.setc('traces_validated_against_impl', v.coverage.get('spec_transitions_replayed', 0) + v.coverage.get('traces_validated_against_impl', 0))
    v.setc('exhaustive', True)
    v.setc('rule', 'every transition of the complete TLC state graph of StreamIds.tla (MaxId 7 and 15, both parities) '
                   'replayed on the real StreamControl; plus random walks of the same graph at the real 31-bit scale')
    v.assumptions += ['id space reduced by StreamControl._maximum_stream_id exactly as tests/rsocket/test_stream_control.py does',
                      'real-scale walks set StreamControl._current_stream_id to start near 2^31-1 (window refinement)']
