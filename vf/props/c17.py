"""C17: connection-level check (see DESIGN section 6 / C17): scenario families on the real endpoints, recorded traces
validated against RSocket.tla by TLC; design-level model checking of the same monitors in RSocketMC.tla."""
from . import conn, families, mc, lifecycle


def run(v):
    mc.run_for(v, 'C17')
    # Lifecycle.tla: every sequence of reconnect / close / request / loss / racing calls within the constants, replayed on the real
    # client; the recorded paths are judged by the monitors of RSocket.tla
    lifecycle.check(v, ('C17.',), 'Lifecycle_reconnect.cfg')
    # "requests issued afterwards are served": with the right payloads - nothing of the old connection may leak into them
    conn.check(v, 'C17', families.FAMILIES['C17'], also=('C01.intact', 'C01.deliver_is_next', 'C01.correlation'))
