"""Lifecycle.tla: the life cycle of a client as the application sees it - reconnect(), close(), requests, loss of the link, and RACES
between them (the second call made while a reconnect is only j loop callbacks under way).

(A) TLC checks Lifecycle.tla exhaustively (every sequence of the calls within the constants; a race has the two serial orders as its
    only outcomes) against CloseOncePerConnection, OldTransportsClosed, WaitsOnlyOnDeadConnection, Accounted, ClosedStaysClosed.
(B) spec -> code: every transition of the state graph is replayed on a real RSocketClient / RSocketServer pair on the simulated link
    (prog.Exec).  The specification is nondeterministic at a race: the real client must be in ONE of the successor states it allows
    (graphreplay nondet); on_close callbacks, transports taken / closed, answered and waiting requests are compared after every step.
(C) code -> spec: the events recorded along every replayed path are validated against RSocket.tla by TLC (trace validation) - the
    clauses of C11 and C17 (and whatever else the monitors say) judge what the code did; a mismatch with the Lifecycle state alone
    is DRIFT, never a violation.
"""
from .. import common, tlc, trace
from . import graphreplay

PERIOD_MS = 200
_TRACES = []


class RealLifecycle:
    def __init__(self):
        import logging
        logging.disable(logging.CRITICAL)
        from ..harness import prog
        self.opts = {'mode': 'tcp', 'keepalive_ms': PERIOD_MS, 'lifetime_ms': 600000, 'read_buffer': 1024, 'frag': 64}
        self.ex = prog.Exec(dict(self.opts))
        self.steps = []
        self._do(['start'])
        self._do(['pump'])
        self.sent = 0            # requests made (probes and requests the peer leaves unanswered)
        self.fnfs = 0            # fire-and-forget calls
        self.blocked = False

    def _do(self, st):
        self.steps.append(st)
        self.ex.do(st)

    def _call(self, a):
        if a == 'probe':
            self.sent += 1
            self._do(['probe', 'c', [5 + self.sent, 0], [3, self.sent]])
        elif a == 'pend':
            self.sent += 1
            self._do(['rr', 'c', [9, self.sent], {'mode': 'later'}])
        elif a == 'fnf':
            self.fnfs += 1
            # (a payload of several fragments; with the transport blocked 0..2 of them get through before whatever happens next)
            self._do(['fnf', 'c', [[200, 0], [230, 20], [0, 190]][self.fnfs % 3] if self.blocked else [[200, 0], [10, 5], [0, 150]][self.fnfs % 3]])
            if self.blocked:
                self._do(['settle'])
                self._do(['gate', 'c', self.fnfs % 3])
                self._do(['settle'])
        elif a == 'cut':
            self._do(['cut', 's', 'eof'])
        elif a == 'cuterr':
            self._do(['cut', 'c', 'error'])
        elif a == 'close':
            self._do(['close', 'c'])
        elif a == 'reconnect':
            self._do(['reconnect'])
        else:
            raise common.Machinery('unknown call %r' % (a,))

    def act(self, name, args):
        if name == 'Probe':
            self._call('probe')
        elif name == 'Pend':
            self._call('pend')
        elif name == 'Cut':
            self._call('cut')
        elif name == 'CutErr':
            self._call('cuterr')
        elif name == 'Reconnect':
            self._call('reconnect')
        elif name == 'Close':
            self._call('close')
        elif name == 'Fnf':
            self._call('fnf')
            if self.blocked:
                return
        elif name == 'Block':
            self._do(['gate_close', 'c'])
            self.blocked = True
            return
        elif name == 'Unblock':
            self._do(['gate_open', 'c'])
            self.blocked = False
        elif name == 'Tick':
            self._do(['advance', PERIOD_MS + 10])
        elif name == 'Race':
            first, a, j = args[0], args[1], int(args[2])
            self._do(['reconnect', j] if first == 'reconnect' else ['close', 'c', j])
            if a == 'reconnect':
                self._do(['reconnect', 0])
            elif a == 'close':
                self._do(['close', 'c', 0])
            else:
                self._call(a)
        else:
            raise common.Machinery('unknown Lifecycle action %r' % name)
        if name in ('Cut', 'CutErr', 'Reconnect', 'Close', 'Race'):
            self.blocked = False        # (the connection the blocked transport belonged to is gone)
        self._do(['pump'])

    def observe(self):
        o = {'gen': 0, 'closeCbs': 0, 'tclosed': 0, 'answered': 0, 'fnfDone': 0}
        for e in self.ex.w.rec.events:
            if e['ep'] != 'c':
                continue
            if e['ev'] == 'transport_taken':
                o['gen'] = e['x']
            elif e['ev'] == 'cb_close':
                o['closeCbs'] += 1
            elif e['ev'] == 'transport_closed':
                o['tclosed'] += 1
            elif e['ev'] == 'cb_future':
                o['answered'] += 1
            elif e['ev'] == 'cb_sent':
                o['fnfDone'] += 1
        o['waiting'] = self.sent - o['answered']
        o['fnfWaiting'] = self.fnfs - o['fnfDone']
        return o

    def close(self):
        try:
            self._do(['finish'])
            _TRACES.append({'events': list(self.ex.w.rec.events), 'opts': self.opts, 'prog': self.steps})
        except BaseException:
            pass
        try:
            self.ex.w.close()
        except BaseException:
            pass


def _state(vs):
    k = tlc.parse_value(vs['k'])
    d = {key: k[key] for key in ('gen', 'closeCbs', 'tclosed', 'answered', 'hung', 'pending', 'up', 'appClosed')}
    d['waiting'] = k['hung'] + k['pending']
    d['fnfDone'] = k['fnfDone']
    d['fnfWaiting'] = k['unsent'] + k['fnfHung']
    return d


def _apply(real, name, args, before):
    real.act(name, args)
    return None


def _compare(real, exp, obs):
    o = real.observe()
    # oracle on the real observations alone (C11): never more close notifications than connections
    if o['closeCbs'] > o['gen']:
        return ('C11.on_close_exactly_once', '%d on_close callbacks for %d connection(s)' % (o['closeCbs'], o['gen']))
    for key in ('gen', 'closeCbs', 'tclosed', 'answered', 'waiting', 'fnfDone', 'fnfWaiting'):
        if o[key] != exp[key]:
            return ('DRIFT', '%s is %s, the specification says %s' % (key, o[key], exp[key]))
    return None


def check(v, props, quick_cfg, wide='Lifecycle_wide.cfg', label='lifecycle'):
    """props: clause prefixes that count as violations of the calling property (e.g. ('C17.', 'C11.')); quick_cfg: the configuration
    of the quick tier (races that start with reconnect() for C17, with close() for C11; the thorough tier has both, two races deep)"""
    del _TRACES[:]
    thorough = common.tier() == 'thorough'
    cfg = wide if thorough else quick_cfg
    r = tlc.run('Lifecycle', cfg, workers=2, timeout=900, name=label)
    if r.timed_out or not r.finished:
        raise common.Machinery('TLC did not finish on Lifecycle/%s: %s' % (cfg, r.out[-1500:]))
    if r.violated:
        v.add_failure('%sdesign_%s' % (props[0], r.violated), {'cfg': cfg}, 'TLC: %s violated in the life-cycle model %s' % (r.violated, cfg))
    v.add('states', r.distinct)
    v.add('transitions', r.generated)
    v.coverage.setdefault('mc_configs', {})[cfg] = {'states': r.distinct, 'transitions': r.generated, 'depth': r.depth, 'wall_s': round(r.wall, 1)}
    desc = lambda s: 'gen=%d up=%s closed=%s on_close=%d answered=%d waiting=%d' % (s['gen'], s['up'], s['appClosed'], s['closeCbs'], s['answered'], s['waiting'])
    graphreplay.replay(v, 'Lifecycle', cfg, RealLifecycle, _apply, _compare, _state, prop=props[0].rstrip('.'), label=label, describe=desc,
                       nondet=True)
    _validate_paths(v, props, 'Lifecycle', label)


def _validate_paths(v, props, model, label):
    """code -> spec: what was recorded along the replayed paths, judged by the monitors of RSocket.tla"""
    batch = [{'tid': i + 1, 'events': t['events']} for i, t in enumerate(_TRACES)]
    res, stats = trace.validate(batch)
    n = 0
    for tid, fails in sorted(res.items()):
        for clause, idx in fails:
            if any(clause.startswith(p) for p in props):
                n += 1
                if n <= 20:
                    ev = [e for e in batch[tid - 1]['events'] if e['ev'] != 'bytes_in']
                    e0 = ev[idx - 1] if 0 < idx <= len(ev) else {}
                    v.add_failure(clause, {'model': model, 'ev': e0.get('ev', '')},
                                  '%s path %d, event #%d %s' % (model, tid, idx, {a: b for a, b in e0.items() if b not in (0, '', -1, [], None)}),
                                  {'kind': 'conn', 'opts': _TRACES[tid - 1]['opts'], 'prog': _TRACES[tid - 1]['prog']})
            else:
                v.coverage.setdefault('other_properties_observed', {})
                v.coverage['other_properties_observed'][clause] = v.coverage['other_properties_observed'].get(clause, 0) + 1
    v.add(label + '_paths_trace_validated', len(batch))
    v.add(label + '_trace_events_validated', sum(len(t['events']) for t in batch))
    del _TRACES[:]


# ---------------------------------------------------------------------------------------------------------------------------------
# ServerLifecycle.tla: one server-side connection - close() by the server application, loss of the client, requests either way, and
# races that start with close()

class RealServerLifecycle:
    def __init__(self):
        import logging
        logging.disable(logging.CRITICAL)
        from ..harness import prog
        self.opts = {'mode': 'tcp', 'keepalive_ms': 60000, 'lifetime_ms': 600000, 'read_buffer': 1024}
        self.ex = prog.Exec(dict(self.opts))
        self.steps = []
        self._do(['start'])
        self._do(['pump'])
        self.sent = 0            # requests the server application made
        self.asked = 0           # requests the client made

    def _do(self, st):
        self.steps.append(st)
        self.ex.do(st)

    def _call(self, a):
        if a == 'probe':
            self.sent += 1
            self._do(['probe', 's', [5 + self.sent, 0], [3, self.sent]])
        elif a == 'pend':
            self.sent += 1
            self._do(['rr', 's', [9, self.sent], {'mode': 'later'}])
        elif a == 'handle':
            self.asked += 1
            self._do(['rr', 'c', [12, self.asked], {'mode': 'later'}])
        elif a == 'cut':
            self._do(['cut', 'c', 'eof'])            # the client's direction ends: the server reads EOF
        elif a == 'cuterr':
            self._do(['cut', 's', 'error'])          # the server's own writes fail
        elif a == 'close':
            self._do(['close', 's'])
        else:
            raise common.Machinery('unknown call %r' % (a,))

    def act(self, name, args):
        if name == 'Race':
            a, j = args[0], int(args[1])
            self._do(['close', 's', j])
            if a == 'close':
                self._do(['close', 's', 0])
            else:
                self._call(a)
        else:
            self._call({'Probe': 'probe', 'Pend': 'pend', 'Handle': 'handle', 'Cut': 'cut', 'CutErr': 'cuterr', 'Close': 'close'}[name])
        self._do(['pump'])

    def observe(self):
        o = {'closeCbs': 0, 'tclosed': 0, 'answered': 0, 'cancelled': 0, 'handled': 0}
        mine = set()
        for e in self.ex.w.rec.events:
            if e['ev'] == 'app_request' and e['ep'] == 's':
                mine.add(e['iid'])
            if e['ep'] != 's':
                continue
            if e['ev'] == 'cb_close':
                o['closeCbs'] += 1
            elif e['ev'] == 'transport_closed':
                o['tclosed'] += 1
            elif e['ev'] == 'cb_future' and e.get('iid') in mine:
                o['answered'] += 1
            elif e['ev'] == 'cb_resp_future_done':
                o['cancelled'] += 1
            elif e['ev'] == 'cb_request':
                o['handled'] += 1
        o['waiting'] = self.sent - o['answered']
        return o

    def close(self):
        try:
            self._do(['finish'])
            _TRACES.append({'events': list(self.ex.w.rec.events), 'opts': self.opts, 'prog': self.steps})
        except BaseException:
            pass
        try:
            self.ex.w.close()
        except BaseException:
            pass


def _sstate(vs):
    k = tlc.parse_value(vs['k'])
    d = {key: k[key] for key in ('closeCbs', 'tclosed', 'answered', 'hung', 'pending', 'handling', 'cancelled', 'up', 'appClosed')}
    d['waiting'] = k['hung'] + k['pending']
    return d


def _sapply(real, name, args, before):
    real.act(name, args)
    return None


def _scompare(real, exp, obs):
    o = real.observe()
    if o['closeCbs'] > 1:
        return ('C11.on_close_exactly_once', '%d on_close callbacks on one server-side connection' % o['closeCbs'])
    for key in ('closeCbs', 'tclosed', 'answered', 'waiting', 'cancelled'):
        if o[key] != exp[key]:
            return ('DRIFT', '%s is %s, the specification says %s' % (key, o[key], exp[key]))
    return None


def check_server(v, props):
    """ServerLifecycle.tla: (A) TLC, (B) nondeterministic graph replay on a real pair observed at the SERVER endpoint, (C) the recorded
    paths validated against RSocket.tla (the C11 clauses judge)"""
    del _TRACES[:]
    thorough = common.tier() == 'thorough'
    cfg = 'ServerLifecycle_wide.cfg' if thorough else 'ServerLifecycle.cfg'
    r = tlc.run('ServerLifecycle', cfg, workers=2, timeout=900, name='slifecycle')
    if r.timed_out or not r.finished:
        raise common.Machinery('TLC did not finish on ServerLifecycle/%s: %s' % (cfg, r.out[-1500:]))
    if r.violated:
        v.add_failure('%sdesign_%s' % (props[0], r.violated), {'cfg': cfg}, 'TLC: %s violated in the server life-cycle model %s' % (r.violated, cfg))
    v.add('states', r.distinct)
    v.add('transitions', r.generated)
    v.coverage.setdefault('mc_configs', {})[cfg] = {'states': r.distinct, 'transitions': r.generated, 'depth': r.depth, 'wall_s': round(r.wall, 1)}
    desc = lambda s: 'up=%s closed=%s on_close=%d answered=%d waiting=%d handling=%d cancelled=%d' % (
        s['up'], s['appClosed'], s['closeCbs'], s['answered'], s['waiting'], s['handling'], s['cancelled'])
    graphreplay.replay(v, 'ServerLifecycle', cfg, RealServerLifecycle, _sapply, _scompare, _sstate, prop=props[0].rstrip('.'), label='slifecycle',
                       describe=desc, nondet=True)
    _validate_paths(v, props, 'ServerLifecycle', 'slifecycle')
