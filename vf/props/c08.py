"""C08: connection-level check (see DESIGN section 6 / C08): scenario families on the real endpoints, recorded traces
validated against RSocket.tla by TLC; design-level model checking of the same monitors in RSocketMC.tla."""
from .. import common
from . import conn, families, mc, suitetraces

# quick tier: the stream / channel / multiple-stream / fragmentation / lease / keep-alive tests of the repository over TCP (about 20 s);
# thorough tier: the whole pinned suite, every transport
QUICK_SUITE = ['tests/rsocket/test_request_channel.py', 'tests/rsocket/test_request_stream.py', 'tests/rsocket/test_multiple_streams.py',
               'tests/rsocket/test_fragments.py', 'tests/rsocket/test_lease.py', 'tests/rsocket/test_connection_lost.py', 'tests/rsocket/test_misbehaving_client.py',
               'tests/rsocket/test_request_response.py', 'tests/rx_support', '-k', '"tcp or not (quart or aiohttp)"']


def run(v):
    mc.run_for(v, 'C08')
    conn.check(v, 'C08', families.FAMILIES['C08'])
    # the repository's own tests, recorded on whatever transport they use, validated against the same monitor
    suitetraces.check(v, 'C08', select=None if common.tier() == 'thorough' else QUICK_SUITE)
