"""Mux.tla: the send queue discipline (send_frame / send_priority_frame / _get_next_frame_to_send / _cycle_send_queue) and the
peer's FrameFragmentCache.

(A) TLC checks Mux.tla exhaustively (every interleaving of queueing, sender iterations and receiver steps within the
    constants) against PerStreamOrder, ReassembledExact, DeliveredInOrderOnce, SetupFirst, InterleaveOnlyOtherStreams,
    CacheSingleFrame and the liveness properties EventuallyDrained / AllDelivered.  Two control configurations must be
    REFUTED: Mux_naive (the discipline before fix c39cf4d violates PerStreamOrder) and Mux_witness (interleaving of other
    streams between fragments really occurs) - a vacuity guard for the invariants.
(B) spec -> code: the complete state graph of Mux_small is dumped and EVERY transition is replayed on the real code: a real
    RSocketClient whose queue is filled through send_frame()/RSocketBase.connect(), whose sender iteration
    `_get_next_frame_to_send` is stepped by hand (the coroutine never suspends when the queue is non-empty), and whose
    written fragments are serialised, re-parsed by the real parser and fed to a real FrameFragmentCache.  After every step
    the written fragment (stream, frame, follows), the order of the real queue and the reassembled frames are compared with
    the successor state of the specification.
"""
import os

from .. import common, tlc

FRAG = 64
BODY = 55          # fragment body of a PAYLOAD frame at size 64 on a length-prefixed transport (checked below)


_LOOP = None


class _Transport:
    def requires_length_header(self):
        return True


def _drive(coro):
    """run a coroutine that is expected not to suspend"""
    try:
        coro.send(None)
    except StopIteration as s:
        return s.value
    coro.close()
    raise common.Machinery('a sender step suspended although the queue is not empty')


class RealMux:
    def __init__(self):
        from rsocket.rsocket_client import RSocketClient
        from rsocket.frame_fragment_cache import FrameFragmentCache

        async def provider():
            yield _Transport()

        # the constructor creates the reconnect-listener task: it needs a "running" loop, which is never actually run
        import asyncio
        global _LOOP
        if _LOOP is None:
            _LOOP = asyncio.new_event_loop()
        asyncio.events._set_running_loop(_LOOP)
        try:
            self.client = RSocketClient(provider(), fragment_size_bytes=FRAG)
            t = self.client._reconnect_task
            if t is not None:
                t.cancel()
        finally:
            asyncio.events._set_running_loop(None)
        _LOOP.run_until_complete(asyncio.sleep(0))      # lets the cancelled listener task finish
        self.client._reset_internals()          # what RSocketClient.connect() does before anything can be queued
        self.transport = _Transport()
        self.cache = FrameFragmentCache()
        self.written = []        # serialised fragments, in order
        self.rpos = 0
        self.out = []            # reassembled: (sid, fid, nbytes or n, type name)
        self.meta = {}           # fid -> (sid, k, expected content)
        self.tags = {}
        self.enq_log = []        # (sid, fid) in queueing order
        self.wire = []           # (sid, fid, follows) as written
        self.setup_queued = False

    # --- Enq
    def enq(self, sid, fid, k):
        from rsocket.frame_builders import to_payload_frame, to_request_n_frame
        from rsocket.payload import Payload
        if sid == 0:
            # a connection-level frame (KEEPALIVE, queued by the keep-alive task / as an echo): never fragmented, written once
            from rsocket.frame_builders import to_keepalive_frame
            f = to_keepalive_frame(bytes([fid]) * 8)
            self.meta[fid] = (0, 1, ('KEEPALIVE', fid))
        elif k == 1 and fid % 2 == 0:
            f = to_request_n_frame(sid, fid)
            self.meta[fid] = (sid, k, ('REQUEST_N', fid))
        else:
            n = 10 if k == 1 else BODY * (k - 1) + 20
            data = bytes([fid]) * n
            f = to_payload_frame(sid, Payload(data), complete=(fid % 3 == 0), is_next=True, fragment_size_bytes=FRAG)
            self.meta[fid] = (sid, k, ('PAYLOAD', data, fid % 3 == 0))
        self._tag(f, fid)
        self.enq_log.append((sid, fid))
        self.client.send_frame(f)

    def _tag(self, f, fid):
        self.tags[id(f)] = (fid, f)     # keep the frame alive so that id() stays unique

    def enq_setup(self):
        from rsocket.rsocket_base import RSocketBase
        _drive(RSocketBase.connect(self.client))      # the part of connect() that runs once the transport is there
        self.setup_queued = True

    # --- Send: one iteration of the sender loop, as in RSocketBase._sender
    def send(self):
        from rsocket.frame import SetupFrame
        if self.client._send_queue.empty():
            return None         # only possible after the implementation drifted from the specification
        cm = self.client._get_next_frame_to_send(self.transport)
        frame = _drive(cm.__aenter__())
        raw = frame.serialize()
        _drive(cm.__aexit__(None, None, None))
        self.written.append(raw)
        if isinstance(frame, SetupFrame):
            self.wire.append((0, 0, False))
            return (0, 0, False)
        sid = frame.stream_id
        follows = bool(getattr(frame, 'flags_follows', False))
        fid = self._fid_of_bytes(raw)
        self.wire.append((sid, fid, follows))
        return (sid, fid, follows)

    def oracle(self):
        """the invariants of Mux.tla (C05 and its consequences) evaluated on what the real code wrote and reassembled"""
        if self.setup_queued and self.wire and self.wire[0][0] != 0:
            return ('C05.setup_first', 'SETUP was queued with priority but the first frame on the wire belongs to stream %d' % self.wire[0][0])
        for sid in set(s for s, _ in self.enq_log):
            want = [f for s, f in self.enq_log if s == sid]
            runs = []           # [fid, closed]
            for (s, f, follows) in self.wire:
                if s != sid or (s == 0 and f == 0):         # (the SETUP frame is not a queued stream-0 frame of the model)
                    continue
                if runs and not runs[-1][1]:
                    if runs[-1][0] != f:
                        return ('C05.no_foreign_frame_inside_fragmented_frame_of_same_stream',
                                'stream %d: a fragment of frame %d was written between the fragments of frame %d' % (sid, f, runs[-1][0]))
                    runs[-1][1] = not follows
                else:
                    runs.append([f, not follows])
            got = [r[0] for r in runs]
            if got != want[:len(got)]:
                return ('C05.per_stream_queueing_order', 'stream %d: frames reached the wire in the order %s, queued in the order %s' % (sid, got, want))
        once = set()
        for k, (s_, f_, follows) in enumerate(self.wire):
            if s_ == 0 and f_ != 0:
                if f_ in once:
                    return ('C15.echo_exactly_once_same_data_flag_cleared', 'the connection-level frame %d was written twice' % f_)
                once.add(f_)
        seen = {}
        for (rs, rf, content) in self.out:
            if rs == 0:
                continue
            seen.setdefault(rs, []).append(rf)
            if rf not in self.meta or content != self.meta[rf][2]:
                want = self.meta.get(rf, (None, None, None))[2]
                return ('C05.reassembled_intact', 'stream %d: the peer reassembled %s, queued was %s' % (rs, _short(content), _short(want)))
        for sid, fids in seen.items():
            want = [f for s, f in self.enq_log if s == sid]
            if fids != want[:len(fids)]:
                return ('C05.delivered_in_order_once', 'stream %d: the peer reassembled frames %s, queued in the order %s' % (sid, fids, want))
        return None

    def _fid_of_bytes(self, raw):
        from rsocket.frame import parse_or_ignore, RequestNFrame
        f = parse_or_ignore(raw)
        if isinstance(f, RequestNFrame):
            return f.request_n
        d = f.data or b''
        return d[0] if d else -1            # (KEEPALIVE frames carry the frame id in their data as well)

    def queue(self):
        res = []
        for f in list(self.client._send_queue._queue):
            t = self.tags.get(id(f))
            res.append((f.stream_id, t[0] if t else 0))
        return res

    # --- Recv
    def recv(self):
        from rsocket.frame import parse_or_ignore, SetupFrame, RequestNFrame, KeepAliveFrame
        if self.rpos >= len(self.written):
            return              # (drifted implementation)
        raw = self.written[self.rpos]
        self.rpos += 1
        f = parse_or_ignore(raw)
        if isinstance(f, SetupFrame):
            self.out.append((0, 0, 'SETUP'))
            return
        if isinstance(f, RequestNFrame):
            self.out.append((f.stream_id, f.request_n, ('REQUEST_N', f.request_n)))
            return
        if isinstance(f, KeepAliveFrame):
            self.out.append((0, (f.data or b'\xff')[0], ('KEEPALIVE', (f.data or b'\xff')[0])))
            return
        whole = self.cache.append(f)
        if whole is not None:
            d = whole.data or b''
            self.out.append((whole.stream_id, d[0] if d else -1, ('PAYLOAD', bytes(d), bool(whole.flags_complete))))


def _state(vs):
    q = tlc.parse_value(vs['q'])
    wire = tlc.parse_value(vs['wire'])
    out = tlc.parse_value(vs['out'])
    return {'q': [(x['sid'], x['fid']) for x in q], 'wire': [(x['sid'], x['fid'], x['follows']) for x in wire],
            'rpos': int(vs['rpos']), 'out': [(fr[0]['sid'], fr[0]['fid'], len(fr)) for fr in out],
            'nextFid': int(vs['nextFid'])}


def _apply(real, name, args, st_before):
    if name == 'Enq':
        real.enq(args[0], st_before['nextFid'], args[1])
        return None
    if name == 'EnqSetup':
        real.enq_setup()
        return None
    if name == 'Send':
        return real.send()
    if name == 'Recv':
        real.recv()
        return None
    raise common.Machinery('unknown Mux action %r' % name)


def _short(c):
    if c is None:
        return 'nothing'
    if c[0] == 'PAYLOAD':
        return 'PAYLOAD(%d bytes, complete=%s)' % (len(c[1]), c[2])
    return '%s(%s)' % (c[0], c[1])


def _compare(real, exp, sent):
    """(clause, detail): the real code violates C05 (oracle on its own observations); ('DRIFT', detail): it only left the
    specification state; None: it is in the specification state"""
    bad = real.oracle()
    if bad:
        return bad
    if sent is not None:
        w = exp['wire'][-1]
        if tuple(sent) != (w[0], w[1], bool(w[2])):
            return ('DRIFT', 'sender wrote (sid,frame,follows)=%s, specification says %s' % (sent, w))
    rq = real.queue()
    if rq != exp['q']:
        return ('DRIFT', 'send queue is %s, specification says %s' % (rq, exp['q']))
    ro = [(a, b) for (a, b, _) in real.out]
    eo = [(a, b) for (a, b, _) in exp['out']]
    if ro != eo:
        return ('DRIFT', 'peer reassembled %s, specification says %s' % (ro, eo))
    return None


def replay_graph(v, cfg='Mux_small.cfg', max_edges=None):
    from . import graphreplay
    graphreplay.replay(v, 'Mux', cfg, RealMux, _apply, _compare, _state, prop='C05', label='mux',
                       describe=lambda s: 'q=%s wire=%s' % (s['q'], s['wire']), max_edges=max_edges)


def model_check(v, thorough):
    from concurrent.futures import ThreadPoolExecutor
    cfgs = [('Mux_small.cfg', None), ('Mux_naive.cfg', 'PerStreamOrder'), ('Mux_witness.cfg', 'NeverInterleaved')]
    if thorough:
        cfgs += [('Mux.cfg', None), ('Mux_three.cfg', None), ('Mux_conn3.cfg', None)]

    def one(c):
        return c, tlc.run('Mux', c[0], workers=4, timeout=1500, name='mux_' + c[0].replace('.cfg', ''))

    with ThreadPoolExecutor(max_workers=3) as ex:
        results = list(ex.map(one, cfgs))
    for (cfg, expect), r in results:
        if r.timed_out or not r.finished and not r.violated:
            raise common.Machinery('TLC did not finish on Mux/%s: %s' % (cfg, r.out[-1500:]))
        if expect is None:
            if r.violated:
                v.add_failure('C05.design_%s' % r.violated, {'cfg': cfg}, 'TLC: %s violated in the send-path model %s' % (r.violated, cfg))
        elif r.violated != expect:
            raise common.Machinery('control configuration %s should refute %s but TLC reported %r' % (cfg, expect, r.violated))
        v.add('states', r.distinct)
        v.add('transitions', r.generated)
        v.coverage.setdefault('mc_configs', {})[cfg] = {'states': r.distinct, 'transitions': r.generated, 'depth': r.depth,
                                                        'wall_s': round(r.wall, 1), 'expected_refutation': expect}


def check(v):
    thorough = common.tier() == 'thorough'
    model_check(v, thorough)
    replay_graph(v)
    replay_graph(v, cfg='Mux_conn.cfg')         # connection-level frames (stream 0) next to one stream
    if thorough:
        # connection-level frames next to TWO streams behind a queued SETUP (164 434 states); the first 40 000 transitions in DFS order
        replay_graph(v, cfg='Mux_conn3.cfg', max_edges=40000)
