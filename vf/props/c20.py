"""C20: Rx (v3) / ReactiveX (v4) adapters are transparent.  The scenarios of C01/C06/C07/C09 are driven through the adapter clients and the
handler adapters (vf/harness/adapters.py maps observer callbacks to the same events), so the SAME monitors of RSocket.tla judge them - the
application-level projection of an adapter run must satisfy exactly what a core-API run must.  Extra clauses: C20.batch_is_request_limit,
C20.factory_asked_exactly_credited; C01/C06/C07/C09 clause failures in these families count as C20 violations."""
from . import conn, families, mc, sourcemodel, demandmodel


def run(v):
    # the adapters' two halves in isolation: observable-backed publishers (Source.tla) and rate-limited subscribers (Demand.tla)
    sourcemodel.check(v, 'C20')
    demandmodel.check(v, 'C20')
    mc.run_for(v, 'C20')
    scns, res = conn.check(v, 'C20', families.FAMILIES['C20'], extra_clause_props=('C01', 'C06', 'C07', 'C09', 'C11'))
    v.coverage['versions'] = sorted(set(s['opts'].get('adapters') for s in scns))
    kinds = {}
    for s in scns:
        for e in s['events']:
            if e['ev'] == 'app_producer':
                kinds[e['kind']] = kinds.get(e['kind'], 0) + 1
    v.coverage['producer_kinds'] = kinds
