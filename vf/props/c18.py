"""C18 extension metadata codecs (composite metadata, routing tags, authentication, data MIME type(s), MIME headers).

CompositeMetadata.tla is an independent transcription of the extension layouts; TLC enumerates entry lists, checks the length
identities and format limits in the model and prints (value, encoding).  Every printed list - plus random longer lists composed of the
same specification entries - is replayed on the real classes:
  C18.encode_matches_layout   real serialize() == specification bytes
  C18.decode_yields_same_value parse of the specification bytes gives the same entries (after the library's own name normalisation)
  C18.reencode_canonical      decode then encode reproduces the bytes
  C18.ids_names_one_to_one    well-known MIME / authentication ids and names map one-to-one, every id of the table round-trips
  C18.overlong_rejected       over-long MIME names (129, 200 bytes) and tags (256, 1000 bytes) are rejected at encode time
"""
import hashlib
import json
import random

from .. import common, tlc


def _blob(tag, length, seed):
    if length == 0:
        return b''
    h = hashlib.sha256(('cm/%d/%d/%d' % (tag, length, seed)).encode()).digest()
    out = (h * (length // len(h) + 1))[:length]
    if tag in (2, 3, 4, 5):
        out = bytes(0x61 + (b % 26) for b in out)
    if tag == 3:
        out = b'x/' + out[2:] if length > 2 else out      # never collide with a well-known name
    if tag == 2 and seed % 2 == 1:
        # every other routing tag is non-ASCII text (2-byte UTF-8 characters): the format's limit and length prefix count BYTES
        out = ('\u00e9' * (length // 2)).encode('utf-8') + (b'z' if length % 2 else b'')
    return out


def _tag_value(length, seed):
    """what the application passes as a routing tag: bytes, or - for the non-ASCII ones - the text itself (str)"""
    b = _blob(2, length, seed)
    return b.decode('utf-8') if seed % 2 == 1 else b


def expand(items, seed):
    out = bytearray()
    for x in items:
        if x >= 0:
            out.append(x)
        else:
            out += _blob((-x) % 8, (-x) // 8, seed)
    return bytes(out)


def _mime(ref, seed, names_by_id):
    """what the application passes for a MIME reference: well-known -> its NAME (bytes) or the enum; custom -> the name bytes"""
    if ref['k'] == 'wk':
        return names_by_id[ref['x']]
    return _blob(3, ref['x'], seed)


def build_entry(e, seed, use_enum, names_by_id, enum_by_id):
    from rsocket.extensions.composite_metadata_item import CompositeMetadataItem
    from rsocket.extensions.routing import RoutingMetadata
    from rsocket.extensions.authentication import AuthenticationSimple, AuthenticationBearer
    from rsocket.extensions.authentication_content import AuthenticationContent
    from rsocket.extensions.stream_data_mimetype import StreamDataMimetype, StreamDataMimetypes

    def m(ref):
        if ref['k'] == 'wk' and use_enum and ref['x'] in enum_by_id:
            return enum_by_id[ref['x']]
        return _mime(ref, seed, names_by_id)

    k = e['kind']
    if k == 'generic':
        return CompositeMetadataItem(m(e['mime']), _blob(1, e['cl'], seed))
    if k == 'routing':
        return RoutingMetadata([_tag_value(t, seed + i) for i, t in enumerate(e['tags'])])
    if k == 'auth_simple':
        return AuthenticationContent(AuthenticationSimple(_blob(4, e['a'], seed), _blob(5, e['b'], seed)))
    if k == 'auth_bearer':
        return AuthenticationContent(AuthenticationBearer(_blob(6, e['a'], seed)))
    if k == 'mime_type':
        return StreamDataMimetype(m(e['refs'][0]))
    if k == 'accept':
        return StreamDataMimetypes([m(r) for r in e['refs']])
    raise ValueError(k)


def entry_items_fix(e, items, seed):
    """routing tags use per-position blobs (seed + i): expand accordingly"""
    return items


def expand_entry(e, enc_items, seed):
    if e['kind'] != 'routing':
        return expand(enc_items, seed)
    # header (1) + len (3) then tags: each <len> [blob]
    out = bytearray(expand(enc_items[:4], seed))
    i = 0
    rest = enc_items[4:]
    k = 0
    while k < len(rest):
        out.append(rest[k])
        ln = rest[k]
        k += 1
        if ln > 0:
            out += _blob(2, ln, seed + i)
            k += 1
        i += 1
    return bytes(out)


def describe_item(it, names_by_id):
    """normal form of a parsed / built item for comparison"""
    from rsocket.extensions.routing import RoutingMetadata
    from rsocket.extensions.authentication_content import AuthenticationContent
    from rsocket.extensions.authentication import AuthenticationSimple, AuthenticationBearer
    from rsocket.extensions.stream_data_mimetype import StreamDataMimetype, StreamDataMimetypes

    def name(x):
        if hasattr(x, 'value'):
            x = x.value
        if hasattr(x, 'name') and not isinstance(x, (bytes, bytearray, str)):
            x = x.name
        if isinstance(x, str):
            x = x.encode()
        return bytes(x).hex()

    if isinstance(it, RoutingMetadata):
        return ['routing', [bytes(t).hex() for t in it.tags]]
    if isinstance(it, AuthenticationContent):
        a = it.authentication
        if isinstance(a, AuthenticationSimple):
            return ['auth_simple', bytes(a.username).hex(), bytes(a.password).hex()]
        if isinstance(a, AuthenticationBearer):
            return ['auth_bearer', bytes(a.token).hex()]
        return ['auth_other']
    if isinstance(it, StreamDataMimetypes):
        return ['accept', [name(x) for x in it.data_encodings]]
    if isinstance(it, StreamDataMimetype):
        return ['mime_type', name(it.data_encoding)]
    return ['generic', name(it.encoding), bytes(it.content or b'').hex()]


def expected_item(e, seed, names_by_id):
    def name(ref):
        return bytes(_mime(ref, seed, names_by_id)).hex()

    k = e['kind']
    if k == 'generic':
        return ['generic', name(e['mime']), _blob(1, e['cl'], seed).hex()]
    if k == 'routing':
        return ['routing', [_blob(2, t, seed + i).hex() for i, t in enumerate(e['tags'])]]
    if k == 'auth_simple':
        return ['auth_simple', _blob(4, e['a'], seed).hex(), _blob(5, e['b'], seed).hex()]
    if k == 'auth_bearer':
        return ['auth_bearer', _blob(6, e['a'], seed).hex()]
    if k == 'mime_type':
        return ['mime_type', name(e['refs'][0])]
    return ['accept', [name(r) for r in e['refs']]]


def run(v):
    from rsocket.extensions.composite_metadata import CompositeMetadata
    from rsocket.extensions.mimetypes import WellKnownMimeTypes
    from rsocket.extensions.authentication_types import WellKnownAuthenticationTypes
    thorough = common.tier() == 'thorough'
    seed = common.seed()
    rnd = random.Random(seed)
    # Tagging.tla: every tag-list body up to 4 / 5 bytes: a well-formed one decodes to exactly its tags and re-encodes to itself
    from . import taggingmodel
    taggingmodel.check(v, 'C18')
    r = tlc.run('CompositeMetadata', 'CompositeMetadata.cfg', workers=1, timeout=600, name='cm')
    if not r.finished:
        raise common.Machinery('TLC did not finish on CompositeMetadata: ' + r.out[-1500:])
    if r.violated:
        v.add_failure('C18.spec_' + r.violated, {}, 'TLC: %s violated in CompositeMetadata.tla itself' % r.violated)
    lists = []
    for line in r.out.splitlines():
        if line.startswith('"{'):
            o = json.loads(json.loads(line))
            lists.append((o['v'], o['items']))
    if len(lists) != r.distinct:
        raise common.Machinery('expected %d printed values, parsed %d' % (r.distinct, len(lists)))
    v.add('states', r.distinct)
    v.add('transitions', r.generated)

    # ---- id <-> name tables (C18.ids_names_one_to_one)
    table = {}
    enum_by_id = {}
    for mt in WellKnownMimeTypes:
        if mt.value.id >= 0:
            if mt.value.id in table:
                v.add_failure('C18.ids_names_one_to_one', {'what': 'mime'}, 'MIME id %d appears twice' % mt.value.id)
            table[mt.value.id] = bytes(mt.value.name)
            enum_by_id[mt.value.id] = mt
    if len(set(table.values())) != len(table):
        v.add_failure('C18.ids_names_one_to_one', {'what': 'mime'}, 'two well-known MIME ids share a name')
    spec_ids = set(range(0, 41)) | set(range(122, 128))
    if set(table) != spec_ids:
        v.add_failure('C18.ids_names_one_to_one', {'what': 'mime'}, 'well-known id set differs from the specification: %s' % sorted(set(table) ^ spec_ids))
    for i, nm in table.items():
        try:
            ok = WellKnownMimeTypes.require_by_id(i) == nm or getattr(WellKnownMimeTypes.require_by_id(i), 'name', None) == nm
            ok = ok and WellKnownMimeTypes.get_by_name(nm) == i
        except Exception as ex:
            ok = False
        if not ok:
            v.add_failure('C18.ids_names_one_to_one', {'what': 'mime'}, 'id %d <-> name %r does not round-trip through require_by_id/get_by_name' % (i, nm))
    for bad in (41, 100, 121):
        try:
            WellKnownMimeTypes.require_by_id(bad)
            v.add_failure('C18.ids_names_one_to_one', {'what': 'mime'}, 'unknown id %d was accepted' % bad)
        except Exception:
            pass
    auth = {a.value.id: bytes(a.value.name) for a in WellKnownAuthenticationTypes}
    if auth != {0: b'simple', 1: b'bearer'}:
        v.add_failure('C18.ids_names_one_to_one', {'what': 'auth'}, 'authentication id table is %r' % auth)
    for i, nm in auth.items():
        if WellKnownAuthenticationTypes.get_by_name(nm) != i:
            v.add_failure('C18.ids_names_one_to_one', {'what': 'auth'}, 'auth name %r -> %r' % (nm, WellKnownAuthenticationTypes.get_by_name(nm)))
    names_by_id = table

    # ---- custom MIME names that differ from a registered name only in letter case are CUSTOM names: not mapped to an id, written as
    # <len-1> <name>, read back unchanged - in all three places a MIME reference can stand (entry type, data MIME type, accept list)
    from rsocket.extensions.helpers import metadata_item, data_mime_type, data_mime_types
    variants = set()
    for nm in table.values():
        for var in (nm.upper(), nm.lower(), nm.title(), nm.swapcase()):
            if var not in table.values() and 1 <= len(var) <= 128:
                variants.add(var)
    variants = sorted(variants)
    if not thorough:
        variants = [x for k, x in enumerate(variants) if k % 4 == seed % 4] + [b'Application/JSON', b'TEXT/PLAIN', b'video/h264']
    for var in variants:
        sigv = {'what': 'case_variant'}
        rpv = {'kind': 'c18', 'variant': var.decode('latin1')}
        try:
            got_id = WellKnownMimeTypes.get_by_name(var)
        except Exception:
            got_id = None
        if got_id is not None:
            v.add_failure('C18.ids_names_one_to_one', sigv, 'the custom MIME name %r (not a registered name) maps to the well-known id %r' % (var, got_id), rpv)
        header = bytes([len(var) - 1]) + var
        for place, build, exp in (
                ('entry type', lambda: CompositeMetadata([metadata_item(b'xyz', var)]), header + b'\x00\x00\x03xyz'),
                ('data MIME type', lambda: CompositeMetadata([data_mime_type(var)]), bytes([0x80 | 122]) + len(header).to_bytes(3, 'big') + header),
                ('accept list', lambda: CompositeMetadata([data_mime_types(var, WellKnownMimeTypes.TEXT_PLAIN)]),
                 bytes([0x80 | 123]) + (len(header) + 1).to_bytes(3, 'big') + header + bytes([0x80 | WellKnownMimeTypes.TEXT_PLAIN.value.id]))):
            try:
                got = bytes(build().serialize())
            except Exception as ex:
                got = 'raised %s: %s' % (type(ex).__name__, ex)
            if got != exp:
                v.add_failure('C18.encode_matches_layout', dict(sigv, place=place), 'custom MIME name %r as %s: serialize() gave %s, layout says %s' % (
                    var, place, got[:40].hex() if isinstance(got, bytes) else got, exp[:40].hex()), rpv)
            try:
                parsed = CompositeMetadata().parse(exp)
                again = bytes(parsed.serialize())
            except Exception as ex:
                again = 'raised %s: %s' % (type(ex).__name__, ex)
            if again != exp:
                v.add_failure('C18.reencode_canonical', dict(sigv, place=place), 'custom MIME name %r as %s: decode then encode gives %s instead of the bytes read' % (
                    var, place, again[:40].hex() if isinstance(again, bytes) else again), rpv)
        n_case = len(variants)
    v.add('case_variant_names', len(variants))

    # ---- per-entry expected bytes from the single-entry lists
    singles = {}
    for val, items in lists:
        if len(val) == 1:
            singles[json.dumps(val[0], sort_keys=True)] = items

    def check_list(val, use_enum, sd):
        exp = b''.join(expand_entry(e, singles[json.dumps(e, sort_keys=True)], sd) for e in val)
        sig = {'kinds': sorted(set(e['kind'] for e in val)), 'enum': use_enum}
        try:
            cm = CompositeMetadata([build_entry(e, sd, use_enum, names_by_id, enum_by_id) for e in val])
            got = bytes(cm.serialize())
            if got != exp:
                v.add_failure('C18.encode_matches_layout', sig, 'entries %s: serialize() gave %s..., layout says %s...' % (
                    [e['kind'] for e in val], got[:30].hex(), exp[:30].hex()), {'kind': 'c18', 'value': val, 'seed': sd})
        except Exception as ex:
            v.add_failure('C18.encode_matches_layout', sig, 'entries %s: building/serializing raised %s: %s' % (
                [e['kind'] for e in val], type(ex).__name__, ex), {'kind': 'c18', 'value': val, 'seed': sd})
        try:
            parsed = CompositeMetadata().parse(exp)
            got_items = [describe_item(it, names_by_id) for it in parsed.items]
            exp_items = [expected_item(e, sd, names_by_id) for e in val]
            if got_items != exp_items:
                v.add_failure('C18.decode_yields_same_value', sig, 'entries %s: decoded %s, expected %s' % (
                    [e['kind'] for e in val], str(got_items)[:160], str(exp_items)[:160]), {'kind': 'c18', 'value': val, 'seed': sd})
            re = bytes(parsed.serialize())
            if re != exp:
                v.add_failure('C18.reencode_canonical', sig, 'entries %s: decode then encode gives different bytes' % [e['kind'] for e in val],
                              {'kind': 'c18', 'value': val, 'seed': sd})
        except Exception as ex:
            v.add_failure('C18.decode_yields_same_value', sig, 'entries %s: parse raised %s: %s' % ([e['kind'] for e in val], type(ex).__name__, ex),
                          {'kind': 'c18', 'value': val, 'seed': sd})

    n = 0
    for val, items in lists:
        # consistency of the composition rule used below: list encoding == concatenation of entry encodings
        for use_enum in (False, True):
            check_list(val, use_enum, seed)
            n += 1
    # every well-known id as a generic entry header and as a data MIME type
    for i in sorted(table):
        if i in (122, 123, 124, 126):
            continue      # these ids select the structured entry classes above
        e = {'kind': 'generic', 'mime': {'k': 'wk', 'x': i}, 'cl': 1, 'tags': [], 'a': 0, 'b': 0, 'refs': []}
        key = json.dumps(e, sort_keys=True)
        if key not in singles:
            singles[key] = [128 + i, 0, 0, 1, -(1 * 8 + 1)]
        e2 = {'kind': 'mime_type', 'mime': {'k': 'wk', 'x': 122}, 'cl': 0, 'tags': [], 'a': 0, 'b': 0, 'refs': [{'k': 'wk', 'x': i}]}
        key2 = json.dumps(e2, sort_keys=True)
        if key2 not in singles:
            singles[key2] = [128 + 122, 0, 0, 1, 128 + i]
        for use_enum in (False, True):
            check_list([e], use_enum, seed)
            check_list([e2], use_enum, seed)
            n += 2
    # random longer lists composed of specification entries
    entries = [json.loads(k) for k in singles]
    for _ in range(300 if not thorough else 5000):
        val = [rnd.choice(entries) for _ in range(rnd.randint(3, 8))]
        check_list(val, rnd.random() < 0.5, seed + rnd.randint(0, 1000))
        n += 1

    # ---- rejections at encode time (C18.overlong_rejected)
    from rsocket.extensions.composite_metadata_item import CompositeMetadataItem
    from rsocket.extensions.routing import RoutingMetadata
    from rsocket.extensions.stream_data_mimetype import StreamDataMimetype, StreamDataMimetypes
    rej = 0
    for ln in (129, 130, 200, 255, 256, 1000):
        for what, mk in (('generic header', lambda nm: CompositeMetadata([CompositeMetadataItem(nm, b'x')])),
                         ('data mime type', lambda nm: CompositeMetadata([StreamDataMimetype(nm)])),
                         ('accept mime types', lambda nm: CompositeMetadata([StreamDataMimetypes([b'a/b', nm])]))):
            nm = b'x/' + b'y' * (ln - 2)
            rej += 1
            try:
                out = mk(nm).serialize()
                v.add_failure('C18.overlong_rejected', {'what': 'mime_name'}, '%s with a %d-byte custom MIME name was encoded (%d bytes) instead of rejected' % (
                    what, ln, len(out)), {'kind': 'c18rej', 'what': what, 'len': ln})
            except Exception:
                pass
    for ln in (256, 257, 1000):
        rej += 1
        try:
            out = CompositeMetadata([RoutingMetadata([b'ok', b't' * ln])]).serialize()
            v.add_failure('C18.overlong_rejected', {'what': 'tag'}, 'a %d-byte routing tag was encoded (%d bytes) instead of rejected' % (ln, len(out)),
                          {'kind': 'c18rej', 'what': 'tag', 'len': ln})
        except Exception:
            pass
    # the limits themselves are accepted
    for nm_len, tag_len in ((128, 255), (1, 0)):
        try:
            CompositeMetadata([CompositeMetadataItem(b'x/' + b'y' * (nm_len - 2) if nm_len > 2 else b'z' * nm_len, b''),
                               RoutingMetadata([b't' * tag_len])]).serialize()
        except Exception as ex:
            v.add_failure('C18.encode_matches_layout', {'what': 'limit'}, 'a value at the format limit (name %d, tag %d bytes) was rejected: %s' % (nm_len, tag_len, ex))
    v.add('evaluations', n + rej)
    v.add('distinct_nontrivial', len(lists) + len(table))
    v.add('traces_validated_against_impl', n)
    v.add('rejections_checked', rej)
    v.setc('rule', 'entry lists enumerated by TLC from CompositeMetadata.tla (every single entry variant, pairs and triples of representatives), '
                   'every well-known id as entry header and as data MIME type, random lists of 3-8 specification entries; each with MIME '
                   'references passed both as names and as enum members')
    v.sample({'value': lists[len(lists) // 2][0], 'items': lists[len(lists) // 2][1]})
    v.assumptions += ['blob contents (names, tags, credentials, content) are sampled printable / random bytes',
                      'the well-known id table is transcribed from the RSocket well-known MIME registry (ids 0x00-0x28, 0x7A-0x7F)']
