"""Lease.tla: the requester side of leasing (DefinedLease, send_request, the bounded request queue, handle_lease).

(A) TLC checks Lease.tla exhaustively - every interleaving of requests, arriving LEASE frames and clock ticks within the constants,
    unbounded and bounded request queue - against the clauses of C14 (NoRequestBeforeFirstLease, CountWithinGrant, NoneAfterTtl,
    FifoOnce, Accounted, RetainedUpToQueueSize, NothingWaitsUnderUsableLease).
(B) spec -> code: the complete state graphs are dumped and EVERY transition is replayed on a real RSocketClient(honor_lease=True)
    under a virtual clock: requests through the public request_response / fire_and_forget / request_stream API, LEASE frames
    through the real handle_lease coroutine, time through the patched `datetime` of rsocket.lease.  After every step the frames in
    the send queue, the frames held back in the request queue and the refused calls are compared with the specification state.
"""
import asyncio
import contextlib
import datetime as _dt

from .. import common, tlc
from . import graphreplay

TICK_MS = 100
_LOOP = None


class _Clock:
    _base = _dt.datetime(2030, 1, 1)

    def __init__(self):
        self.t = 0

    def now(self, tz=None):
        return self._base + _dt.timedelta(milliseconds=self.t * TICK_MS)

    def __call__(self, *a, **k):
        return _dt.datetime(*a, **k)


@contextlib.contextmanager
def _running():
    global _LOOP
    if _LOOP is None:
        _LOOP = asyncio.new_event_loop()
    asyncio.events._set_running_loop(_LOOP)
    try:
        yield
    finally:
        asyncio.events._set_running_loop(None)


def _drive(coro):
    try:
        coro.send(None)
    except StopIteration as s:
        return s.value
    coro.close()
    raise common.Machinery('handle_lease suspended')


class _Transport:
    def requires_length_header(self):
        return True


class RealLease:
    qsize = 0

    def __init__(self):
        import rsocket.lease
        from rsocket.rsocket_client import RSocketClient
        self.clock = _Clock()
        rsocket.lease.datetime = self.clock

        async def provider():
            yield _Transport()

        with _running():
            self.client = RSocketClient(provider(), honor_lease=True, request_queue_size=self.qsize)
            if self.client._reconnect_task is not None:
                self.client._reconnect_task.cancel()
        _LOOP.run_until_complete(asyncio.sleep(0))
        self.client._reset_internals()          # what connect() does first: creates the queues and the initial zero lease
        self.refused = set()
        self.keep = []

    def request(self, rid):
        from rsocket.payload import Payload
        p = Payload(bytes([rid]) * 4)
        try:
            with _running():
                k = rid % 3
                if k == 0:
                    self.keep.append(self.client.request_response(p))
                elif k == 1:
                    self.keep.append(self.client.fire_and_forget(p))
                else:
                    from reactivestreams.subscriber import DefaultSubscriber
                    pub = self.client.request_stream(p).initial_request_n(3)
                    pub.subscribe(DefaultSubscriber())
                    self.keep.append(pub)
        except asyncio.QueueFull:
            self.refused.add(rid)

    def lease(self, n, ttl):
        from rsocket.frame import LeaseFrame
        f = LeaseFrame()
        f.number_of_requests = n
        f.time_to_live = ttl * TICK_MS
        with _running():
            _drive(self.client.handle_lease(f))

    def tick(self):
        self.clock.t += 1

    @staticmethod
    def _rids(frames):
        return [(f.data or b'\xff')[0] for f in frames]

    def sent(self):
        return self._rids(list(self.client._send_queue._queue))

    def pending(self):
        return self._rids(list(self.client._request_queue._queue))


class RealLeaseQ2(RealLease):
    qsize = 2


def _state(vs):
    sent = tlc.parse_value(vs['sent'])
    pending = tlc.parse_value(vs['pending'])
    refused = tlc.parse_value(vs['refused'])
    return {'sent': [x[0] for x in sent], 'pending': list(pending), 'refused': set(refused), 'nextRid': int(vs['nextRid']),
            'now': int(vs['now'])}


def _apply(real, name, args, before):
    if name == 'Request':
        real.request(before['nextRid'])
    elif name == 'LeaseArrives':
        g = args[0]
        real.lease(g[0], g[1])
    elif name == 'Tick':
        real.tick()
    else:
        raise common.Machinery('unknown Lease action %r' % name)
    return None


def _compare(real, exp, obs):
    s, p = real.sent(), real.pending()
    if s != exp['sent']:
        extra = [r for r in s if r not in exp['sent']]
        if extra:
            return ('C14.sent_only_when_lease_allows', 'requests %s are in the send queue, the specification allows %s (time %d)' % (s, exp['sent'], exp['now']))
        if sorted(s) != s or len(set(s)) != len(s):
            return ('C14.fifo_release', 'requests left in the order %s, the specification says %s' % (s, exp['sent']))
        return ('C14.released_when_lease_allows', 'requests %s are in the send queue, the specification says %s (time %d)' % (s, exp['sent'], exp['now']))
    if p != exp['pending']:
        return ('C14.retained_in_order', 'requests held back %s, the specification says %s' % (p, exp['pending']))
    if real.refused != exp['refused']:
        return ('C14.retained_up_to_queue_size', 'refused calls %s, the specification says %s' % (sorted(real.refused), sorted(exp['refused'])))
    return None


def model_check(v, thorough):
    from concurrent.futures import ThreadPoolExecutor
    cfgs = ['Lease.cfg', 'Lease_q2.cfg'] + (['Lease_wide.cfg'] if thorough else [])

    def one(c):
        return c, tlc.run('Lease', c, workers=4, timeout=1500, name='lease_' + c.replace('.cfg', ''))

    with ThreadPoolExecutor(max_workers=3) as ex:
        results = list(ex.map(one, cfgs))
    for cfg, r in results:
        if r.timed_out or not r.finished:
            raise common.Machinery('TLC did not finish on Lease/%s: %s' % (cfg, r.out[-1500:]))
        if r.violated:
            v.add_failure('C14.design_%s' % r.violated, {'cfg': cfg}, 'TLC: %s violated in the lease model %s' % (r.violated, cfg))
        v.add('states', r.distinct)
        v.add('transitions', r.generated)
        v.coverage.setdefault('mc_configs', {})[cfg] = {'states': r.distinct, 'transitions': r.generated, 'depth': r.depth,
                                                        'wall_s': round(r.wall, 1)}


def check(v):
    import rsocket.lease
    saved = rsocket.lease.datetime
    try:
        model_check(v, common.tier() == 'thorough')
        desc = lambda s: 'sent=%s pending=%s refused=%s now=%d' % (s['sent'], s['pending'], sorted(s['refused']), s['now'])
        graphreplay.replay(v, 'Lease', 'Lease.cfg', RealLease, _apply, _compare, _state, prop='C14', label='lease', describe=desc)
        graphreplay.replay(v, 'Lease', 'Lease_q2.cfg', RealLeaseQ2, _apply, _compare, _state, prop='C14', label='leaseq2', describe=desc)
    finally:
        rsocket.lease.datetime = saved
