"""Lease.tla: the requester side of leasing (DefinedLease, send_request, the bounded request queue, handle_lease).

(A) TLC checks Lease.tla exhaustively - every interleaving of requests, arriving LEASE frames and clock ticks within the constants,
    unbounded and bounded request queue - against the clauses of C14 (NoRequestBeforeFirstLease, CountWithinGrant, NoneAfterTtl,
    FifoOnce, Accounted, RetainedUpToQueueSize, NothingWaitsUnderUsableLease).
(B) spec -> code: the complete state graphs are dumped and EVERY transition is replayed on a real RSocketClient(honor_lease=True)
    under a virtual clock: requests through the public request_response / fire_and_forget / request_stream / request_channel API, LEASE frames
    through the real handle_lease coroutine, time through the patched `datetime` of rsocket.lease.  After every step the frames in
    the send queue, the frames held back in the request queue and the refused calls are compared with the specification state.
"""
import asyncio
import contextlib
import datetime as _dt

from .. import common, tlc
from . import graphreplay

TICK_MS = 100
_LOOP = None


class _Clock:
    _base = _dt.datetime(2030, 1, 1)

    def __init__(self):
        self.t = 0

    def now(self, tz=None):
        return self._base + _dt.timedelta(milliseconds=self.t * TICK_MS)

    def __call__(self, *a, **k):
        return _dt.datetime(*a, **k)


@contextlib.contextmanager
def _running():
    global _LOOP
    if _LOOP is None:
        _LOOP = asyncio.new_event_loop()
    asyncio.events._set_running_loop(_LOOP)
    try:
        yield
    finally:
        asyncio.events._set_running_loop(None)


def _drive(coro):
    try:
        coro.send(None)
    except StopIteration as s:
        return s.value
    coro.close()
    raise common.Machinery('handle_lease suspended')


class _Transport:
    def requires_length_header(self):
        return True


class RealLease:
    qsize = 0

    def __init__(self):
        import rsocket.lease
        from rsocket.rsocket_client import RSocketClient
        self.clock = _Clock()
        rsocket.lease.datetime = self.clock

        async def provider():
            yield _Transport()

        with _running():
            self.client = RSocketClient(provider(), honor_lease=True, request_queue_size=self.qsize)
            if self.client._reconnect_task is not None:
                self.client._reconnect_task.cancel()
        _LOOP.run_until_complete(asyncio.sleep(0))
        self.client._reset_internals()          # what connect() does first: creates the queues and the initial zero lease
        self.refused = set()
        self.keep = []
        self.handles = {}         # rid -> what the application holds: the future (rr / fnf) or the subscriber (stream / channel)
        self.made = []            # request ids in the order the application made them
        self.leases = []          # (n, ttl, at) of every LEASE that arrived
        self.sent_log = []        # (rid, time, index of the current lease or -1)
        self.archived = []        # request ids sent on previous connections
        self.dropped = set()      # request ids held back when their connection ended
        self.first_lease = 0      # index in self.leases of the first LEASE of the current connection
        self.acted = {}           # rid -> frame type the application's action on the held request owes ('CANCEL' / 'REQUEST_N')

    def request(self, rid):
        from rsocket.payload import Payload
        p = Payload(bytes([rid]) * 4)
        self.made.append(rid)
        try:
            with _running():
                k = rid % 4
                if k == 0:
                    self.handles[rid] = self.client.request_response(p)
                elif k == 1:
                    self.handles[rid] = self.client.fire_and_forget(p)
                else:
                    from reactivestreams.subscriber import DefaultSubscriber
                    pub = (self.client.request_stream(p) if k == 2 else self.client.request_channel(p)).initial_request_n(3)
                    sub = DefaultSubscriber()
                    self.handles[rid] = sub
                    self.keep.append(pub)
                    pub.subscribe(sub)
        except asyncio.QueueFull:
            self.refused.add(rid)
        self._note_sent()

    def _note_sent(self):
        known = set(r for r, _, _ in self.sent_log)
        for r in self.sent():
            if r not in known:
                self.sent_log.append((r, self.clock.t, len(self.leases) - 1 if len(self.leases) > self.first_lease else -1))

    def lease(self, n, ttl):
        from rsocket.frame import LeaseFrame
        f = LeaseFrame()
        f.number_of_requests = n
        f.time_to_live = ttl * TICK_MS
        self.leases.append((n, ttl, self.clock.t))
        with _running():
            _drive(self.client.handle_lease(f))
        self._note_sent()

    def act_on_held(self, rid):
        """the application cancels / asks for more on an interaction whose request frame is still waiting for a lease"""
        h = self.handles.get(rid)
        if rid % 4 != 1:
            self.acted[rid] = 'REQUEST_N' if rid % 4 == 2 else 'CANCEL'
        with _running():
            if rid % 4 == 0:
                h.cancel()                                  # request-response: the caller gives up
            elif rid % 4 == 1:
                pass                                        # fire-and-forget: nothing the application can do to it
            elif rid % 4 == 2:
                h.subscription.request(2)                   # request-stream: more credit
            else:
                h.subscription.cancel()                     # request-channel: the requester cancels
        _LOOP.run_until_complete(asyncio.sleep(0))          # (a cancelled future runs its callbacks in the next loop iteration)
        self._note_sent()

    def reconnect(self):
        """what RSocketClient.connect() does, on every (re)connect, before anything can be queued on the new connection"""
        self.archived = self.sent()
        self.dropped |= set(self.pending())
        self.acted = {}
        self.client._reset_internals()
        self.first_lease = len(self.leases)
        self._note_sent()

    def oracle(self):
        """the clauses of C14 (the invariants of Lease.tla) evaluated on what the real requester did"""
        s, p = self.sent(), self.pending()
        cur = set(self._rids(list(self.client._send_queue._queue)))
        if self.dropped & cur:
            return ('C14.no_request_before_first_lease', 'requests %s, held back when the previous connection ended, were sent on the new one' % sorted(
                self.dropped & cur))
        from rsocket.frame import RequestResponseFrame, RequestStreamFrame, RequestChannelFrame, RequestFireAndForgetFrame
        started = set()
        for f in list(self.client._send_queue._queue):
            if isinstance(f, (RequestResponseFrame, RequestStreamFrame, RequestChannelFrame, RequestFireAndForgetFrame)):
                started.add(f.stream_id)
            elif f.stream_id and f.stream_id not in started:
                return ('C08.first_frame_is_request', '%s of stream %d entered the send queue before the stream\'s request frame (still waiting for a lease)' % (
                    type(f).__name__, f.stream_id))
        if len(set(s)) != len(s) or set(s) & set(p):
            return ('C14.each_request_sent_at_most_once', 'send queue %s, held back %s' % (s, p))
        # what the application did to a request while it was held back takes effect when the request is released: its CANCEL /
        # REQUEST_N follows the request frame into the send queue, exactly once (C09: exactly one CANCEL; C06: credit reaches the peer)
        q = list(self.client._send_queue._queue)
        for rid, owed in self.acted.items():
            pos = [i for i, f in enumerate(q) if isinstance(f, (RequestResponseFrame, RequestStreamFrame, RequestChannelFrame, RequestFireAndForgetFrame))
                   and (f.data or b'\xff')[0] == rid]
            if not pos:
                continue
            sid = q[pos[0]].stream_id
            after = [type(f).__name__.replace('Frame', '') for f in q[pos[0] + 1:] if f.stream_id == sid]
            want = 'Cancel' if owed == 'CANCEL' else 'RequestN'
            if after.count(want) != 1:
                return (('C09.exactly_one_cancel_frame' if owed == 'CANCEL' else 'C06.credit_on_the_wire_reaches_the_peer'),
                        'request %d (stream %d) was %s while it waited for a lease; released, it is followed by %s in the send queue' % (
                            rid, sid, 'cancelled' if owed == 'CANCEL' else 'granted more credit', after or 'nothing'))
        per = {}
        for (r, t, li) in self.sent_log:
            if li < 0:
                return ('C14.no_request_before_first_lease', 'request %d entered the send queue at time %d before any LEASE arrived on its connection' % (r, t))
            n, ttl, at = self.leases[li]
            if not (at <= t < at + ttl):
                return ('C14.none_after_ttl', 'request %d entered the send queue at time %d under the lease granted at %d for %d ticks' % (r, t, at, ttl))
            per[li] = per.get(li, 0) + 1
            if per[li] > n:
                return ('C14.count_within_grant', '%d requests were sent under the lease granted at %d for %d requests' % (per[li], at, n))
        order = [r for r in self.made if r not in self.refused and r not in self.dropped]
        if s != [r for r in order if r in set(s)] or p != [r for r in order if r in set(p)] or (s and p and max(s) > min(p)):
            return ('C14.fifo_release', 'made %s; send queue %s; held back %s' % (order, s, p))
        lost = [r for r in order if r not in s and r not in p]
        if lost:
            return ('C14.retained_until_released', 'requests %s are neither sent nor held back' % lost)
        if self.qsize == 0 and self.refused:
            return ('C14.retained_up_to_queue_size', 'calls %s were refused although the queue is unbounded' % sorted(self.refused))
        if self.qsize and len(p) > self.qsize:
            return ('C14.retained_up_to_queue_size', '%d requests held back, queue size %d' % (len(p), self.qsize))
        if self.qsize and self.refused:
            # a call may only be refused while the queue is full: checked at the moment of the call through the spec comparison
            pass
        if p and len(self.leases) > self.first_lease:
            n, ttl, at = self.leases[-1]
            used = per.get(len(self.leases) - 1, 0)
            if self.clock.t < at + ttl and used < n:
                return ('C14.released_when_lease_allows', 'requests %s are held back although the lease granted at %d (%d requests, %d ticks) has %d left at time %d' % (
                    p, at, n, ttl, n - used, self.clock.t))
        return None

    def tick(self):
        self.clock.t += 1

    @staticmethod
    def _rids(frames):
        from rsocket.frame import RequestResponseFrame, RequestStreamFrame, RequestChannelFrame, RequestFireAndForgetFrame
        return [(f.data or b'\xff')[0] for f in frames
                if isinstance(f, (RequestResponseFrame, RequestStreamFrame, RequestChannelFrame, RequestFireAndForgetFrame))]

    def sent(self):
        return self.archived + self._rids(list(self.client._send_queue._queue))

    def pending(self):
        return self._rids(list(self.client._request_queue._queue))


class RealLeaseQ2(RealLease):
    qsize = 2


def _state(vs):
    sent = tlc.parse_value(vs['sent'])
    pending = tlc.parse_value(vs['pending'])
    refused = tlc.parse_value(vs['refused'])
    return {'sent': [x[0] for x in sent], 'pending': list(pending), 'refused': set(refused), 'nextRid': int(vs['nextRid']),
            'now': int(vs['now']), 'conn': int(vs['conn']), 'dropped': set(tlc.parse_value(vs['dropped']))}


def _apply(real, name, args, before):
    if name == 'Request':
        real.request(before['nextRid'])
    elif name == 'LeaseArrives':
        g = args[0]
        real.lease(g[0], g[1])
    elif name == 'Tick':
        real.tick()
    elif name == 'Reconnect':
        real.reconnect()
    elif name == 'AppActsOnHeldRequest':
        real.act_on_held(int(args[0]))
    else:
        raise common.Machinery('unknown Lease action %r' % name)
    return None


def _compare(real, exp, obs):
    bad = real.oracle()
    if bad:
        return bad
    s, p = real.sent(), real.pending()
    if s != exp['sent'] or p != exp['pending'] or real.refused != exp['refused'] or real.dropped != exp['dropped']:
        return ('DRIFT', 'send queue %s / held back %s / refused %s, the specification says %s / %s / %s (time %d)' % (
            s, p, sorted(real.refused), exp['sent'], exp['pending'], sorted(exp['refused']), exp['now']))
    return None


def model_check(v, thorough):
    from concurrent.futures import ThreadPoolExecutor
    cfgs = ['Lease.cfg', 'Lease_q2.cfg', 'Lease_reconnect.cfg', 'Lease_acts.cfg', 'Lease_f27.cfg'] + (['Lease_wide.cfg'] if thorough else [])
    # Lease_f27: control configuration - the behaviour before the fix of finding F27 (frames of a stream overtake its held
    # request): NothingOvertakesItsRequest must be REFUTED (the invariant is not vacuous); Lease_acts is the fixed behaviour
    expect = {'Lease_f27.cfg': 'NothingOvertakesItsRequest'}

    def one(c):
        return c, tlc.run('Lease', c, workers=4, timeout=1500, name='lease_' + c.replace('.cfg', ''))

    with ThreadPoolExecutor(max_workers=3) as ex:
        results = list(ex.map(one, cfgs))
    for cfg, r in results:
        if r.timed_out or (not r.finished and not r.violated):
            raise common.Machinery('TLC did not finish on Lease/%s: %s' % (cfg, r.out[-1500:]))
        if cfg in expect:
            if r.violated != expect[cfg]:
                raise common.Machinery('control configuration %s should refute %s but TLC reported %r' % (cfg, expect[cfg], r.violated))
        elif r.violated:
            v.add_failure('C14.design_%s' % r.violated, {'cfg': cfg}, 'TLC: %s violated in the lease model %s' % (r.violated, cfg))
        v.add('states', r.distinct)
        v.add('transitions', r.generated)
        v.coverage.setdefault('mc_configs', {})[cfg] = {'states': r.distinct, 'transitions': r.generated, 'depth': r.depth,
                                                        'wall_s': round(r.wall, 1)}


def check_acts(v, prop):
    """only the replay of Lease_acts.cfg (the application acts on held requests), for the properties those actions belong to"""
    import rsocket.lease
    saved = rsocket.lease.datetime
    try:
        r = tlc.run('Lease', 'Lease_acts.cfg', workers=4, timeout=900, name='lease_acts')
        if r.timed_out or not r.finished:
            raise common.Machinery('TLC did not finish on Lease/Lease_acts.cfg: %s' % r.out[-1500:])
        if r.violated:
            v.add_failure('%s.design_%s' % (prop, r.violated), {'cfg': 'Lease_acts.cfg'}, 'TLC: %s violated in the lease model' % r.violated)
        v.add('states', r.distinct)
        v.add('transitions', r.generated)
        desc = lambda s: 'sent=%s pending=%s refused=%s now=%d reconnects=%d' % (s['sent'], s['pending'], sorted(s['refused']), s['now'], s['conn'])
        graphreplay.replay(v, 'Lease', 'Lease_acts.cfg', RealLease, _apply, _compare, _state, prop=prop, label='leaseacts', describe=desc)
    finally:
        rsocket.lease.datetime = saved


def check(v):
    import rsocket.lease
    saved = rsocket.lease.datetime
    try:
        model_check(v, common.tier() == 'thorough')
        desc = lambda s: 'sent=%s pending=%s refused=%s now=%d reconnects=%d' % (s['sent'], s['pending'], sorted(s['refused']), s['now'], s['conn'])
        graphreplay.replay(v, 'Lease', 'Lease.cfg', RealLease, _apply, _compare, _state, prop='C14', label='lease', describe=desc)
        graphreplay.replay(v, 'Lease', 'Lease_q2.cfg', RealLeaseQ2, _apply, _compare, _state, prop='C14', label='leaseq2', describe=desc)
        # a lease belongs to the connection it arrived on: the same, with a reconnect at every point
        graphreplay.replay(v, 'Lease', 'Lease_reconnect.cfg', RealLease, _apply, _compare, _state, prop='C14', label='leasereconnect', describe=desc)
        # the application cancels / asks for more on interactions whose request is still held back: nothing overtakes the request
        graphreplay.replay(v, 'Lease', 'Lease_acts.cfg', RealLease, _apply, _compare, _state, prop='C14', label='leaseacts', describe=desc)
    finally:
        rsocket.lease.datetime = saved


# ---------------------------------------------------------------------------------------------------------------------------------
# LeaseAnnounce.tla: the responder side - a real server with a lease publisher, on the simulated link

class RealAnnounce:
    def __init__(self):
        import logging
        logging.disable(logging.CRITICAL)
        from ..harness import prog
        self.ex = prog.Exec({'mode': 'tcp', 'honor_lease_c': True, 'read_buffer': 1024, 'keepalive_ms': 600000, 'lifetime_ms': 6000000})
        self.ex.do(['start'])
        self.ex.do(['pump'])
        self.n0 = len(self.ex.w.rec.events)

    def publish(self, g):
        self.ex.do(['lease', int(g[0]), int(g[1])])

    def block(self):
        self.ex.do(['gate_close', 's'])

    def unblock(self):
        self.ex.do(['gate_open', 's'])

    def run(self):
        self.ex.do(['pump'])

    def observe(self):
        pub, wire, rx = [], [], []
        for e in self.ex.w.rec.events[self.n0:]:
            if e['ev'] == 'app_lease':
                pub.append((e['n'], e['x']))
            elif e['ev'] == 'tx' and e['ep'] == 's' and e['ft'] == 'LEASE':
                wire.append((e['n'], e['x']))
            elif e['ev'] == 'rx' and e['ep'] == 'c' and e['ft'] == 'LEASE':
                rx.append((e['n'], e['x']))
        return pub, wire, rx

    def close(self):
        try:
            self.ex.w.close()
        except BaseException:
            pass


def _astate(vs):
    a = tlc.parse_value(vs['a'])
    return {'published': [tuple(x) for x in a['published']], 'wire': [tuple(x) for x in a['wire']], 'queued': [tuple(x) for x in a['queued']],
            'blocked': a['blocked']}


def _aapply(real, name, args, before):
    if name == 'Publish':
        real.publish(args[0])
    elif name == 'Block':
        real.block()
    elif name == 'Unblock':
        real.unblock()
    elif name == 'Run':
        real.run()
    else:
        raise common.Machinery('unknown LeaseAnnounce action %r' % name)
    return None


def _acompare(real, exp, obs):
    pub, wire, rx = real.observe()
    # oracle (C14): what is on the wire is a prefix of what was published, in order, values intact (count, ttl in ms)
    if wire != pub[:len(wire)]:
        return ('C14.leases_announced_in_publication_order' if sorted(wire) == sorted(pub[:len(wire)]) else 'C14.lease_frame_faithful',
                'published %r, LEASE frames on the wire %r' % (pub, wire))
    if not exp['blocked'] and not exp['queued'] and wire != pub:
        return ('C14.lease_frame_faithful', 'published %r, the transport accepts writes and the loop has run: on the wire only %r' % (pub, wire))
    if pub != exp['published']:
        return ('DRIFT', 'published %r, the specification says %r' % (pub, exp['published']))
    # (while the transport is blocked one frame may already be inside the write: the wire may be one ahead of the model or behind it)
    if not exp['blocked'] and wire != exp['wire']:
        return ('DRIFT', 'on the wire %r, the specification says %r' % (wire, exp['wire']))
    return None


def check_announce(v):
    r = tlc.run('LeaseAnnounce', 'LeaseAnnounce.cfg', workers=2, timeout=600, name='lease_announce')
    if r.timed_out or not r.finished:
        raise common.Machinery('TLC did not finish on LeaseAnnounce: %s' % r.out[-1500:])
    if r.violated:
        v.add_failure('C14.design_%s' % r.violated, {'model': 'LeaseAnnounce'}, 'TLC: %s violated in the lease announcement model' % r.violated)
    v.add('states', r.distinct)
    v.add('transitions', r.generated)
    v.coverage.setdefault('mc_configs', {})['LeaseAnnounce.cfg'] = {'states': r.distinct, 'transitions': r.generated, 'depth': r.depth, 'wall_s': round(r.wall, 1)}
    desc = lambda s: 'published=%s wire=%s queued=%s blocked=%s' % (s['published'], s['wire'], s['queued'], s['blocked'])
    graphreplay.replay(v, 'LeaseAnnounce', 'LeaseAnnounce.cfg', RealAnnounce, _aapply, _acompare, _astate, prop='C14', label='leaseannounce', describe=desc)
