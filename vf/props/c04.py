"""C04 chunking independence of the decoder.

(A) TLC checks Parser.tla (the decoder loop at the real byte scale) for every stream of DefaultLens and every chunking.
(B) spec -> code: EVERY transition (read of k bytes in state `pos`) of the complete state graph is replayed on the real
    rsocket.frame_parser.FrameParser, reached three ways (one read, byte by byte, random path); the frames that come out
    are compared with the specification (valid frames field by field against an independent decoder of the same bytes;
    undecodable ones: a marker or nothing).  The same streams also go through TransportTCP.next_frame_generator() over a
    real StreamReader with several read buffer sizes, and through the message path (one message = one frame).
(C) thorough: all 2^(n-1) chunkings of short streams and random chunkings of long random frame sequences.
"""
import asyncio
import os
import random

from .. import common, tlc
from ..harness import wire

CAP = 20000


class Runaway(Exception):
    pass


def drain(agen, cap=CAP):
    out = []
    n = 0
    while True:
        n += 1
        if n > cap:
            raise Runaway()
        c = agen.__anext__()
        try:
            c.send(None)
        except StopIteration as st:
            out.append(st.value)
        except StopAsyncIteration:
            break
    return out


def describe(fr):
    ft = getattr(fr, 'frame_type', None)
    if ft is None:
        return ('MARKER',)
    n = getattr(fr, 'initial_request_n', None)
    if n is None:
        n = getattr(fr, 'request_n', 0)
    return (ft.name, fr.stream_id, bytes(fr.data or b''), bytes(fr.metadata or b''), n or 0)


def expected(body):
    """('valid', descriptor) or ('junk',) for one frame body, by the independent decoder"""
    try:
        d = wire.decode(body)
    except Exception:
        return ('junk',)
    if d['ft'].startswith('UNKNOWN') or d['ft'] == 'EXT' or d['ft'] not in wire.TYPES.values():
        return ('junk',)
    return ('valid', (d['ft'], d['sid'], d['d'], d['md'], d.get('n', 0)))


def body_for(length, salt):
    """a frame body of exactly `length` bytes; class chosen by length and salt"""
    k = salt % 3
    if length == 0:
        return b''
    if length < 6:
        return bytes([0x55 + salt % 7] * length)
    if length == 6:
        return wire.encode('CANCEL', sid=1 + 2 * (salt % 5)) if k else wire.encode('PAYLOAD', sid=3, flags=wire.F_COMPLETE)
    if length == 10 and k != 2:
        return wire.encode('REQUEST_N', sid=5, n=1 + salt)
    if length == 14 and k != 2:
        return wire.encode('KEEPALIVE', flags=wire.F_RESPOND, extra=(salt).to_bytes(8, 'big'))
    if k == 0:
        return wire.encode('PAYLOAD', sid=7, flags=wire.F_NEXT, d=bytes([salt % 251] * (length - 6)))
    if k == 1 and length >= 10:
        md = bytes([salt % 13] * min(2, length - 9))
        return wire.encode('PAYLOAD', sid=9, flags=wire.F_NEXT, md=md, d=bytes([1 + salt % 200] * (length - 9 - len(md))))
    if k == 1:
        return wire.encode('REQUEST_RESPONSE', sid=11, d=bytes([3] * (length - 6)))
    # unknown frame type (0x3E, the reserved extension type 0x3F, 0x00, 0x0F) with arbitrary content: undecodable
    t = (0x3E, 0x3F, 0x00, 0x0F)[salt % 4]
    return (2).to_bytes(4, 'big') + bytes([(t << 2) & 0xFF, 0]) + bytes([0xEE] * (length - 6))


def stream_bytes(lens, salt):
    bodies = [body_for(l, salt + 7 * i) for i, l in enumerate(lens)]
    for b, l in zip(bodies, lens):
        assert len(b) == l, (len(b), l)
    return b''.join(len(b).to_bytes(3, 'big') + b for b in bodies), bodies


def compare(got, exp_list):
    """got: descriptors from the real parser; exp_list: expected() results for the frames that must be emitted now.
    returns None if consistent, else an explanation"""
    gi = 0
    for e in exp_list:
        if e[0] == 'valid':
            if gi >= len(got):
                return 'frame %s was not emitted' % (e[1][:2],)
            if got[gi] != e[1]:
                return 'emitted %s where %s was expected' % (got[gi][:2], e[1][:2])
            gi += 1
        else:
            if gi < len(got) and got[gi] == ('MARKER',):
                gi += 1
    if gi != len(got):
        return 'extra output %s' % (got[gi][:2],)
    return None


def reach(parser_cls, data, pos, how, rnd):
    p = parser_cls()
    if pos == 0:
        return p
    if how == 'one':
        cuts = [pos]
    elif how == 'bytes':
        cuts = list(range(1, pos + 1))
    else:
        cuts = sorted(set(rnd.sample(range(1, pos + 1), min(pos, rnd.randint(1, 4)))) | {pos})
    a = 0
    for c in cuts:
        drain(p.receive_data(data[a:c]))
        a = c
    return p


def run(v):
    from rsocket.frame_parser import FrameParser
    thorough = common.tier() == 'thorough'
    # "On message transports each message yields exactly the frame it contains": Transport.tla, every row on every message transport class
    from . import transportmodel
    transportmodel.check(v, 'C04')
    rnd = random.Random(common.seed())
    r = tlc.run('Parser', 'Parser.cfg', coverage=True, timeout=600, name='mcparser')
    if not r.finished:
        raise common.Machinery('TLC did not finish on Parser: ' + r.out[-1500:])
    if r.violated:
        v.add_failure('C04.spec_' + r.violated, {}, 'TLC: %s violated in Parser.tla itself' % r.violated)
    v.add('states', r.distinct)
    v.add('transitions', r.generated)
    work = common.workdir()
    dump = os.path.join(work, 'parser_graph')
    r2 = tlc.run('Parser', 'Parser.cfg', workers=1, dump=dump, timeout=600, name='dumpparser')
    if not r2.ok:
        raise common.Machinery('TLC dump failed: ' + r2.out[-1500:])
    nodes, edges, inits = tlc.parse_dot(dump + '.dot')
    lens_all = tlc.parse_value(_default_lens())
    replayed = 0
    salts = [common.seed() % 97, 1 + common.seed() % 89] if not thorough else [common.seed() % 97 + k for k in range(6)]
    for salt in salts:
        streams = {}
        for si, lens in enumerate(lens_all, 1):
            data, bodies = stream_bytes(list(lens), salt + si)
            ends = []
            o = 0
            for b in bodies:
                o += 3 + len(b)
                ends.append(o)
            streams[si] = (data, bodies, ends, [expected(b) for b in bodies])
        for (a, b, lab) in edges:
            name, args = tlc.parse_action_label(lab)
            if name != 'Read':
                raise common.Machinery('unexpected action ' + lab)
            k = args[0]
            sa = nodes[a]
            si, pos = int(sa['s']), int(sa['pos'])
            data, bodies, ends, exps = streams[si]
            due = [exps[i] for i, e in enumerate(ends) if pos < e <= pos + k]
            for how in ('one', 'bytes', 'rand'):
                try:
                    p = reach(FrameParser, data, pos, how, rnd)
                    got = [describe(f) for f in drain(p.receive_data(data[pos:pos + k]))]
                    why = compare(got, due)
                except Runaway:
                    why = 'decoding did not terminate'
                except Exception as ex:
                    why = 'FrameParser raised %s: %s' % (type(ex).__name__, ex)
                replayed += 1
                if why:
                    v.add_failure('C04.chunking_independent', {'mode': 'tcp', 'reach': how},
                                  'stream %s (body lengths %s), %d bytes received (%s), read of %d bytes: %s' % (
                                      si, list(lens_all[si - 1]), pos, how, k, why),
                                  {'kind': 'c04', 'lens': list(lens_all[si - 1]), 'salt': salt + si, 'pos': pos, 'k': k, 'how': how})
        # whole streams through the real TransportTCP over a real StreamReader
        for si, (data, bodies, ends, exps) in streams.items():
            for rbs in (1, 2, 3, 7, 1024):
                why = _via_transport(data, exps, rbs)
                replayed += 1
                if why:
                    v.add_failure('C04.chunking_independent', {'mode': 'tcp', 'reach': 'transport'},
                                  'stream %s via TransportTCP read_buffer_size=%d: %s' % (list(lens_all[si - 1]), rbs, why),
                                  {'kind': 'c04', 'lens': list(lens_all[si - 1]), 'salt': salt + si, 'rbs': rbs})
        # ... fed piecemeal, with NO end of stream in sight: once the bytes of a frame have been received the frame comes out - it does
        # not wait for whatever the peer sends next (pieces as long as the read buffer, shorter, longer)
        prog_bad = 0
        for si, (data, bodies, ends, exps) in streams.items():
            for rbs, piece in ((1, 1), (2, 2), (3, 3), (7, 7), (7, 14), (7, 5), (3, 7), (1024, 1024), (16, 16), (16, 64)):
                if prog_bad >= 3:
                    break
                why = _via_transport_piecemeal(data, ends, exps, rbs, piece)
                replayed += 1
                if why:
                    prog_bad += 1
                    v.add_failure('C04.chunking_independent', {'mode': 'tcp', 'reach': 'transport_piecemeal'},
                                  'stream %s via TransportTCP read_buffer_size=%d, fed %d bytes at a time: %s' % (list(lens_all[si - 1]), rbs, piece, why),
                                  {'kind': 'c04', 'lens': list(lens_all[si - 1]), 'salt': salt + si, 'rbs': rbs, 'piece': piece})
        # ... and through the real QUIC transport (RSocketQuicProtocol + RSocketQuicTransport over a real, unconnected QuicConnection):
        # the stream's bytes arrive as StreamDataReceived events of any size, then the connection terminates
        quic_bad = 0
        for si, (data, bodies, ends, exps) in streams.items():
            for rbs in (1, 2, 3, 7, 1024):
                if quic_bad >= 3:
                    break
                why = _via_quic(data, exps, rbs)
                replayed += 1
                if why:
                    quic_bad += 1
                    v.add_failure('C04.chunking_independent', {'mode': 'quic', 'reach': 'transport'},
                                  'stream %s via RSocketQuicTransport in events of %d bytes: %s' % (list(lens_all[si - 1]), rbs, why),
                                  {'kind': 'c04', 'lens': list(lens_all[si - 1]), 'salt': salt + si, 'rbs': rbs, 'via': 'quic'})
        # message mode: each message yields exactly the frame it contains
        msgs = [b for (_, bodies, _, _) in streams.values() for b in bodies] + [b'', b'\x00', b'\x01\x02\x03\x04\x05']
        for body in msgs:
            p = FrameParser()
            try:
                got = [describe(f) for f in drain(p.receive_data(body, 0))]
                why = compare(got, [expected(body)])
                if why is None and len(p._buffer) != 0:
                    why = 'left %d bytes in the buffer that would prefix the next message' % len(p._buffer)
            except Runaway:
                why = 'decoding did not terminate'
            except Exception as ex:
                why = 'FrameParser raised %s: %s' % (type(ex).__name__, ex)
            replayed += 1
            if why:
                clause = 'C04.decoding_terminates' if 'terminate' in why else 'C04.message_yields_its_frame'
                v.add_failure(clause, {'mode': 'msg', 'len': min(len(body), 6)}, 'message of %d bytes: %s' % (len(body), why),
                              {'kind': 'c04msg', 'body': body.hex()})
    # (C) exhaustive chunkings of short streams, random chunkings of long ones
    nch = 0
    short = [[6, 0], [0, 3], [1, 6], [6, 7]] if not thorough else [[6, 0, 1], [0, 3, 6], [1, 6], [6, 7], [10, 0], [2, 2, 2]]
    for lens in short:
        data, bodies = stream_bytes(lens, 11)
        exps = [expected(b) for b in bodies]
        n = len(data)
        if n > (16 if not thorough else 21):
            continue
        for mask in range(1 << (n - 1)):
            cuts = [i + 1 for i in range(n - 1) if mask >> i & 1] + [n]
            why = _chunked(FrameParser, data, cuts, exps)
            nch += 1
            if why:
                v.add_failure('C04.chunking_independent', {'mode': 'tcp', 'reach': 'all_chunkings'},
                              'body lengths %s cut at %s: %s' % (lens, cuts, why), {'kind': 'c04', 'lens': lens, 'cuts': cuts})
                break
    for _ in range(200 if not thorough else 3000):
        lens = [rnd.choice([0, 1, 3, 5, 6, 6, 7, 9, 10, 14, 16, 40, 300]) for _ in range(rnd.randint(10, 50))]
        data, bodies = stream_bytes(lens, rnd.randint(0, 1000))
        exps = [expected(b) for b in bodies]
        for _ in range(5 if not thorough else 20):
            ncut = rnd.randint(0, min(len(data) - 1, 60))
            cuts = sorted(set(rnd.sample(range(1, len(data)), ncut))) + [len(data)]
            why = _chunked(FrameParser, data, cuts, exps)
            nch += 1
            if why:
                v.add_failure('C04.chunking_independent', {'mode': 'tcp', 'reach': 'random_chunkings'},
                              '%d frames, %d cuts: %s' % (len(lens), len(cuts), why), {'kind': 'c04', 'lens': lens, 'cuts': cuts})
                break
    v.add('spec_transitions_replayed', replayed)
    v.add('chunkings_explored', nch)
    v.add('traces_validated_against_impl', replayed + nch)
    v.setc('exhaustive', True)
    v.sample({'stream_body_lengths': list(lens_all[0]), 'transition': 'pos=4 --Read(9)-->', 'expect': 'frame 1 emitted'})
    v.assumptions += ['frame bodies are instantiated from body lengths with a fixed table of valid / undecodable frames (vf/props/c04.py body_for)']


def _chunked(cls, data, cuts, exps):
    p = cls()
    got = []
    a = 0
    try:
        for c in cuts:
            got += [describe(f) for f in drain(p.receive_data(data[a:c]))]
            a = c
        return compare(got, exps)
    except Runaway:
        return 'decoding did not terminate'
    except Exception as ex:
        return 'FrameParser raised %s: %s' % (type(ex).__name__, ex)


def _via_transport(data, exps, rbs):
    from rsocket.transports.tcp import TransportTCP

    class W:
        def close(self):
            pass

        def write(self, b):
            pass

    async def go():
        reader = asyncio.StreamReader()
        reader.feed_data(data)
        reader.feed_eof()
        t = TransportTCP(reader, W(), read_buffer_size=rbs)
        got = []
        for _ in range(len(data) + 5):
            g = await t.next_frame_generator()
            if g is None:
                break
            async for f in g:
                got.append(describe(f))
        return got

    loop = asyncio.new_event_loop()
    try:
        got = loop.run_until_complete(asyncio.wait_for(go(), 20))
        return compare(got, exps)
    except Exception as ex:
        return 'raised %s: %s' % (type(ex).__name__, ex)
    finally:
        loop.close()


def _via_transport_piecemeal(data, ends, exps, rbs, piece):
    """the stream is fed `piece` bytes at a time to a real StreamReader, the loop runs, and every frame whose last byte has been fed must
    have come out of TransportTCP before the next piece is fed (the stream is never ended)"""
    from rsocket.transports.tcp import TransportTCP

    class W:
        def close(self):
            pass

        def write(self, b):
            pass

    async def go():
        reader = asyncio.StreamReader()
        t = TransportTCP(reader, W(), read_buffer_size=rbs)
        got = []

        async def consume():
            while True:
                g = await t.next_frame_generator()
                if g is None:
                    return
                async for f in g:
                    got.append(describe(f))

        task = asyncio.ensure_future(consume())
        try:
            fed = 0
            while fed < len(data):
                reader.feed_data(data[fed:fed + piece])
                fed = min(len(data), fed + piece)
                due = sum(1 for e in ends if e <= fed)
                for _ in range(200):            # (loop iterations, not time: the transport has everything it needs)
                    if len(got) >= due:
                        break
                    await asyncio.sleep(0)
                if len(got) < due:
                    return '%d bytes received hold %d whole frames, only %d came out (the rest waits for more input)' % (fed, due, len(got))
                why = compare(got, exps[:len(got)])
                if why:
                    return why
            return compare(got, exps)
        finally:
            task.cancel()

    loop = asyncio.new_event_loop()
    try:
        return loop.run_until_complete(asyncio.wait_for(go(), 30))
    except Exception as ex:
        return 'raised %s: %s' % (type(ex).__name__, ex)
    finally:
        loop.close()


def _via_quic(data, exps, rbs):
    """the byte stream cut into QUIC stream-data events of rbs bytes, through the real protocol and transport classes; afterwards one
    frame is sent: it must leave as ONE write holding the 3-byte length prefix and the one-shot serialisation"""
    from aioquic.quic.configuration import QuicConfiguration
    from aioquic.quic.connection import QuicConnection
    from aioquic.quic.events import ConnectionTerminated, StreamDataReceived
    from rsocket.exceptions import RSocketTransportError
    from rsocket.frame_builders import to_request_n_frame
    from rsocket.transports.aioquic_transport import RSocketQuicProtocol, RSocketQuicTransport

    async def go():
        q = QuicConnection(configuration=QuicConfiguration(is_client=True))
        p = RSocketQuicProtocol(q)
        p.transmit = lambda: None           # (no datagram transport: nothing is put on a network)
        p._connected = True
        sent = []
        # (aioquic's own stream adapter writes b'' on other occasions: only what goes out on the RSocket stream counts)
        q.send_stream_data = lambda stream_id, d, end_stream=False: sent.append(bytes(d)) if stream_id == p._stream_id and d else None
        t = RSocketQuicTransport(p)
        for i in range(0, len(data), rbs):
            p.quic_event_received(StreamDataReceived(data=data[i:i + rbs], end_stream=False, stream_id=0))
        f = to_request_n_frame(7, 3)
        await t.send_frame(f)
        p.quic_event_received(ConnectionTerminated(error_code=0, frame_type=None, reason_phrase=''))
        got = []
        ended = None
        for _ in range(len(data) + 5):
            try:
                g = await asyncio.wait_for(t.next_frame_generator(), 5)
            except RSocketTransportError:
                ended = 'error'
                break
            except asyncio.TimeoutError:
                break               # (nothing more comes out: every event was handled long ago)
            async for fr in g:
                got.append(describe(fr))
        t._listener.cancel()
        body = f.serialize()
        if sent != [len(body).to_bytes(3, 'big') + body]:
            return got, 'a frame given to send_frame() left as %r' % (sent,)
        if ended != 'error':
            return got, 'the termination of the QUIC connection was not handed to the endpoint'
        return got, None

    loop = asyncio.new_event_loop()
    try:
        got, why = loop.run_until_complete(asyncio.wait_for(go(), 20))
        return compare(got, exps) or why
    except Exception as ex:
        return 'raised %s: %s' % (type(ex).__name__, ex)
    finally:
        loop.close()


def _default_lens():
    import re
    s = open(os.path.join(tlc.SPEC_DIR, 'Parser.tla')).read()
    m = re.search(r'DefaultLens == (<<.*?>> >>)', s, re.S)
    return m.group(1)
