"""Setup.tla: how a server answers the first frame of a connection - SETUP with every combination of resume flag, lease flag, lease
publisher, setup payload and what the application's on_setup lets escape (nothing, an ordinary exception, exceptions of the library's own
RSocketProtocolError family), or a RESUME frame.

(A) TLC enumerates the decision table (90 rows) and checks AcceptableIsPassed, CodeMatches, PayloadIrrelevant.
(B) spec -> code: every row is replayed on a real RSocketServer on the simulated link against a scripted client, in both framings:
    on_setup invocations and the ERROR frame queued on stream 0 are compared with the row; a request sent afterwards on an accepted
    connection must be served.  The recorded traces are also validated against RSocket.tla (C16 clauses)."""
import json

from .. import common, tlc, trace

CODES = {0x001: 'INVALID_SETUP', 0x002: 'UNSUPPORTED_SETUP', 0x003: 'REJECTED_SETUP', 0x004: 'REJECTED_RESUME', 0x101: 'CONNECTION_ERROR',
         0x201: 'APPLICATION_ERROR', 0x202: 'REJECTED', 0x203: 'CANCELED', 0x204: 'INVALID'}


def check(v):
    import logging
    logging.disable(logging.CRITICAL)
    from ..harness import prog
    r = tlc.run('Setup', 'Setup.cfg', workers=1, timeout=600, name='setup')
    if r.timed_out or not r.finished:
        raise common.Machinery('TLC did not finish on Setup: %s' % r.out[-1500:])
    if r.violated:
        v.add_failure('C16.design_%s' % r.violated, {'model': 'Setup'}, 'TLC: %s violated in the setup decision table' % r.violated)
    rows = []
    for line in r.out.splitlines():
        line = line.strip()
        if line.startswith('"{') and line.endswith('}"'):
            rows.append(json.loads(json.loads(line)))
    if len(rows) < 50:
        raise common.Machinery('the setup table printed by TLC has only %d rows' % len(rows))
    v.add('states', r.distinct)
    v.add('transitions', r.generated)
    v.coverage.setdefault('mc_configs', {})['Setup.cfg'] = {'states': r.distinct, 'transitions': r.generated, 'depth': r.depth, 'wall_s': round(r.wall, 1)}
    traces = []
    n = 0
    for row in rows:
        c, d = row['c'], row['d']
        for mode in ('tcp', 'msg'):
            opts = {'mode': mode, 'peer': 'client'}
            if c['publisher']:
                opts['server_lease_publisher'] = True
            if c['raises'] != 'no':
                opts['on_setup_raises'] = True if c['raises'] == 'exception' else c['raises']
            program = [['start'], ['peer_setup', {'frame': c['frame'], 'resume': c['resume'], 'lease': c['lease'], 'payload': c['payload']}, n],
                       ['settle'], ['peer_request', 1, n], ['settle'], ['snapshot', 'final']]
            ex = prog.Exec(dict(opts))
            status = 'ok'
            try:
                for st in program:
                    ex.do(st)
            except BaseException as e:
                status = type(e).__name__
            ev = [e for e in ex.w.rec.events if e['ep'] == 's']
            called = sum(1 for e in ev if e['ev'] == 'cb_setup')
            errs = [CODES.get(e['code'], hex(e['code'])) for e in ev if e['ev'] == 'enq' and e['ft'] == 'ERROR' and e['sid'] == 0]
            served = any(e['ev'] == 'cb_request' for e in ev)
            where = 'server, %s framing: %s%s%s%s, %slease publisher, on_setup raises: %s' % (
                mode, c['frame'], ' +resume' if c['resume'] else '', ' +lease' if c['lease'] else '', ' +payload' if c['payload'] else '',
                '' if c['publisher'] else 'no ', c['raises'])
            sig = {'model': 'Setup', 'raises': c['raises'], 'frame': c['frame'], 'resume': c['resume'], 'lease': c['lease'], 'publisher': c['publisher']}
            rp = {'kind': 'conn', 'opts': opts, 'prog': program}
            if status != 'ok':
                v.add_failure('C16.run_completes', sig, '%s: %s' % (where, status), rp)
            if called != (1 if d['called'] else 0):
                v.add_failure('C16.on_setup_exactly_once_for_acceptable_setup', sig, '%s: on_setup invoked %d time(s), the table says %s' % (
                    where, called, 'once' if d['called'] else 'never'), rp)
            want = [] if d['code'] == 'none' else [d['code']]
            if errs != want:
                v.add_failure('C16.reject_code_matches' if errs else 'C16.setup_answered', sig,
                              '%s: ERROR frames on stream 0: %r, the table says %r' % (where, errs, want), rp)
            if d['code'] == 'none' and not served:
                v.add_failure('C16.accepted_connection_serves', sig, '%s: the request sent after the accepted SETUP did not reach the handler' % where, rp)
            traces.append({'tid': len(traces) + 1, 'events': list(ex.w.rec.events), 'opts': opts, 'prog': program})
            n += 1
            try:
                ex.w.close()
            except BaseException:
                pass
    v.add('setup_rows_replayed', n)
    res, stats = trace.validate([{'tid': t['tid'], 'events': t['events']} for t in traces])
    for tid, fails in sorted(res.items()):
        for clause, idx in fails:
            if clause.startswith('C16.'):
                t = traces[tid - 1]
                v.add_failure(clause, {'model': 'Setup', 'via': 'trace'}, 'setup row trace %d, event #%d' % (tid, idx),
                              {'kind': 'conn', 'opts': t['opts'], 'prog': t['prog']})
            else:
                v.coverage.setdefault('other_properties_observed', {})
                v.coverage['other_properties_observed'][clause] = v.coverage['other_properties_observed'].get(clause, 0) + 1
    v.add('setup_row_traces_validated', len(traces))
