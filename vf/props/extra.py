"""./check extra: specifications that cover parts of the library no listed property claims (kept so that the specification keeps
growing with the system).  Results go to /verif/extra/<name>.json; exit code 0 unless the real code contradicts a specification
invariant (reported as EXTRA-VIOLATION, never as a property violation).

LoadBalancer.tla: model-checked (round-robin order, balance, connect order, close reaches every member) and every transition of its
graphs replayed on the real LoadBalancerRSocket + LoadBalancerRoundRobin / LoadBalancerRandom over recording pool members."""
import asyncio
import json
import os

from .. import common, tlc
from . import graphreplay


class _Member:
    def __init__(self, idx, log):
        self.idx, self.log = idx, log
        self.raise_on_close = False

    def _call(self, kind, *args):
        self.log.append((kind, self.idx, args))
        return ('result', kind, self.idx, len(self.log))

    def request_response(self, payload):
        return self._call('rr', payload)

    def fire_and_forget(self, payload):
        return self._call('fnf', payload)

    def request_stream(self, payload):
        return self._call('stream', payload)

    def request_channel(self, payload, publisher=None, sending_done=None):
        return self._call('channel', payload, publisher, sending_done)

    def metadata_push(self, metadata):
        return self._call('push', metadata)

    async def connect(self):
        self.log.append(('connect', self.idx, ()))

    async def close(self):
        self.log.append(('close', self.idx, ()))
        if self.raise_on_close:
            raise RuntimeError('member close failed')


class RealLB:
    N = 3
    strategy = 'round_robin'

    def __init__(self):
        from rsocket.load_balancer.load_balancer_rsocket import LoadBalancerRSocket
        from rsocket.load_balancer.round_robin import LoadBalancerRoundRobin
        from rsocket.load_balancer.random_client import LoadBalancerRandom
        self.log = []
        self.members = [_Member(i, self.log) for i in range(self.N)]
        strat = (LoadBalancerRoundRobin if self.strategy == 'round_robin' else LoadBalancerRandom)(list(self.members))
        self.lb = LoadBalancerRSocket(strat)
        self.calls = []
        self.bad = None
        self.loop = asyncio.new_event_loop()

    def call(self, kind, want_member):
        from rsocket.payload import Payload
        marker = object()
        before = len(self.log)
        if self.strategy == 'random':
            # the specification lets the strategy pick any member: steer the real one to the member of this transition
            import random
            orig = random.randint
            random.randint = lambda a, b: want_member
        try:
            p = Payload(b'x')
            if kind == 'rr':
                r = self.lb.request_response(p)
            elif kind == 'fnf':
                r = self.lb.fire_and_forget(p)
            elif kind == 'stream':
                r = self.lb.request_stream(p)
            elif kind == 'channel':
                r = self.lb.request_channel(p, marker, marker)
            else:
                r = self.lb.metadata_push(b'm')
        finally:
            if self.strategy == 'random':
                random.randint = orig
        new = self.log[before:]
        if len(new) != 1:
            self.bad = 'one %s call was forwarded %d times' % (kind, len(new))
            return
        k, m, args = new[0]
        self.calls.append((k, m))
        if k != kind or r != ('result', kind, m, len(self.log)):
            self.bad = 'a %s call was forwarded as %s / its result was not handed back unchanged' % (kind, k)
        if kind == 'channel' and (args[1] is not marker or args[2] is not marker):
            self.bad = 'request_channel: publisher / sending_done not passed through'

    def connect(self):
        self.loop.run_until_complete(self.lb.connect())

    def close_(self, raising):
        for m in self.members:
            m.raise_on_close = m.idx in raising
        self.loop.run_until_complete(self.lb.close())

    def close(self):
        self.loop.close()


def _mk(n, strategy):
    return type('RealLB_%s%d' % (strategy, n), (RealLB,), {'N': n, 'strategy': strategy})


def _set(txt):
    import re
    m = re.match(r'^\s*(\d+)\.\.(\d+)\s*$', txt)      # TLC prints an interval as a..b
    if m:
        return set(range(int(m.group(1)), int(m.group(2)) + 1))
    return set(tlc.parse_value(txt))


def _state(vs):
    calls = tlc.parse_value(vs['calls'])
    return {'calls': [(c['kind'], c['member']) for c in calls], 'connected': list(tlc.parse_value(vs['connected'])),
            'closed': _set(vs['closed'])}


def _apply(real, name, args, before):
    if name == 'Call':
        real.call(args[0], args[1])
    elif name == 'Connect':
        real.connect()
    elif name == 'Close':
        real.close_(set(args[0]))
    else:
        raise common.Machinery('unknown LoadBalancer action %r' % name)


def _compare(real, exp, obs):
    if real.bad:
        return ('EXTRA.loadbalancer_forwarding', real.bad)
    if real.calls != exp['calls']:
        return ('EXTRA.loadbalancer_selection', 'calls went to %s, the specification says %s' % (real.calls, exp['calls']))
    con = [m for (k, m, a) in real.log if k == 'connect']
    clo = set(m for (k, m, a) in real.log if k == 'close')
    if con != exp['connected']:
        return ('EXTRA.loadbalancer_connect', 'connect() reached %s, the specification says %s' % (con, exp['connected']))
    if clo != exp['closed']:
        return ('EXTRA.loadbalancer_close', 'close() reached %s, the specification says %s' % (sorted(clo), sorted(exp['closed'])))
    return None


def run():
    v = common.Verdict('EXTRA', 'model_checking')
    for cfg, n, strat in (('LoadBalancer_rr.cfg', 3, 'round_robin'), ('LoadBalancer_random.cfg', 2, 'random')):
        r = tlc.run('LoadBalancer', cfg, workers=4, timeout=600, name='lb_' + cfg)
        if r.violated or not r.finished:
            v.add_failure('EXTRA.design_%s' % r.violated, {'cfg': cfg}, 'TLC: %s violated in %s' % (r.violated, cfg))
        v.coverage.setdefault('mc_configs', {})[cfg] = {'states': r.distinct, 'transitions': r.generated}
        graphreplay.replay(v, 'LoadBalancer', cfg, _mk(n, strat), _apply, _compare, _state, prop='EXTRA', label='lb_' + strat,
                           describe=lambda s: 'calls=%s' % (s['calls'],))
    out = os.path.join(common.ROOT, 'extra')
    os.makedirs(out, exist_ok=True)
    json.dump({'name': 'LoadBalancer', 'coverage': v.coverage, 'failures': [dict(clause=f['clause'], detail=f['detail']) for f in v.failures],
               'notes': v.notes}, open(os.path.join(out, 'loadbalancer.json'), 'w'), indent=1, default=str)
    for f in v.failures[:5]:
        print('EXTRA-VIOLATION %s %s' % (f['clause'], f['detail'][:300]))
    print('%s extra specifications: LoadBalancer' % ('FAILED' if v.failures else 'OK'))
    return 1 if v.failures else 0
