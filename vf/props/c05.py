"""C05: (1) Mux.tla - the send queue discipline and the peer's reassembly cache - model-checked exhaustively (safety and
liveness) and its complete state graph replayed transition by transition on the real sender code (vf/props/mux.py);
(2) connection level (see DESIGN section 6 / C05): scenario families on the real endpoints, recorded traces validated against
RSocket.tla by TLC; design-level model checking of the same monitors in RSocketMC.tla."""
from . import conn, families, mc, mux, leasemodel


def run(v):
    mux.check(v)
    # frames a stream queues while its request waits for a lease must follow the request, in the order they were queued (Lease.tla)
    leasemodel.check_acts(v, 'C05')
    mc.run_for(v, 'C05')
    conn.check(v, 'C05', families.FAMILIES['C05'])
