"""C05: connection-level check (see DESIGN section 6 / C05): scenario families on the real endpoints, recorded traces
validated against RSocket.tla by TLC; design-level model checking of the same monitors in RSocketMC.tla."""
from . import conn, families, mc


def run(v):
    mc.run_for(v, 'C05')
    conn.check(v, 'C05', families.FAMILIES['C05'])
