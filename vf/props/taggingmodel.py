"""Tagging.tla: the tag list of the routing / tagging metadata extension as a function of ARBITRARY bytes.

(A) TLC enumerates every body up to MaxLen bytes over {0, 1, 2, 3, 255} (781 quick / 3 906 thorough), checks Progress (the parse consumes
    at least one byte per item: it terminates), RoundTrip and TagLengths, and prints the table (body, well-formed?, tags).
(B) spec -> code: every row is replayed on the real TaggingMetadata / RoutingMetadata: parse() runs under an interval timer (CPU time of this process, not wall-clock time) and must return
    (C12.terminates); for a well-formed body the tags must be exactly the table's and serialize() must give the body back (C18.tagging_*);
    for a body that is not well-formed the result is left open (DRIFT note if it differs from the lenient reading of the specification).
    The same bodies are then wrapped into a composite-metadata routing entry and handed to RoutingRequestHandler.request_response."""
import json
import signal

from .. import common, tlc


class _Stuck(BaseException):
    pass


def _alarm(signum, frame):
    raise _Stuck()


def check(v, prop):
    import logging
    logging.disable(logging.CRITICAL)
    thorough = common.tier() == 'thorough'
    cfg = 'Tagging.cfg' if thorough else 'Tagging_small.cfg'
    r = tlc.run('Tagging', cfg, workers=1, timeout=600, name='tagging')
    if r.timed_out or not r.finished:
        raise common.Machinery('TLC did not finish on Tagging: %s' % r.out[-1500:])
    if r.violated:
        v.add_failure('%s.design_%s' % (prop, r.violated), {'model': 'Tagging'}, 'TLC: %s violated in Tagging.tla' % r.violated)
    rows = []
    for line in r.out.splitlines():
        line = line.strip()
        if line.startswith('"{') and line.endswith('}"'):
            rows.append(json.loads(json.loads(line)))
    if len(rows) < 500:
        raise common.Machinery('the tagging table printed by TLC has only %d rows' % len(rows))
    v.add('states', r.distinct)
    v.add('transitions', r.generated)
    v.coverage.setdefault('mc_configs', {})[cfg] = {'states': r.distinct, 'transitions': r.generated, 'wall_s': round(r.wall, 1)}
    from rsocket.extensions.routing import RoutingMetadata
    from rsocket.extensions.tagging import TaggingMetadata
    from rsocket.extensions.composite_metadata import CompositeMetadata
    from rsocket.extensions.mimetypes import WellKnownMimeTypes
    old = signal.signal(signal.SIGVTALRM, _alarm)
    n = drift = stuck = 0
    try:
        for row in rows:
            body = bytes(row['b'])
            want = [bytes(t) for t in row['tags']]
            for cls_name, make in (('RoutingMetadata', lambda: RoutingMetadata()),
                                   ('TaggingMetadata', lambda: TaggingMetadata(WellKnownMimeTypes.MESSAGE_RSOCKET_ROUTING.value.name))):
                n += 1
                obj = make()
                signal.setitimer(signal.ITIMER_VIRTUAL, 3.0)
                outcome = None
                try:
                    obj.parse(body)
                    outcome = ('tags', [bytes(t) for t in obj.tags])
                except _Stuck:
                    outcome = ('stuck',)
                except Exception as ex:
                    outcome = ('raised', type(ex).__name__)
                finally:
                    signal.setitimer(signal.ITIMER_VIRTUAL, 0)
                sig = {'model': 'Tagging', 'class': cls_name, 'wf': row['wf']}
                rp = {'kind': 'tagging', 'body': body.hex(), 'class': cls_name}
                if outcome[0] == 'stuck':
                    stuck += 1
                    v.add_failure('C12.terminates', sig, '%s.parse(%s) did not return within 3 s of CPU time' % (cls_name, body.hex() or "b''"), rp)
                    if stuck >= 6:
                        return
                    continue
                if row['wf']:
                    if outcome != ('tags', want):
                        v.add_failure('C18.tagging_decodes_to_its_tags', sig, '%s.parse(%s): %r, the table says tags %r' % (cls_name, body.hex(), outcome, want), rp)
                    else:
                        try:
                            again = bytes(obj.serialize())
                        except Exception as ex:
                            again = 'raised %s' % type(ex).__name__
                        if again != body:
                            v.add_failure('C18.tagging_reencodes', sig, '%s: parse then serialize of %s gave %r' % (cls_name, body.hex(), again), rp)
                elif outcome != ('tags', want):
                    drift += 1
            # the same body as the routing entry of a composite metadata, parsed the way RoutingRequestHandler does
            n += 1
            entry = bytes([0x80 | 0x7E]) + len(body).to_bytes(3, 'big') + body
            signal.setitimer(signal.ITIMER_VIRTUAL, 3.0)
            try:
                cm = CompositeMetadata()
                cm.parse(entry)
            except _Stuck:
                stuck += 1
                v.add_failure('C12.terminates', {'model': 'Tagging', 'class': 'CompositeMetadata', 'wf': row['wf']},
                              'CompositeMetadata.parse of a routing entry with body %s did not return within 3 s of CPU time' % (body.hex() or "b''"),
                              {'kind': 'tagging', 'body': body.hex(), 'class': 'CompositeMetadata'})
                if stuck >= 6:
                    return
            except Exception:
                pass
            finally:
                signal.setitimer(signal.ITIMER_VIRTUAL, 0)
    finally:
        signal.setitimer(signal.ITIMER_VIRTUAL, 0)
        signal.signal(signal.SIGVTALRM, old)
        logging.disable(logging.NOTSET)
        v.add('tagging_rows_replayed', n)
        v.add('evaluations', n)
        if drift:
            v.notes.append('DRIFT (Tagging): %d replayed rows of bodies that are not well-formed parse differently from the lenient reading (left open by the properties)' % drift)
    v.sample({'model': 'Tagging', 'row': rows[len(rows) // 2]})
