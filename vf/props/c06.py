"""C06: (1) Source.tla - the library's own stream sources as publishers in isolation, model-checked and every transition
replayed on the real publisher classes (vf/props/sourcemodel.py); (2) connection-level check (see DESIGN section 6 / C06): scenario families on the real endpoints, recorded traces
validated against RSocket.tla by TLC; design-level model checking of the same monitors in RSocketMC.tla."""
from . import conn, families, mc, sourcemodel


def run(v):
    sourcemodel.check(v, 'C06')
    mc.run_for(v, 'C06')
    conn.check(v, 'C06', families.FAMILIES['C06'])
