"""Transport.tla: the message transports (aiohttp client / server side, quart, websockets, asyncwebsockets, Django channels, websocket over
HTTP/3 - server side over a starlette WebSocket, client side over ClientWebSocket fed HTTP/3 DATA events encoded by wsproto) as a function
of the sequence of websocket messages the peer sends (a valid frame, an undecodable one, an empty one, a message that is not BINARY) and
of how the websocket ends (stays open, iterator ends, iterator raises).

(A) TLC enumerates the sequences (up to 4 messages x 3 endings = 1023 rows), checks GoodInOrderOnce / JunkDisturbsNothing, prints the table.
(B) spec -> code: every row is replayed on every REAL transport class over a scripted websocket object of the shape that class expects,
    under the virtual-time loop; the endpoint side is a reader that uses next_frame_generator() only.  While the websocket is open a
    further valid message is sent afterwards and must come out: a transport wedged by what it was sent is a violation
    (C12.alive_after_input); frames that differ from the good messages in order are a violation (C04.message_yields_its_frame).
    Whether a failing websocket is surfaced to the endpoint differs between the classes (named in the specification): DRIFT only.
    Every frame handed to send_frame() must leave as exactly one BINARY message holding its one-shot serialisation.
"""
import json

from .. import common, tlc

KINDS = ['aiohttp_client', 'aiohttp_server', 'quart', 'websockets', 'asyncwebsockets', 'channels', 'http3_server', 'http3_client']
SURFACES = {'aiohttp_client', 'asyncwebsockets', 'http3_server'}       # hand the endpoint a transport error when the websocket fails


class _End(Exception):
    pass


class _Script:
    """the peer's side of a websocket: messages are fed by the driver; the transport's reader awaits them"""

    def __init__(self, loop):
        import asyncio
        self.q = asyncio.Queue()
        self.sent = []
        self.closed = False

    def feed(self, item):
        self.q.put_nowait(item)


def _make(kind, loop):
    """-> (transport, script, start coroutine or None, wrap(kind_of_message, payload) -> what the websocket object yields)"""
    import asyncio
    s = _Script(loop)
    if kind in ('aiohttp_client', 'aiohttp_server'):
        import aiohttp
        from rsocket.transports.aiohttp_websocket import TransportAioHttpClient, TransportAioHttpWebsocket

        class Msg:
            def __init__(self, t, d):
                self.type, self.data = t, d

        class WS:
            def __aiter__(self):
                return self

            async def __anext__(self):
                k, v = await s.q.get()
                if k == 'close':
                    raise StopAsyncIteration
                if k == 'error':
                    raise ConnectionResetError('websocket failed')
                return v

            async def send_bytes(self, data):
                s.sent.append(bytes(data))

            async def close(self):
                s.closed = True

        def wrap(k, b):
            return ('m', Msg(aiohttp.WSMsgType.TEXT, 'hello') if k == 'text' else Msg(aiohttp.WSMsgType.BINARY, b))
        if kind == 'aiohttp_client':
            t = TransportAioHttpClient(websocket=WS())
            return t, s, t.connect(), wrap
        t = TransportAioHttpWebsocket(WS())
        return t, s, t.handle_incoming_ws_messages(), wrap
    if kind == 'quart':
        import rsocket.transports.quart_websocket as qm

        class QWS:
            async def receive(self):
                k, v = await s.q.get()
                if k == 'close':
                    raise asyncio.CancelledError()      # quart cancels the handler when the client has gone
                if k == 'error':
                    raise ConnectionResetError('websocket failed')
                return v

            async def send(self, data):
                s.sent.append(bytes(data))
        qm.websocket = QWS()
        t = qm.TransportQuartWebsocket()
        return t, s, t.handle_incoming_ws_messages(), (lambda k, b: ('m', 'hello' if k == 'text' else b))
    if kind == 'websockets':
        from rsocket.transports.websockets_transport import WebsocketsTransport

        class WWS:
            def __aiter__(self):
                return self

            async def __anext__(self):
                k, v = await s.q.get()
                if k == 'close':
                    raise StopAsyncIteration
                if k == 'error':
                    raise ConnectionResetError('websocket failed')
                return v

            async def send(self, data):
                s.sent.append(bytes(data))
        t = WebsocketsTransport()
        return t, s, t.handler(WWS()), (lambda k, b: ('m', 'hello' if k == 'text' else b))
    if kind == 'asyncwebsockets':
        from wsproto.events import BytesMessage, TextMessage
        from rsocket.transports.asyncwebsockets_transport import TransportAsyncWebsocketsClient

        class AWS:
            def __aiter__(self):
                return self

            async def __anext__(self):
                k, v = await s.q.get()
                if k == 'close':
                    raise StopAsyncIteration
                if k == 'error':
                    raise ConnectionResetError('websocket failed')
                return v

            async def send(self, data):
                s.sent.append(bytes(data))
        t = TransportAsyncWebsocketsClient(AWS())
        return t, s, t.connect(), (lambda k, b: ('m', TextMessage(data='hello') if k == 'text' else BytesMessage(data=b)))
    if kind == 'channels':
        from rsocket.transports.channels_transport import AsyncRSocketConsumer, ChannelsTransport

        class Consumer(AsyncRSocketConsumer):
            def __init__(self):          # (no Django scope / channel layer: only receive() and send() are exercised)
                self.transport = None

            async def send(self, text_data=None, bytes_data=None, close=False, **kw):
                s.sent.append(bytes(bytes_data))
        c = Consumer()
        t = ChannelsTransport(c)
        c.transport = t

        async def pump():
            while True:
                k, v = await s.q.get()
                if k in ('close', 'error'):
                    await c.disconnect(1000 if k == 'close' else 1006)
                    return
                if isinstance(v, str):
                    await c.receive(text_data=v)
                else:
                    await c.receive(bytes_data=v)
        return t, s, pump(), (lambda k, b: ('m', 'hello' if k == 'text' else b))
    if kind == 'http3_server':
        # the server side of websocket-over-HTTP/3 (and the FastAPI example): a starlette WebSocket over a scripted ASGI receive / send pair
        from starlette.websockets import WebSocket
        from rsocket.transports.http3_transport import Http3TransportWebsocket
        first = [True]

        async def receive():
            if first[0]:
                first[0] = False
                return {'type': 'websocket.connect'}
            k, v = await s.q.get()
            if k == 'close':
                return {'type': 'websocket.disconnect', 'code': 1000}
            if k == 'error':
                raise ConnectionResetError('websocket failed')
            return v

        async def send(message):
            if message['type'] == 'websocket.send':
                s.sent.append(bytes(message.get('bytes') or b''))
        ws = WebSocket({'type': 'websocket', 'path': '/', 'headers': [], 'query_string': b''}, receive, send)
        box = {}

        async def start():
            await ws.accept()
            box['t'] = Http3TransportWebsocket(ws)
        loop.create_task(start())
        loop.run_ready()
        nth = [0]

        def wrap3(k, b):
            if k != 'text':
                return ('m', {'type': 'websocket.receive', 'bytes': b})
            nth[0] += 1
            # the two shapes ASGI servers give a TEXT message: no 'bytes' key at all (aioquic's demo server, uvicorn), or bytes = None
            return ('m', {'type': 'websocket.receive', 'text': 'hello'} if nth[0] % 2 else {'type': 'websocket.receive', 'bytes': None, 'text': 'hello'})
        return box['t'], s, None, wrap3
    if kind == 'http3_client':
        # the client side: ClientWebSocket decodes the websocket protocol (wsproto) from HTTP/3 DATA events; the peer's messages are
        # encoded by a wsproto SERVER connection, so TEXT and BINARY messages are what a real server would put on the stream
        import wsproto
        import wsproto.events as wev
        from aioquic.h3.events import DataReceived
        from rsocket.transports.http3_transport import ClientWebSocket, Http3TransportWebsocket

        class Http:
            def send_data(self, stream_id, data, end_stream):
                # what the client wrote: decoded by the peer's wsproto connection
                peer.receive_data(data)
                for ev in peer.events():
                    if isinstance(ev, wev.BytesMessage):
                        s.sent.append(bytes(ev.data))
        peer = wsproto.Connection(wsproto.ConnectionType.SERVER)
        cws = ClientWebSocket(Http(), 0, lambda: None)
        # the opening handshake is done by HTTP/3 headers, not by wsproto: both connections start in the OPEN state
        from wsproto.connection import ConnectionState
        for conn in (peer, cws.websocket):
            conn._state = ConnectionState.OPEN
        box = {'t': Http3TransportWebsocket(cws)}

        async def pump():
            while True:
                k, v = await s.q.get()
                if k == 'close':
                    data = peer.send(wev.CloseConnection(code=1000))
                    cws.http_event_received(DataReceived(data=data, stream_id=0, stream_ended=True))
                    return
                if k == 'error':
                    return                      # (a QUIC connection that fails produces no websocket event at all)
                cws.http_event_received(DataReceived(data=peer.send(v), stream_id=0, stream_ended=False))
        return box['t'], s, pump(), (lambda k, b: ('m', wev.TextMessage(data='hello') if k == 'text' else wev.BytesMessage(data=b)))
    raise common.Machinery('unknown transport kind %r' % kind)


def run_row(kind, case):
    import asyncio
    from ..harness import vloop, wire
    from rsocket.frame import InvalidFrame
    loop = vloop.VLoop()
    loop.enter()
    got = []            # ('frame', stream id) / ('invalid',) / ('error', name)
    status = 'ok'
    try:
        t, s, start, wrap = _make(kind, loop)

        async def reader():
            try:
                while True:
                    g = await t.next_frame_generator()
                    if g is None:
                        got.append(('end',))
                        return
                    async for f in g:
                        got.append(('invalid',) if isinstance(f, InvalidFrame) else ('frame', f.stream_id))
            except asyncio.CancelledError:
                raise
            except BaseException as e:
                got.append(('error', type(e).__name__))

        rt = loop.create_task(reader())
        ht = loop.create_task(start) if start is not None else None
        loop.run_ready()
        k = 0
        for m in case['msgs']:
            if m == 'good':
                k += 1
                body = wire.encode('REQUEST_N', sid=k, n=k)
            elif m == 'junk':
                body = (1000).to_bytes(4, 'big') + bytes([(0x3E << 2) & 0xFF, 0]) + b'zz'
            else:
                body = b''
            s.feed(wrap(m, body))
            loop.run_ready()
        if case['ending'] == 'open':
            # the transport must still be working: one more valid message comes out
            s.feed(wrap('good', wire.encode('REQUEST_N', sid=99, n=1)))
        else:
            s.feed((case['ending'], None))
        loop.run_ready()
        handler_died = None
        if ht is not None and ht.done() and not ht.cancelled() and ht.exception() is not None:
            handler_died = type(ht.exception()).__name__
        # sending: one BINARY message per frame, its one-shot serialisation
        sent_ok = None
        if case['ending'] == 'open':
            from rsocket.frame_builders import to_request_n_frame
            f = to_request_n_frame(7, 3)
            if f is not None:
                n0 = len(s.sent)
                loop.create_task(t.send_frame(f))
                loop.run_ready()
                sent_ok = 'nothing' if not s.sent[n0:] else (s.sent[n0:] == [f.serialize()])
        for task in (rt, ht):
            if task is not None and not task.done():
                task.cancel()
        loop.run_ready()
    except BaseException as e:
        status = type(e).__name__
        handler_died = sent_ok = None
    finally:
        try:
            for task in asyncio.all_tasks(loop):
                task.cancel()
            loop.run_ready()
        except BaseException:
            pass
        loop.leave()
        loop.close()
    return {'got': got, 'status': status, 'handler_died': handler_died, 'sent_ok': sent_ok}


def check(v, prop):
    import logging
    logging.disable(logging.CRITICAL)
    thorough = common.tier() == 'thorough'
    cfg = 'Transport.cfg' if thorough else 'Transport_small.cfg'
    r = tlc.run('Transport', cfg, workers=1, timeout=600, name='transport')
    if r.timed_out or not r.finished:
        raise common.Machinery('TLC did not finish on Transport: %s' % r.out[-1500:])
    if r.violated:
        v.add_failure('%s.design_%s' % (prop, r.violated), {'model': 'Transport'}, 'TLC: %s violated in the transport table' % r.violated)
    rows = []
    for line in r.out.splitlines():
        line = line.strip()
        if line.startswith('"{') and line.endswith('}"'):
            rows.append(json.loads(json.loads(line)))
    if len(rows) < 100:
        raise common.Machinery('the transport table printed by TLC has only %d rows' % len(rows))
    v.add('states', r.distinct)
    v.add('transitions', r.generated)
    v.coverage.setdefault('mc_configs', {})[cfg] = {'states': r.distinct, 'transitions': r.generated, 'depth': r.depth, 'wall_s': round(r.wall, 1)}
    n = drift = 0
    notes = []
    for row in rows:
        case, exp = row['c'], row['e']
        want = [x for x in exp['delivered'] if x > 0]
        for kind in KINDS:
            if kind in ('channels', 'http3_client') and case['ending'] == 'error':
                continue            # (no such event: a consumer is only ever disconnected; a failing QUIC connection produces no websocket event)
            obs = run_row(kind, case)
            n += 1
            where = '%s transport, messages %s, websocket %s' % (kind, case['msgs'], case['ending'])
            sig = {'model': 'Transport', 'transport': kind, 'ending': case['ending'], 'has_text': 'text' in case['msgs'],
                   'has_junk': 'junk' in case['msgs'] or 'empty' in case['msgs']}
            rp = {'kind': 'transport', 'transport': kind, 'case': case}
            if obs['status'] != 'ok':
                v.add_failure('C12.terminates', sig, '%s: %s' % (where, obs['status']), rp)
                continue
            frames = [x[1] for x in obs['got'] if x[0] == 'frame']
            probe_ok = True
            if case['ending'] == 'open':
                probe_ok = bool(frames) and frames[-1] == 99
                frames = frames[:-1] if probe_ok else frames
            if frames != want:
                v.add_failure('C04.message_yields_its_frame', sig, '%s: frames handed to the endpoint %r, the table says %r%s' % (
                    where, frames, want, (' (the message handler ended with %s)' % obs['handler_died']) if obs['handler_died'] else ''), rp)
            elif not probe_ok:
                v.add_failure('C12.alive_after_input', sig, '%s: a valid message sent afterwards never reached the endpoint%s' % (
                    where, (' (the message handler ended with %s)' % obs['handler_died']) if obs['handler_died'] else ''), rp)
            if obs['sent_ok'] == 'nothing' and frames == want and probe_ok:
                v.add_failure('C12.alive_after_input', sig, '%s: a frame given to send_frame() afterwards never left the transport' % where, rp)
            elif obs['sent_ok'] is False:
                v.add_failure('C02.message_is_the_one_shot_encoding', sig, '%s: a frame given to send_frame() did not leave as one message with its serialisation' % where, rp)
            invalid = sum(1 for x in obs['got'] if x[0] == 'invalid')
            errs = [x for x in obs['got'] if x[0] == 'error']
            d = None
            if invalid > sum(1 for m in case['msgs'] if m in ('junk', 'empty')):
                d = '%d invalid-frame markers' % invalid
            elif bool(errs) != (case['ending'] == 'error' and kind in SURFACES):
                d = 'transport error surfaced to the endpoint: %r' % errs
            if d:
                drift += 1
                if len(notes) < 3:
                    notes.append('%s: %s' % (where, d))
    v.add('transport_rows_replayed', n)
    v.add('transport_rows_matching_table', n - drift)
    if drift:
        v.notes.append('DRIFT (Transport): %d of %d replayed rows differ from the table in what the property leaves open: %s' % (drift, n, ' | '.join(notes)))
    v.sample({'model': 'Transport', 'row': rows[len(rows) // 2]})
