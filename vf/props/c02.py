"""C02 frame codec: round trip, canonical bytes, incremental form, back-end independence.

Frames.tla is an independent transcription of the RSocket 1.0 wire layout.  TLC enumerates the value domain (7k+ frame values:
every type, flag combination, boundary values of every numeric field, blob length classes), checks Decode(Encode(f)) = f and the
length identities in the model and prints every (value, encoding).  Each printed pair is replayed on the real codec, once per
back-end (cbitstruct; pure Python forced by masking the cbitstruct import in a subprocess):
  C02.encode_matches_layout        real serialize() == specification bytes
  C02.decode_yields_same_fields    real parse of the specification bytes gives the same field values
  C02.reencode_canonical           re-encoding the parsed frame gives the same bytes
  C02.incremental_form_identical   length-prefixed one-shot form and the bytes TransportTCP.send_frame writes == 3-byte length + bytes
  C02.payload_with_content_has_next
  C02.backend_independent          both back-ends give the same result (value or exception class) on every specification encoding
                                   and on random mutations / truncations of it
Blobs (metadata, data, MIME strings, resume token) are instantiated with VERIF_SEED-random bytes: the codec never inspects them.
"""
import hashlib
import json
import os
import random
import subprocess
import sys

from .. import common, tlc


def _blob(tag, length, seed):
    if length == 0:
        return b''
    h = hashlib.sha256(('%d/%d/%d' % (tag, length, seed)).encode()).digest()
    out = (h * (length // len(h) + 1))[:length]
    if tag in (3, 4):       # MIME strings: printable
        out = bytes(0x61 + (b % 26) for b in out)
    return out


def expand(items, seed):
    out = bytearray()
    for x in items:
        if x >= 0:
            out.append(x)
        else:
            out += _blob((-x) % 8, (-x) // 8, seed)
    return bytes(out)


def _int(bs):
    return int.from_bytes(bytes(bs), 'big')


def build(v, seed):
    """the real frame object for a specification value"""
    from rsocket import frame as fr
    from rsocket.error_codes import ErrorCode
    cls = {'SETUP': fr.SetupFrame, 'LEASE': fr.LeaseFrame, 'KEEPALIVE': fr.KeepAliveFrame, 'REQUEST_RESPONSE': fr.RequestResponseFrame,
           'REQUEST_FNF': fr.RequestFireAndForgetFrame, 'REQUEST_STREAM': fr.RequestStreamFrame, 'REQUEST_CHANNEL': fr.RequestChannelFrame,
           'REQUEST_N': fr.RequestNFrame, 'CANCEL': fr.CancelFrame, 'PAYLOAD': fr.PayloadFrame, 'ERROR': fr.ErrorFrame,
           'METADATA_PUSH': fr.MetadataPushFrame, 'RESUME': fr.ResumeFrame, 'RESUME_OK': fr.ResumeOKFrame}[v['ft']]
    f = cls()
    ft = v['ft']
    f.stream_id = _int(v['sid'])
    f.flags_ignore = bool(v['I'])
    md = _blob(1, v['ml'], seed)
    d = _blob(2, v['dl'], seed)
    if ft in ('SETUP', 'LEASE', 'REQUEST_RESPONSE', 'REQUEST_FNF', 'REQUEST_STREAM', 'REQUEST_CHANNEL', 'PAYLOAD', 'METADATA_PUSH'):
        f.metadata = md
    if ft in ('SETUP', 'KEEPALIVE', 'REQUEST_RESPONSE', 'REQUEST_FNF', 'REQUEST_STREAM', 'REQUEST_CHANNEL', 'PAYLOAD', 'ERROR'):
        f.data = d
    if ft == 'SETUP':
        f.flags_lease = bool(v['C'])
        f.flags_resume = v['tok'] >= 0
        if v['tok'] >= 0:
            f.token_length = v['tok']
            f.resume_identification_token = _blob(5, v['tok'], seed)
        f.major_version, f.minor_version = _int(v['ver'][:2]), _int(v['ver'][2:])
        f.keep_alive_milliseconds = _int(v['ka'])
        f.max_lifetime_milliseconds = _int(v['life'])
        f.metadata_encoding = _blob(3, v['mml'], seed)
        f.data_encoding = _blob(4, v['dml'], seed)
    elif ft == 'LEASE':
        f.time_to_live = _int(v['ka'])
        f.number_of_requests = _int(v['n'])
    elif ft == 'KEEPALIVE':
        f.flags_respond = bool(v['F'])
        f.last_received_position = _int(v['pos'])
    elif ft in ('REQUEST_RESPONSE', 'REQUEST_FNF'):
        f.flags_follows = bool(v['F'])
    elif ft in ('REQUEST_STREAM', 'REQUEST_CHANNEL'):
        f.flags_follows = bool(v['F'])
        f.initial_request_n = _int(v['n'])
        if ft == 'REQUEST_CHANNEL':
            f.flags_complete = bool(v['C'])
    elif ft == 'REQUEST_N':
        f.request_n = _int(v['n'])
    elif ft == 'PAYLOAD':
        f.flags_follows = bool(v['F'])
        f.flags_complete = bool(v['C'])
        f.flags_next = bool(v['N'])
    elif ft == 'ERROR':
        f.error_code = ErrorCode(_int(v['code']))
    elif ft == 'RESUME':
        f.major_version, f.minor_version = _int(v['ver'][:2]), _int(v['ver'][2:])
        f.token_length = v['tok']
        f.resume_identification_token = _blob(5, v['tok'], seed)
        f.last_server_position = _int(v['pos'])
        f.first_client_position = _int(v['pos2'])
    elif ft == 'RESUME_OK':
        f.last_received_client_position = _int(v['pos'])
    return f


def fields_of(fr_obj):
    """observable fields of a parsed frame, normalised (bytes / ints / bools)"""
    ft = fr_obj.frame_type.name
    o = {'ft': ft, 'sid': fr_obj.stream_id, 'I': bool(fr_obj.flags_ignore)}

    def b(x):
        return bytes(x) if x else b''

    if ft in ('SETUP', 'LEASE', 'REQUEST_RESPONSE', 'REQUEST_FNF', 'REQUEST_STREAM', 'REQUEST_CHANNEL', 'PAYLOAD', 'METADATA_PUSH'):
        o['md'] = b(fr_obj.metadata).hex()
    if ft in ('SETUP', 'KEEPALIVE', 'REQUEST_RESPONSE', 'REQUEST_FNF', 'REQUEST_STREAM', 'REQUEST_CHANNEL', 'PAYLOAD', 'ERROR'):
        o['d'] = b(fr_obj.data).hex()
    if ft == 'SETUP':
        o.update(lease=bool(fr_obj.flags_lease), resume=bool(fr_obj.flags_resume), ver=(fr_obj.major_version, fr_obj.minor_version),
                 ka=fr_obj.keep_alive_milliseconds, life=fr_obj.max_lifetime_milliseconds, mm=b(fr_obj.metadata_encoding).hex(),
                 dm=b(fr_obj.data_encoding).hex())
        if fr_obj.flags_resume:
            o['tok'] = b(fr_obj.resume_identification_token).hex()
    elif ft == 'LEASE':
        o.update(ttl=fr_obj.time_to_live, n=fr_obj.number_of_requests)
    elif ft == 'KEEPALIVE':
        o.update(respond=bool(fr_obj.flags_respond), pos=fr_obj.last_received_position)
    elif ft in ('REQUEST_RESPONSE', 'REQUEST_FNF'):
        o.update(F=bool(fr_obj.flags_follows))
    elif ft in ('REQUEST_STREAM', 'REQUEST_CHANNEL'):
        o.update(F=bool(fr_obj.flags_follows), n=fr_obj.initial_request_n)
        if ft == 'REQUEST_CHANNEL':
            o['C'] = bool(fr_obj.flags_complete)
    elif ft == 'REQUEST_N':
        o.update(n=fr_obj.request_n)
    elif ft == 'PAYLOAD':
        o.update(F=bool(fr_obj.flags_follows), C=bool(fr_obj.flags_complete), N=bool(fr_obj.flags_next))
    elif ft == 'ERROR':
        o.update(code=int(fr_obj.error_code))
    elif ft == 'RESUME':
        o.update(ver=(fr_obj.major_version, fr_obj.minor_version), tok=b(fr_obj.resume_identification_token).hex(),
                 pos=fr_obj.last_server_position, pos2=fr_obj.first_client_position)
    elif ft == 'RESUME_OK':
        o.update(pos=fr_obj.last_received_client_position)
    return o


def expected_fields(v, seed):
    ft = v['ft']
    o = {'ft': ft, 'sid': _int(v['sid']), 'I': bool(v['I'])}
    md = _blob(1, v['ml'], seed).hex()
    d = _blob(2, v['dl'], seed).hex()
    if ft in ('SETUP', 'LEASE', 'REQUEST_RESPONSE', 'REQUEST_FNF', 'REQUEST_STREAM', 'REQUEST_CHANNEL', 'PAYLOAD', 'METADATA_PUSH'):
        o['md'] = md
    if ft in ('SETUP', 'KEEPALIVE', 'REQUEST_RESPONSE', 'REQUEST_FNF', 'REQUEST_STREAM', 'REQUEST_CHANNEL', 'PAYLOAD', 'ERROR'):
        o['d'] = d
    if ft == 'SETUP':
        o.update(lease=bool(v['C']), resume=v['tok'] >= 0, ver=(_int(v['ver'][:2]), _int(v['ver'][2:])), ka=_int(v['ka']), life=_int(v['life']),
                 mm=_blob(3, v['mml'], seed).hex(), dm=_blob(4, v['dml'], seed).hex())
        if v['tok'] >= 0:
            o['tok'] = _blob(5, v['tok'], seed).hex()
    elif ft == 'LEASE':
        o.update(ttl=_int(v['ka']), n=_int(v['n']))
    elif ft == 'KEEPALIVE':
        o.update(respond=bool(v['F']), pos=_int(v['pos']))
    elif ft in ('REQUEST_RESPONSE', 'REQUEST_FNF'):
        o.update(F=bool(v['F']))
    elif ft in ('REQUEST_STREAM', 'REQUEST_CHANNEL'):
        o.update(F=bool(v['F']), n=_int(v['n']))
        if ft == 'REQUEST_CHANNEL':
            o['C'] = bool(v['C'])
    elif ft == 'REQUEST_N':
        o.update(n=_int(v['n']))
    elif ft == 'PAYLOAD':
        o.update(F=bool(v['F']), C=bool(v['C']), N=bool(v['N']))
    elif ft == 'ERROR':
        o.update(code=_int(v['code']))
    elif ft == 'RESUME':
        o.update(ver=(_int(v['ver'][:2]), _int(v['ver'][2:])), tok=_blob(5, v['tok'], seed).hex(), pos=_int(v['pos']), pos2=_int(v['pos2']))
    elif ft == 'RESUME_OK':
        o.update(pos=_int(v['pos']))
    return o


def _norm(o):
    return json.loads(json.dumps(o))


def worker_main():
    """argv: backend ('native'|'cbitstruct') in.json out.json seed"""
    backend, inp, outp, seed = sys.argv[2], sys.argv[3], sys.argv[4], int(sys.argv[5])
    if backend == 'native':
        sys.modules['cbitstruct'] = None
    import logging
    logging.disable(logging.CRITICAL)
    from rsocket import frame as fr
    from rsocket.transports.tcp import TransportTCP
    used = 'cbitstruct' if fr.ParseHelper.parse_header.__name__.endswith('cbitstruct') else 'native'
    vals = json.load(open(inp))
    fails = []
    digests = []
    rnd = random.Random(seed)

    class W:
        def __init__(self):
            self.buf = bytearray()

        def write(self, b):
            self.buf += bytes(b)

        async def drain(self):
            return

    def decode_digest(b):
        try:
            r = fr.parse_or_ignore(b)
            if r is None:
                return 'none'
            return hashlib.md5(json.dumps(_norm(fields_of(r)), sort_keys=True).encode()).hexdigest()[:12]
        except Exception as ex:
            return 'exc:' + type(ex).__name__

    for k, (v, items) in enumerate(vals):
        exp = expand(items, seed)
        why = {}
        try:
            f = build(v, seed)
            got = f.serialize()
            if bytes(got) != exp:
                why['C02.encode_matches_layout'] = 'serialize() gave %s..., layout says %s...' % (bytes(got)[:24].hex(), exp[:24].hex())
            full = fr.serialize_with_frame_size_header(build(v, seed))
            if bytes(full) != len(exp).to_bytes(3, 'big') + exp:
                why['C02.incremental_form_identical'] = 'serialize_with_frame_size_header differs'
            w = W()
            c = TransportTCP(None, w).send_frame(build(v, seed))
            try:
                c.send(None)
            except StopIteration:
                pass
            if bytes(w.buf) != len(exp).to_bytes(3, 'big') + exp:
                why.setdefault('C02.incremental_form_identical', 'bytes written by TransportTCP.send_frame differ: %s... vs %s...' % (
                    bytes(w.buf)[:20].hex(), (len(exp).to_bytes(3, 'big') + exp)[:20].hex()))
            if v['ft'] == 'PAYLOAD' and (v['ml'] or v['dl']) and v.get('N'):
                # "a payload frame with content always carries the next flag": also when the frame OBJECT was built without it
                # (what the fragmenter does for continuation fragments) - in the one-shot and in both incremental forms
                def unflagged():
                    g = build(v, seed)
                    g.flags_next = False
                    return g
                w2 = W()
                c2 = TransportTCP(None, w2).send_frame(unflagged())
                try:
                    c2.send(None)
                except StopIteration:
                    pass
                if bytes(unflagged().serialize()) != exp or bytes(fr.serialize_with_frame_size_header(unflagged())) != len(exp).to_bytes(3, 'big') + exp \
                        or bytes(w2.buf) != len(exp).to_bytes(3, 'big') + exp:
                    why['C02.payload_with_content_has_next'] = 'a payload frame object with content but flags_next unset is encoded without the next flag'
        except Exception as ex:
            why['C02.encode_matches_layout'] = 'building/serializing raised %s: %s' % (type(ex).__name__, ex)
        try:
            p = fr.parse_or_ignore(exp)
            if p is None:
                why['C02.decode_yields_same_fields'] = 'parse_or_ignore returned None'
            else:
                gf = _norm(fields_of(p))
                ef = _norm(expected_fields(v, seed))
                if gf != ef:
                    diff = sorted(kk for kk in set(gf) | set(ef) if gf.get(kk) != ef.get(kk))
                    why['C02.decode_yields_same_fields'] = 'fields differ: %s' % ', '.join('%s=%s (expected %s)' % (
                        kk, str(gf.get(kk))[:30], str(ef.get(kk))[:30]) for kk in diff)
                if v['ft'] == 'PAYLOAD' and (v['ml'] or v['dl']) and not p.flags_next:
                    why['C02.payload_with_content_has_next'] = 'decoded payload frame with content has no next flag'
                re = p.serialize()
                if bytes(re) != exp:
                    why['C02.reencode_canonical'] = 're-encoding the decoded frame gives different bytes'
        except Exception as ex:
            why['C02.decode_yields_same_fields'] = 'parse raised %s: %s' % (type(ex).__name__, ex)
        for clause, detail in why.items():
            fails.append({'clause': clause, 'ft': v['ft'], 'detail': detail, 'k': k})
        # digests for the cross-back-end comparison: the exact encoding plus three mutations (deterministic per k)
        r2 = random.Random(seed * 1000003 + k)
        muts = [exp]
        if len(exp) > 6:
            b = bytearray(exp[:min(len(exp), 64)] + exp[64:])
            i = r2.randrange(min(len(b), 40))
            b[i] ^= 1 << r2.randrange(8)
            muts.append(bytes(b))
            muts.append(exp[:r2.randrange(0, min(len(exp), 48))])
            b2 = bytearray(exp)
            b2[4] = (b2[4] & 3) | (r2.randrange(64) << 2)
            muts.append(bytes(b2))
        digests.append([decode_digest(m) for m in muts])
    if os.environ.get('VERIF_C02_LENGTH_SWEEP'):
        # the written form at frame lengths around the multiples of 64 KiB (the stream writer's buffer limit, a natural place to cut a large
        # frame into writes): what TransportTCP.send_frame writes is the 3-byte length followed by the one-shot encoding, whatever the length
        sweep = []
        for base in (65536, 131072, 196608):
            for L in range(base - 6, base + 7):
                sweep.append(('data', L, 0, L - 6))
            for L in (base - 3, base - 2, base - 1, base, base + 1, base + 3):
                sweep.append(('metadata+data', L, 70, L - 6 - 3 - 70))
        for what, L, ml, dl in sweep:
            g = fr.PayloadFrame()
            g.stream_id = 5
            g.flags_next = True
            g.data = bytes((i * 7 + L) & 0xFF for i in range(dl))
            if ml:
                g.metadata = bytes((i * 3 + 1) & 0xFF for i in range(ml))
            one = bytes(g.serialize())
            w3 = W()
            c3 = TransportTCP(None, w3).send_frame(g)
            try:
                while True:
                    c3.send(None)
            except StopIteration:
                pass
            except Exception as ex:
                fails.append({'clause': 'C02.incremental_form_identical', 'ft': 'PAYLOAD', 'detail': 'PAYLOAD (%s) of encoded length %d: send_frame raised %s' % (what, L, type(ex).__name__), 'k': 0})
                continue
            if len(one) != L or bytes(w3.buf) != L.to_bytes(3, 'big') + one:
                fails.append({'clause': 'C02.incremental_form_identical', 'ft': 'PAYLOAD',
                              'detail': 'PAYLOAD (%s) of encoded length %d: TransportTCP.send_frame wrote %d bytes, the length prefix + one-shot encoding is %d bytes%s' % (
                                  what, L, len(w3.buf), 3 + len(one), '' if len(w3.buf) != 3 + len(one) else ' (contents differ)'), 'k': 0})
    json.dump({'backend': used, 'fails': fails, 'digests': digests}, open(outp, 'w'))


def run(v):
    thorough = common.tier() == 'thorough'
    seed = common.seed()
    r = tlc.run('Frames', 'Frames.cfg', workers=1, timeout=900, name='frames')
    if not r.finished:
        raise common.Machinery('TLC did not finish on Frames: ' + r.out[-1500:])
    if r.violated:
        v.add_failure('C02.spec_' + r.violated, {}, 'TLC: %s violated in Frames.tla itself' % r.violated)
    vals = []
    for line in r.out.splitlines():
        if line.startswith('"{'):
            o = json.loads(json.loads(line))
            vals.append((o['v'], o['items']))
    if len(vals) != r.distinct:
        raise common.Machinery('expected %d printed frame values, parsed %d' % (r.distinct, len(vals)))
    v.add('states', r.distinct)
    v.add('transitions', r.generated)
    work = common.workdir()
    env = dict(os.environ)
    env['PYTHONPATH'] = common.ROOT + os.pathsep + common.REPO
    seeds = [seed] if not thorough else [seed, seed + 1, seed + 2]
    nshards = 6
    total = 0
    by_type = {}
    for sd in seeds:
        procs = []
        for backend in ('cbitstruct', 'native'):
            for sh in range(nshards):
                part = vals[sh::nshards]
                inp = os.path.join(work, 'c02_%s_%d_%d.json' % (backend, sd, sh))
                outp = inp.replace('.json', '.out.json')
                json.dump(part, open(inp, 'w'))
                p = subprocess.Popen([common.PY, '-c', 'import sys; sys.argv=["x","w",%r,%r,%r,%r]; from vf.props import c02; c02.worker_main()' % (
                    backend, inp, outp, str(sd))], env=dict(env, VERIF_C02_LENGTH_SWEEP='1') if sh == 0 else env, cwd=common.ROOT,
                    stdout=subprocess.PIPE, stderr=subprocess.STDOUT, text=True)
                procs.append((backend, sh, part, p, outp))
        results = {}
        for backend, sh, part, p, outp in procs:
            try:
                o, _ = p.communicate(timeout=900)
            except subprocess.TimeoutExpired:
                p.kill()
                raise common.Machinery('C02 worker timed out')
            if p.returncode != 0:
                raise common.Machinery('C02 worker failed: ' + o[-3000:])
            res = json.load(open(outp))
            if res['backend'] != backend:
                if backend == 'cbitstruct':
                    v.notes.append('cbitstruct not importable: only the native back-end could be exercised')
                else:
                    raise common.Machinery('could not force the native back-end')
            results[(backend, sh)] = (part, res)
            for fl in res['fails']:
                val = part[fl['k']][0]
                v.add_failure(fl['clause'], {'backend': backend, 'ft': fl['ft'], 'M': int(val['ml'] > 0), 'I': val['I']},
                              '%s back-end, %s: %s' % (backend, {k2: val[k2] for k2 in ('ft', 'sid', 'I', 'F', 'C', 'N', 'ml', 'dl')}, fl['detail']),
                              {'kind': 'c02', 'value': val, 'backend': backend, 'seed': sd})
            total += len(part)
        for sh in range(nshards):
            pa, ra = results[('cbitstruct', sh)]
            pb, rb = results[('native', sh)]
            for k, (da, db) in enumerate(zip(ra['digests'], rb['digests'])):
                by_type[pa[k][0]['ft']] = by_type.get(pa[k][0]['ft'], 0) + 1
                for mi, (x, y) in enumerate(zip(da, db)):
                    if x != y and mi > 0:
                        # malformed input (bit flips, truncations, foreign type ids) lies outside C02's domain ('field values
                        # within the wire format's ranges'): recorded as drift, never an alarm
                        v.coverage['X.backends_differ_on_malformed_input'] = v.coverage.get('X.backends_differ_on_malformed_input', 0) + 1
                        continue
                    if x != y:
                        v.add_failure('C02.backend_independent', {'ft': pa[k][0]['ft'], 'mutation': mi},
                                      'decoding %s of %s: cbitstruct back-end -> %s, native back-end -> %s' % (
                                          ['the exact encoding', 'a bit flip', 'a truncation', 'a type change'][mi], pa[k][0]['ft'], x, y),
                                      {'kind': 'c02', 'value': pa[k][0], 'mutation': mi, 'seed': sd})
    v.add('evaluations', total)
    v.add('distinct_nontrivial', len(vals))
    v.add('traces_validated_against_impl', total)
    v.coverage['values_by_type'] = by_type
    v.setc('rule', 'frame values enumerated by TLC from Frames.tla Domain (type x flags x boundary values x blob length classes); '
                   'each replayed on both codec back-ends; all are distinct and non-trivial (each has at least a full header)')
    v.setc('exhaustive', True)
    v.sample({'value': vals[len(vals) // 2][0], 'items': vals[len(vals) // 2][1]})
    v.assumptions += ['blob contents (metadata, data, MIME strings, token) are sampled, not enumerated: the codec does not inspect them',
                      'domain rule: the metadata flag is set iff metadata is non-empty (flag set with zero-length metadata is not representable by the frame classes)']
