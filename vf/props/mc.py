"""Design-level model checking (RSocketMC.tla configs) shared by the connection-level properties."""
import os

from .. import common, tlc

# property -> list of (module, cfg, timeout)
_ALL = [('RSocketMC', 'RSocketMC_%s.cfg' % k, 900) for k in
        ('rr', 'rr_s', 'stream', 'stream_s', 'stream_lib', 'channel_nopub', 'channel_lib', 'channel')]
_SMALL = [c for c in _ALL if c[1] != 'RSocketMC_channel.cfg']
# the same with fragmentation: an element / a response is two fragments long, the sender writes one fragment per step
_FRAG = [('RSocketMC', 'RSocketMC_%s.cfg' % k, 900) for k in ('rr_frag', 'stream_frag', 'stream_lib_frag', 'channel_nopub_frag', 'stream_frag_witness')]
_FRAG_BIG = [('RSocketMC', 'RSocketMC_channel_frag.cfg', 1800)]
# two interactions side by side on one connection (shared sender and link): cross-stream independence at design level
# the library's request-channel AS IMPLEMENTED where it deviates from the design (open findings F17a/b/c): NoClauseFails must be
# REFUTED - the day it holds, the findings are obsolete and the deviation in RSocketMC.tla (AsImplemented) is stale
_IMPL = [('RSocketMC', 'RSocketMC_channel_impl.cfg', 900)]
_EXPECT_REFUTED = {'RSocketMC_channel_impl.cfg': 'NoClauseFails',
                   # vacuity control: the fragmented model does reach "the last fragment arrives after the receiver finished the stream"
                   'RSocketMC_stream_frag_witness.cfg': 'FragmentNeverOrphaned'}
_TWO = [('RSocketMC2', 'RSocketMC2_%s.cfg' % k, 900) for k in ('rr_rr', 'rr_stream', 'stream_rr_s', 'stream_stream', 'streamlib_rr',
                                                                'channel_rr', 'channel_stream')]
# ... a channel whose requester has a publisher of its own next to a request-response: 1.5 M states (thorough tier)
_TWO_BIG = [('RSocketMC2', 'RSocketMC2_channelpub_rr.cfg', 2400)]
_TWO_FRAG = [('RSocketMC2', 'RSocketMC2_rr_stream_frag.cfg', 900), ('RSocketMC2', 'RSocketMC2_stream_stream_frag.cfg', 1500)]
CONFIGS = {
    'C01': _ALL + _TWO + _FRAG + _FRAG_BIG + _TWO_FRAG + _TWO_BIG, 'C07': _ALL + _FRAG, 'C08': _ALL + _IMPL + _FRAG, 'C09': _ALL + _TWO + _FRAG,
    'C10': _ALL + _TWO + _IMPL + _FRAG + _FRAG_BIG + _TWO_BIG, 'C03': _FRAG,
    'C06': [c for c in _ALL if 'lib' in c[1] or c[1] == 'RSocketMC_stream.cfg'],
    'C05': _SMALL + _TWO + _FRAG + _TWO_FRAG, 'C11': _SMALL, 'C12': _SMALL,
}


_EXPECTED_UNUSED = {
    'rr': {'PubComplete', 'PubError', 'PubNext', 'SubCancel', 'SubRequestN'},
    'stream': {'FutCancel', 'FutCancelCallback', 'Respond'},
    'channel': {'FutCancel', 'FutCancelCallback', 'Respond'},
}


def run_for(v, prop):
    from concurrent.futures import ThreadPoolExecutor
    thorough = common.tier() == 'thorough'
    cfgs = CONFIGS.get(prop, [])
    if not thorough:
        cfgs = [c for c in cfgs if c[1] not in ('RSocketMC_channel.cfg', 'RSocketMC_channel_frag.cfg', 'RSocketMC2_channelpub_rr.cfg')]

    def one(c):
        module, cfg, timeout = c
        # (per-action coverage is only read for the one-interaction configurations; on the two-interaction and the large fragment
        # configurations TLC's coverage instrumentation costs tens of minutes and gigabytes)
        # ... and it needs more than 6 GB of heap even for the 45-state configuration: only on request (VERIF_TLC_COVERAGE=1, heap cap lifted)
        cov = bool(os.environ.get('VERIF_TLC_COVERAGE')) and thorough and module == 'RSocketMC' and cfg not in ('RSocketMC_channel.cfg', 'RSocketMC_channel_frag.cfg')
        return c, tlc.run(module, cfg, coverage=cov, timeout=timeout, workers=4 if thorough else 2, name='mc_' + cfg.replace('.cfg', ''))

    with ThreadPoolExecutor(max_workers=2 if thorough else 7) as ex:
        results = list(ex.map(one, cfgs))
    for (module, cfg, timeout), r in results:
        if r.timed_out or (not r.finished and not r.violated):
            raise common.Machinery('TLC did not finish on %s/%s: %s' % (module, cfg, r.out[-1500:]))
        if cfg in _EXPECT_REFUTED:
            if r.violated != _EXPECT_REFUTED[cfg]:
                raise common.Machinery('control configuration %s should refute %s but TLC reported %r' % (cfg, _EXPECT_REFUTED[cfg], r.violated))
            v.coverage.setdefault('mc_configs', {})[cfg] = {'expected_refutation': _EXPECT_REFUTED[cfg], 'states': r.distinct}
            continue
        if r.violated:
            v.add_failure('%s.design_%s' % (prop, r.violated), {'cfg': cfg}, 'TLC: %s violated in the design model %s' % (r.violated, cfg))
        v.add('states', r.distinct)
        v.add('transitions', r.generated)
        if os.environ.get('VERIF_TLC_COVERAGE') and thorough and module == 'RSocketMC' and cfg not in ('RSocketMC_channel.cfg', 'RSocketMC_channel_frag.cfg'):
            cov = r.coverage()
            kind = 'rr' if '_rr' in cfg else ('stream' if '_stream' in cfg else 'channel')
            if 'witness' in cfg:
                continue
            zero = sorted(a for a, (d, t) in cov.items() if t == 0 and a not in _EXPECTED_UNUSED[kind]
                          and not ('lib' in cfg and a in ('PubComplete', 'PubError')))
            if zero:
                v.notes.append('vacuity warning (%s): actions never taken: %s' % (cfg, ', '.join(zero)))
        v.coverage.setdefault('mc_configs', {})[cfg] = {'states': r.distinct, 'transitions': r.generated, 'depth': r.depth,
                                                        'wall_s': round(r.wall, 1)}
