"""Design-level model checking (RSocketMC.tla configs) shared by the connection-level properties."""
from .. import common, tlc

# property -> list of (module, cfg, timeout)
CONFIGS = {}


def run_for(v, prop):
    for module, cfg, timeout in CONFIGS.get(prop, []):
        r = tlc.run(module, cfg, coverage=True, timeout=timeout, name='mc_' + cfg.replace('.cfg', ''))
        if r.timed_out or not r.finished:
            raise common.Machinery('TLC did not finish on %s/%s: %s' % (module, cfg, r.out[-1500:]))
        if r.violated:
            v.add_failure('%s.design_%s' % (prop, r.violated), {'cfg': cfg}, 'TLC: %s violated in the design model %s' % (r.violated, cfg))
        v.add('states', r.distinct)
        v.add('transitions', r.generated)
        cov = r.coverage()
        zero = sorted(a for a, (d, t) in cov.items() if t == 0)
        if zero:
            v.notes.append('vacuity warning (%s): actions never taken: %s' % (cfg, ', '.join(zero)))
        v.coverage.setdefault('mc_configs', {})[cfg] = {'states': r.distinct, 'transitions': r.generated, 'depth': r.depth,
                                                        'wall_s': round(r.wall, 1)}
