"""C11: connection-level check (see DESIGN section 6 / C11): scenario families on the real endpoints, recorded traces
validated against RSocket.tla by TLC; design-level model checking of the same monitors in RSocketMC.tla."""
from . import conn, families, mc, lifecycle


def run(v):
    mc.run_for(v, 'C11')
    # Lifecycle.tla: explicit close() at any moment relative to reconnects, losses and requests (incl. racing calls), replayed on
    # the real client; the recorded paths are judged by the monitors of RSocket.tla
    lifecycle.check(v, ('C11.',), 'Lifecycle_close.cfg')
    # ... and fire-and-forget calls whose frame is still queued / half-written behind a transport that does not accept writes
    lifecycle.check(v, ('C11.',), 'Lifecycle_fnf.cfg', wide='Lifecycle_fnf_wide.cfg', label='lifecycle_fnf')
    # ServerLifecycle.tla: the same for a server-side connection (close() by the server application racing requests either way / the loss)
    lifecycle.check_server(v, ('C11.',))
    conn.check(v, 'C11', families.FAMILIES['C11'])
