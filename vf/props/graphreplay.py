"""spec -> code: replay EVERY transition of a TLC state graph (dot dump with action labels) on a real object.

make_real()                      -> fresh real object in the specification's initial state
apply(real, name, args, before)  -> performs the action on the real code; returns an observation (or None)
compare(real, after, obs)        -> None if the real object is in specification state `after`;
                                    (clause, detail) if what the real code did violates the PROPERTY (judged on the real
                                    observations alone by an oracle transcribed from the specification's invariants);
                                    ('DRIFT', detail) if the real object merely differs from the specification state although
                                    its observable history satisfies the property (an implementation that changed but is
                                    still right): counted and reported as a note, never as a violation
state_of(vars)                   -> python projection of a dot node (dict var -> TLA+ value text)

nondet=True: the specification may offer SEVERAL successors for one action label in one state (e.g. the two serial orders of two
racing calls).  The action is applied once; the real object must be in ONE of those successor states (else DRIFT), and the
exploration goes on from the one it is in.  Successor states the code never realises are counted, not explored.

States are reached by following edges as far as possible (DFS over unreplayed edges); a state whose outgoing edges are not all
replayed yet is re-entered by building a fresh real object along the BFS-tree path from the initial state (a "teleport").  A
mismatch is recorded, and exploration does not continue from a specification state the code did not reach."""
import os

from .. import common, tlc


def _close(real):
    c = getattr(real, 'close', None)
    if c is not None:
        try:
            c()
        except BaseException:
            pass


class _Unreached(Exception):
    pass


def replay(v, module, cfg, make_real, apply, compare, state_of, prop, label, describe=str, max_edges=None, max_failures=40, nondet=False):
    work = common.workdir()
    dump = os.path.join(work, '%s_graph_%s' % (label, cfg.replace('.cfg', '')))
    r = tlc.run(module, cfg, workers=1, dump=dump, timeout=1500, name=label + 'dump')
    if r.violated or not r.finished:
        raise common.Machinery('TLC dump of %s/%s failed: %s' % (module, cfg, r.out[-2000:]))
    nodes, edges, inits = tlc.parse_dot(dump + '.dot')
    st = {}

    def S(n):
        if n not in st:
            st[n] = state_of(nodes[n])
        return st[n]

    out = {}
    for (a, b, lab) in edges:
        if a == b:
            continue
        if nondet:
            # one entry per (state, label): b is the LIST of alternative successors
            for ent in out.setdefault(a, []):
                if ent[1] == lab:
                    if b not in ent[0]:
                        ent[0].append(b)
                    break
            else:
                out[a].append(([b], lab))
        else:
            out.setdefault(a, []).append((b, lab))
    parent = {inits[0]: None}
    order = [inits[0]]
    for a in order:
        for (bs, lab) in out.get(a, []):
            for b in (bs if nondet else [bs]):
                if b not in parent:
                    parent[b] = (a, lab)
                    order.append(b)

    def path_to(n):
        p = []
        while parent[n] is not None:
            a, lab = parent[n]
            p.append((a, n, lab))
            n = a
        return list(reversed(p))

    def build(n):
        real = make_real()
        for (a, b, lab) in path_to(n):
            name, args = tlc.parse_action_label(lab)
            obs = apply(real, name, args, S(a))
            if nondet and compare(real, S(b), obs) is not None:
                _close(real)
                raise _Unreached()      # the code took another of the alternatives the specification allows here
        return real

    done = set()
    total = sum(len(x) for x in out.values())
    replayed = teleports = failures = drift = unrealised = 0
    alternatives_taken = {}
    drift_notes = []
    bad_states = set()
    stack_states = list(reversed(order))
    cur, real = inits[0], make_real()
    while True:
        nxt = None
        if cur not in bad_states:
            for k, (b, lab) in enumerate(out.get(cur, [])):
                if (cur, k) not in done:
                    nxt = (k, b, lab)
                    break
        if nxt is None:
            cur = None
            while stack_states:
                c = stack_states[-1]
                if c not in bad_states and any((c, k) not in done for k in range(len(out.get(c, [])))):
                    cur = c
                    break
                stack_states.pop()
            if cur is None:
                break
            if real is not None:
                _close(real)
            try:
                real = build(cur)
            except common.Machinery:
                raise
            except _Unreached:
                bad_states.add(cur)
                unrealised += 1
                real = None
                continue
            except Exception:
                bad_states.add(cur)     # the path to this state already failed elsewhere
                continue
            teleports += 1
            continue
        k, b, lab = nxt
        done.add((cur, k))
        name, args = tlc.parse_action_label(lab)
        try:
            obs = apply(real, name, args, S(cur))
            if nondet:
                alts = b
                res = [(x, compare(real, S(x), obs)) for x in alts]
                hit = [x for x, r in res if r is None]
                if hit:
                    b, bad = hit[0], None
                    if len(alts) > 1:
                        alternatives_taken[alts.index(b)] = alternatives_taken.get(alts.index(b), 0) + 1
                else:
                    viol = [r for x, r in res if r[0] != 'DRIFT']
                    b, bad = alts[0], (viol[0] if viol else res[0][1])
                    if not viol and len(alts) > 1:
                        bad = ('DRIFT', 'none of the %d outcomes the specification allows: %s' % (len(alts), bad[1]))
            else:
                bad = compare(real, S(b), obs)
        except common.Machinery:
            raise
        except Exception as ex:     # the library raised where the specification defines a step
            bad = ('%s.%s_step_raised' % (prop, label), '%s: %s' % (type(ex).__name__, ex))
            if nondet:
                b = b[0]
        replayed += 1
        if bad and bad[0] == 'DRIFT':
            # the implementation left the specification but has not violated the property: keep driving it along the
            # specification's inputs, judged by the oracle alone
            drift += 1
            if len(drift_notes) < 3:
                drift_notes.append('state %s --%s--> %s' % (describe(S(cur)), lab, bad[1]))
            bad = None
        if bad:
            failures += 1
            if failures <= max_failures:
                v.add_failure(bad[0], {'action': name, 'model': module}, 'state %s --%s--> %s' % (describe(S(cur)), lab, bad[1]),
                              {'kind': 'graph', 'module': module, 'cfg': cfg, 'path': [l for (_, _, l) in path_to(cur)] + [lab]})
            bad_states.add(b)
        cur = b
        if max_edges and replayed >= max_edges:
            break
    if real is not None:
        _close(real)
    v.add('%s_transitions_replayed' % label, replayed)
    v.add('%s_transitions_total' % label, total)
    v.add('%s_states' % label, len(nodes))
    v.add('%s_teleports' % label, teleports)
    v.add('%s_transitions_matching_spec_state' % label, replayed - drift - failures)
    if nondet:
        v.add('%s_states_never_realised_by_the_code' % label, unrealised)
        v.coverage['%s_alternative_taken' % label] = {str(k): n for k, n in sorted(alternatives_taken.items())}
    if drift:
        v.notes.append('DRIFT (%s/%s): on %d of %d replayed transitions the real code was not in the specification state although its '
                       'observable history satisfies the property; the specification no longer describes the implementation: %s' % (
                           module, cfg, drift, replayed, ' | '.join(drift_notes)))
    v.sample({'model': module, 'cfg': cfg, 'example_path': [l for (_, _, l) in path_to(order[len(order) // 2])]})
    return replayed, total
