"""C15: (1) KeepAlive.tla - the client's keep-alive sender, time-out watchdog, echo and the aftermath of a time-out, under a
clock - model-checked exhaustively for several (period, lifetime) pairs and every transition of its state graphs replayed on a
real RSocketClient against a scripted server under the virtual-time loop (vf/props/kamodel.py); (2) connection level (see DESIGN
section 6 / C15): scenario families on the real endpoints, recorded traces validated against RSocket.tla by TLC."""
from . import conn, families, mc, kamodel


def run(v):
    kamodel.check(v)
    mc.run_for(v, 'C15')
    # (reconnect family: 'a connected client sends a KEEPALIVE every period' on the connection made by the reconnect)
    conn.check(v, 'C15', families.FAMILIES['C15'], also=('C17.keepalive_restarted',))
