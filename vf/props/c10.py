"""C10: connection-level check (see DESIGN section 6 / C10): scenario families on the real endpoints, recorded traces
validated against RSocket.tla by TLC; design-level model checking of the same monitors in RSocketMC.tla."""
from . import conn, families, mc, leasemodel


def run(v):
    mc.run_for(v, 'C10')
    # an interaction given up while its request waits for a lease: what was queued behind the request (its CANCEL) must follow it, or the
    # responder keeps the stream for ever (Lease.tla, AppActsOnHeldRequest)
    leasemodel.check_acts(v, 'C10')
    conn.check(v, 'C10', families.FAMILIES['C10'])
