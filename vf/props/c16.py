"""C16: connection-level check (see DESIGN section 6 / C16): scenario families on the real endpoints, recorded traces
validated against RSocket.tla by TLC; design-level model checking of the same monitors in RSocketMC.tla."""
from . import conn, families, mc, setupmodel


def run(v):
    # Setup.tla: the server's accept / reject decision table, every row replayed on a real server
    setupmodel.check(v)
    mc.run_for(v, 'C16')
    conn.check(v, 'C16', families.FAMILIES['C16'])
