"""C09: connection-level check (see DESIGN section 6 / C09): scenario families on the real endpoints, recorded traces
validated against RSocket.tla by TLC; design-level model checking of the same monitors in RSocketMC.tla."""
from . import conn, families, mc, sourcemodel, leasemodel


def run(v):
    # cancel() on the library's own sources at every point, also before the loop ran (Source.tla: NothingAfterCancel)
    sourcemodel.check(v, 'C09')
    # cancelling an interaction whose request is still waiting for a lease (Lease.tla, AppActsOnHeldRequest)
    leasemodel.check_acts(v, 'C09')
    mc.run_for(v, 'C09')
    conn.check(v, 'C09', families.FAMILIES['C09'])
