"""C12 at the routing layer (rsocket/routing/routing_request_handler.py is one of C12's anchors): every request entry point of a real
RoutingRequestHandler is called with DAMAGED routing / composite metadata - every truncation of a set of valid encodings, and every
single-byte replacement / insertion of the bytes 0x00, 0x01, 0x7f, 0x80, 0xff at every position - the way RSocketBase calls it.

"processing of any input terminates": each call runs under an interval timer; an input that is still being processed after the budget
is a violation (C12.terminates).  The timer counts the CPU time of this process (ITIMER_VIRTUAL), not wall-clock time: a loaded machine
cannot make a terminating parse look stuck.  "confined to being ignored or answered with an ERROR frame": the entry point either serves the request
or fails with an ordinary exception (which the receiver turns into ERROR on that stream) - and a well-formed request made afterwards on
the same handler is served (C12.probe_served)."""
import asyncio
import signal

from .. import common


class _Stuck(BaseException):
    pass


def _alarm(signum, frame):
    raise _Stuck()


def _bases():
    from rsocket.extensions.helpers import composite, route, authenticate_simple, authenticate_bearer, metadata_item
    from rsocket.extensions.mimetypes import WellKnownMimeTypes
    out = [composite(route('echo')),
           composite(route('echo'), authenticate_simple('user', 'pw')),
           composite(authenticate_bearer('tok'), route('echo')),
           composite(metadata_item(b'xy', WellKnownMimeTypes.TEXT_PLAIN), route('echo')),
           composite(route('echo'), metadata_item(b'{}', b'application/x.custom'))]
    # a routing entry with two tags (the first one routes)
    from rsocket.extensions.routing import RoutingMetadata
    from rsocket.extensions.composite_metadata import CompositeMetadata
    cm = CompositeMetadata()
    cm.append(RoutingMetadata([b'echo', b'second']))
    out.append(cm.serialize())
    return [bytes(b) for b in out]


def _mutations(b):
    seen = set()
    for k in range(len(b)):
        yield b[:k]
    for i in range(len(b)):
        for x in (0x00, 0x01, 0x7f, 0x80, 0xff):
            if b[i] != x:
                yield b[:i] + bytes([x]) + b[i + 1:]
        for x in (0x00, 0x05):
            yield b[:i] + bytes([x]) + b[i:]
    yield b + b'\x00'
    yield b + b'\x05'
    yield b + b'\x04echo'


def check(v, prop='C12'):
    import logging
    logging.disable(logging.CRITICAL)
    from rsocket.payload import Payload
    from rsocket.helpers import create_future
    from rsocket.routing.request_router import RequestRouter
    from rsocket.routing.routing_request_handler import RoutingRequestHandler
    from .c19 import invoke, Pub
    thorough = common.tier() == 'thorough'
    router = RequestRouter()
    served = []

    @router.response('echo')
    async def rr(payload):
        served.append('response')
        return create_future(Payload(b'ok'))

    @router.stream('echo')
    async def st(payload):
        served.append('stream')
        return Pub('echo')

    @router.channel('echo')
    async def ch(payload):
        served.append('channel')
        return Pub('echo'), None

    @router.fire_and_forget('echo')
    async def ff(payload):
        served.append('fnf')

    @router.metadata_push('echo')
    async def mp(payload):
        served.append('push')

    handler = RoutingRequestHandler(router)
    good = _bases()[0]
    loop = asyncio.new_event_loop()
    asyncio.set_event_loop(loop)
    old = signal.signal(signal.SIGVTALRM, _alarm)
    n = stuck = 0
    types = ['response', 'stream', 'channel', 'fnf', 'push']
    try:
        seen = set()
        for bi, base in enumerate(_bases()):
            for m in _mutations(base):
                if m in seen:
                    continue
                seen.add(m)
                ts = types if thorough else [types[(len(seen) + bi) % 5], 'response']
                for t in dict.fromkeys(ts):
                    n += 1
                    signal.setitimer(signal.ITIMER_VIRTUAL, 4.0)
                    try:
                        loop.run_until_complete(invoke(handler, t, Payload(b'data', m)))
                    except _Stuck:
                        stuck += 1
                        v.add_failure('C12.terminates', {'layer': 'routing', 'type': t},
                                      'RoutingRequestHandler.%s: processing of a request with metadata %s did not terminate (4 s of CPU time)' % (t, m.hex()),
                                      {'kind': 'routinghostile', 'type': t, 'metadata': m.hex()})
                    except Exception:
                        pass            # (an ordinary exception out of the entry point is turned into ERROR on that stream by the receiver)
                    finally:
                        signal.setitimer(signal.ITIMER_VIRTUAL, 0)
                    if stuck >= 5:
                        break
                if stuck >= 5:
                    break
            if stuck >= 5:
                break
            # a well-formed request is still served by the same handler
            del served[:]
            signal.setitimer(signal.ITIMER_VIRTUAL, 4.0)
            try:
                out = loop.run_until_complete(invoke(handler, 'response', Payload(b'data', good)))
            except (_Stuck, Exception) as ex:
                out = ('error', ex)
            finally:
                signal.setitimer(signal.ITIMER_VIRTUAL, 0)
            if out[0] != 'ok' or served != ['response']:
                v.add_failure('C12.probe_served', {'layer': 'routing'}, 'after the damaged metadata derived from %s a well-formed request was not served: %r' % (base.hex(), out),
                              {'kind': 'routinghostile', 'base': base.hex()})
    finally:
        signal.setitimer(signal.ITIMER_VIRTUAL, 0)
        signal.signal(signal.SIGVTALRM, old)
        loop.close()
        logging.disable(logging.NOTSET)
    v.add('routing_hostile_inputs', n)
    v.add('evaluations', n)
    v.coverage['routing_hostile'] = {'inputs': n, 'bases': len(_bases()), 'distinct_metadata': len(seen)}
