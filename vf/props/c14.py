"""C14: connection-level check (see DESIGN section 6 / C14): scenario families on the real endpoints, recorded traces
validated against RSocket.tla by TLC; design-level model checking of the same monitors in RSocketMC.tla."""
from . import conn, families, mc


def run(v):
    mc.run_for(v, 'C14')
    conn.check(v, 'C14', families.FAMILIES['C14'])
