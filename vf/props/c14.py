"""C14: (1) Lease.tla - the requester side of leasing under a clock - model-checked exhaustively and its complete state graphs
(unbounded and bounded request queue) replayed transition by transition on a real RSocketClient(honor_lease=True) under a
virtual clock (vf/props/leasemodel.py); (2) connection level (see DESIGN section 6 / C14): scenario families on the real
endpoints incl. the responder side (LEASE frames announce exactly what the publisher published), recorded traces validated
against RSocket.tla by TLC."""
from . import conn, families, mc, leasemodel


def run(v):
    leasemodel.check(v)
    # LeaseAnnounce.tla: the responder side (publication order and values on the wire, under back-pressure), replayed on a real server
    leasemodel.check_announce(v)
    mc.run_for(v, 'C14')
    conn.check(v, 'C14', families.FAMILIES['C14'])
