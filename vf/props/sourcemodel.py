"""Source.tla: the library's own stream sources as Reactive-Streams publishers in isolation (StreamFromGenerator,
StreamFromAsyncGenerator - also with delay_between_messages -, the Rx v3 / ReactiveX v4 BackPressurePublisher over a plain observable,
and feedback_observable over a back-pressure-aware factory), under request(n) / cancel() calls that may pile up before the loop runs.

(A) TLC checks Source.tla exhaustively for several shapes of the application's data (0..3 elements, completion flagged on the last
    element or not, a failure at the k-th element, buffered / asked element by element): WithinCredit, AskedIsGranted,
    AllDeliveredWhenCreditSuffices, CompleteOnlyAtTheEnd, ErrorPreserved, CompletionWhenCreditSuffices, NothingAfterCancel,
    TerminalIsFinal.
(B) spec -> code: every transition of every graph is replayed on the real publisher objects under the virtual-time loop with a
    recording subscriber and a recording application generator.  The specification is nondeterministic where the loop runs only a
    few iterations (Step): the real object must be in one of the allowed successor states.  The verdict is given by an oracle on the
    real observations alone (signals well-formed, never more elements than credit, everything delivered at quiescence when credit
    suffices, nothing after cancel(), a factory told exactly what was granted, terminal kind preserved); a mere mismatch with the
    specification state is DRIFT.
"""
from .. import common, tlc
from . import graphreplay

BIG_MODEL = 99
BIG_REAL = 2 ** 31 - 1


class _Sub:
    def __init__(self, real):
        self.real = real

    def on_subscribe(self, subscription):
        self.real.sig.append(('subscribe',))
        self.real.subscription = subscription

    def on_next(self, value, is_complete=False):
        d = bytes(value.data or b'') if value is not None else b''
        m = bytes(value.metadata or b'') if value is not None else b''
        self.real.sig.append(('next', d, m, bool(is_complete)))
        if self.real.REPLENISH and not is_complete and (d or m) and self.real.cancel_at is None:
            # the usual Reactive Streams idiom: ask for one more from inside on_next
            self.real.granted.append(1)
            self.real.inner_requests += 1
            self.real.subscription.request(1)

    def on_complete(self):
        self.real.sig.append(('complete',))

    def on_error(self, exception):
        self.real.sig.append(('error', type(exception).__name__))


class RealSource:
    KIND = 'gen'
    N = 2
    CWL = False
    FAIL = 0
    P = 'C06'
    REPLENISH = False

    def __init__(self):
        import logging
        logging.disable(logging.CRITICAL)
        from ..harness import vloop
        self.loop = vloop.VLoop()
        self.loop.enter()
        self.sig = []            # signals the subscriber received, in order
        self.pulls = 0           # elements the application's generator produced
        self.starts = 0          # times the application's generator was started
        self.asked = []          # what a back-pressure factory was told
        self.granted = []        # what the application passed to request()
        self.cancel_at = None    # len(sig) / pulls when cancel() returned
        self.inner_requests = 0  # request(1) calls made from inside on_next
        self.subscription = None
        self.pub = self._make()

    # ---- the application's data
    def _payload(self, i):
        from rsocket.payload import Payload
        return Payload(b'e%d' % i, b'm%d' % i)

    def _gen(self):
        self.starts += 1
        for i in range(1, self.N + 1):
            if self.FAIL == i:
                raise RuntimeError('application failure at element %d' % i)
            self.pulls += 1
            yield self._payload(i), (self.CWL and i == self.N)
        if self.FAIL == self.N + 1:
            raise RuntimeError('application failure at the end')

    async def _agen(self):
        for x in self._gen():
            yield x

    async def _agen_values(self):
        for (p, _) in self._gen():
            yield p

    def _make(self):
        from datetime import timedelta
        k = self.KIND
        if k == 'gen':
            from rsocket.streams.stream_from_generator import StreamFromGenerator
            return StreamFromGenerator(self._gen)
        if k == 'gen_delay':
            from rsocket.streams.stream_from_generator import StreamFromGenerator
            return StreamFromGenerator(self._gen, delay_between_messages=timedelta(milliseconds=5))
        if k == 'agen':
            from rsocket.streams.stream_from_async_generator import StreamFromAsyncGenerator
            return StreamFromAsyncGenerator(self._agen)
        if k == 'agen_delay':
            from rsocket.streams.stream_from_async_generator import StreamFromAsyncGenerator
            return StreamFromAsyncGenerator(self._agen, delay_between_messages=timedelta(milliseconds=5))
        if k in ('obs_x', 'factory_x'):
            import reactivex as R
            from rsocket.reactivex import back_pressure_publisher as B
        else:
            import rx as R
            from rsocket.rx_support import back_pressure_publisher as B
        if k.startswith('obs'):
            vals = [self._payload(i) for i in range(1, (self.FAIL - 1 if self.FAIL else self.N) + 1)]
            src = R.from_iterable(vals)
            if self.FAIL:
                src = R.concat(src, R.throw(RuntimeError('application failure')))
            return B.observable_to_publisher(src)

        def factory(backpressure):
            backpressure.subscribe(on_next=lambda n: self.asked.append(n))
            return B.observable_from_async_generator(self._agen_values().__aiter__(), backpressure)

        return B.observable_to_publisher(B.from_observable_with_backpressure(factory))

    # ---- actions
    def subscribe(self):
        self.pub.subscribe(_Sub(self))

    def request(self, n):
        real_n = BIG_REAL if n == BIG_MODEL else n
        self.granted.append(real_n)
        self.pub.request(real_n)

    def cancel(self):
        self.pub.cancel()
        self.cancel_at = (len(self.sig), self.pulls)

    def run(self):
        self.loop.run_ready()
        if self.KIND.endswith('_delay'):
            self.loop.advance(0.1)

    def step(self, j):
        for _ in range(j):
            self.loop._one()

    # ---- observation
    def observe(self):
        em = sum(1 for s in self.sig if s[0] == 'next' and (s[1] or s[2]))
        term = 'none'
        for s in self.sig:
            if s[0] == 'complete' or (s[0] == 'next' and s[3]):
                term = 'complete'
            elif s[0] == 'error':
                term = 'error'
        if self.cancel_at is not None and term == 'none':
            term = 'cancelled'
        return {'em': em, 'pulled': self.pulls, 'term': term}

    def oracle(self, quiet, late):
        P = self.P
        sig = self.sig
        if sig and sig[0][0] != 'subscribe' or sum(1 for s in sig if s[0] == 'subscribe') > 1:
            return ('%s.source_signals_well_formed' % P, 'on_subscribe is not the first signal / not signalled once: %r' % (sig[:4],))
        terminal = None
        k = 0
        for i, s in enumerate(sig):
            if s[0] == 'subscribe':
                continue
            if terminal is not None:
                return ('%s.source_signals_well_formed' % P, 'signal %r after the terminal signal %r' % (s, terminal))
            if s[0] == 'next' and (s[1] or s[2]):
                k += 1
                if (s[1], s[2]) != (b'e%d' % k, b'm%d' % k):
                    return ('%s.source_elements_in_order_intact' % P, 'element #%d handed to the subscriber is %r / %r' % (k, s[1], s[2]))
            if s[0] in ('complete', 'error') or (s[0] == 'next' and s[3]):
                terminal = s
        granted = sum(self.granted)
        if k > granted:
            return ('%s.source_emits_within_credit' % P, '%d elements handed over, credit granted %d (%r)' % (k, granted, self.granted))
        if self.cancel_at is not None:
            if len(sig) > self.cancel_at[0]:
                return ('%s.source_silent_after_cancel' % P, 'signal %r after cancel() returned' % (sig[self.cancel_at[0]],))
            if self.pulls > self.cancel_at[1] and late == 0:
                return ('%s.source_production_stops_after_cancel' % P, 'the application generator produced %d more element(s) after cancel()' % (
                    self.pulls - self.cancel_at[1]))
        if self.KIND.startswith('factory'):
            if self.asked != self.granted[:len(self.asked)] or (quiet and len(self.asked) != len(self.granted) and self.cancel_at is None
                                                                and terminal is None):
                return ('%s.factory_asked_exactly_credited' % P, 'the factory was told %r, the application granted %r' % (self.asked, self.granted))
            if self.pulls > granted:
                return ('%s.factory_asked_exactly_credited' % P, 'the factory produced %d elements for a credit of %d' % (self.pulls, granted))
        if terminal is not None:
            kind = 'error' if terminal[0] == 'error' else 'complete'
            n_good = self.FAIL - 1 if self.FAIL else self.N
            if kind == 'complete' and (self.FAIL or k != self.N):
                return ('%s.source_terminal_kind_preserved' % P, 'completion signalled after %d element(s); the application %s' % (
                    k, 'fails at element %d' % self.FAIL if self.FAIL else 'holds %d' % self.N))
            if kind == 'error' and not self.FAIL:
                return ('%s.source_terminal_kind_preserved' % P, 'error %r signalled, the application does not fail' % (terminal,))
            if kind == 'error' and k > n_good:
                return ('%s.source_terminal_kind_preserved' % P, '%d elements before the error, the application fails at %d' % (k, self.FAIL))
        if quiet and self.cancel_at is None and sig:
            owed = min(granted, self.FAIL - 1 if self.FAIL else self.N)
            failing = self.FAIL and granted >= self.FAIL
            if not failing and k != owed:
                return ('%s.source_delivers_all_when_credit_suffices' % P, '%d element(s) handed over at quiescence, credit %d, the application holds %d' % (
                    k, granted, self.N))
            if failing and terminal is None:
                return ('%s.source_terminal_kind_preserved' % P, 'the application failed (credit %d reaches element %d) but no error was signalled' % (granted, self.FAIL))
            if not self.FAIL and granted >= self.N + 1 and terminal is None:
                return ('%s.source_completes_when_credit_suffices' % P, 'credit %d, the application holds %d: no completion at quiescence' % (granted, self.N))
        return None

    def close(self):
        try:
            for t in __import__('asyncio').all_tasks(self.loop):
                t.cancel()
            self.loop.run_ready()
        except BaseException:
            pass
        try:
            self.loop.leave()
            self.loop.close()
        except BaseException:
            pass


def _mk(kind, n, cwl, fail, prop, replenish=False):
    return type('RealSource_%s' % kind, (RealSource,), {'KIND': kind, 'N': n, 'CWL': cwl, 'FAIL': fail, 'P': prop, 'REPLENISH': replenish})


def _state(vs):
    s = tlc.parse_value(vs['s'])
    return s


def _apply(real, name, args, before):
    if name == 'Subscribe':
        real.subscribe()
    elif name == 'Request':
        real.request(args[0])
    elif name == 'LateRequest':
        real.request(args[0])
        real.run()
    elif name == 'Cancel':
        real.cancel()
    elif name == 'Run':
        real.run()
    elif name == 'Step':
        real.step(int(args[0]))
    else:
        raise common.Machinery('unknown Source action %r' % name)
    return None


def _compare(real, exp, obs):
    bad = real.oracle(exp['quiet'], exp['late'])
    if bad:
        return bad
    o = real.observe()
    for key in ('em', 'term'):
        if o[key] != exp[key]:
            return ('DRIFT', '%s is %s, the specification says %s' % (key, o[key], exp[key]))
    if not real.KIND.startswith('obs') and o['pulled'] != exp['pulled'] + exp['repulled']:
        return ('DRIFT', 'the application produced %d element(s), the specification says %d' % (o['pulled'], exp['pulled'] + exp['repulled']))
    return None


# cfg -> (N, CompleteWithLast, FailAt), real kinds bound to it
SHAPES = {
    'Source_gen.cfg': ((2, False, 0), ['gen', 'agen', 'gen_delay']),
    'Source_genflag.cfg': ((2, True, 0), ['gen', 'agen', 'agen_delay']),
    'Source_gen3.cfg': ((3, True, 0), ['gen', 'agen']),
    'Source_empty.cfg': ((0, False, 0), ['gen', 'agen']),
    'Source_genfail.cfg': ((3, False, 2), ['gen', 'agen']),
    'Source_obs.cfg': ((2, False, 0), ['obs_x', 'obs_rx']),
    'Source_obsfail.cfg': ((3, False, 2), ['obs_x', 'obs_rx']),
    'Source_factory.cfg': ((2, False, 0), ['factory_x', 'factory_rx']),
    'Source_factoryfail.cfg': ((3, False, 3), ['factory_x', 'factory_rx']),
    # the subscriber asks for one more from inside every on_next
    'Source_replenish.cfg': ((3, False, 0), ['gen', 'agen', 'gen_delay']),
    'Source_replenishfactory.cfg': ((3, False, 0), ['factory_x', 'factory_rx']),
    'Source_replenishobs.cfg': ((3, False, 0), ['obs_x', 'obs_rx']),
}
QUICK = {'C06': ['Source_gen.cfg', 'Source_genflag.cfg', 'Source_empty.cfg', 'Source_genfail.cfg', 'Source_obs.cfg', 'Source_factory.cfg',
                 'Source_replenish.cfg', 'Source_replenishfactory.cfg'],
         'C09': ['Source_gen.cfg', 'Source_factory.cfg'],
         'C20': ['Source_obs.cfg', 'Source_obsfail.cfg', 'Source_factory.cfg', 'Source_factoryfail.cfg', 'Source_replenishobs.cfg']}


def check(v, prop):
    from concurrent.futures import ThreadPoolExecutor
    thorough = common.tier() == 'thorough'
    cfgs = sorted(SHAPES) if thorough and prop == 'C06' else QUICK[prop]

    def one(c):
        return c, tlc.run('Source', c, workers=2, timeout=600, name='src_' + c.replace('.cfg', ''))

    with ThreadPoolExecutor(max_workers=4) as ex:
        results = list(ex.map(one, cfgs))
    for cfg, r in results:
        if r.timed_out or not r.finished:
            raise common.Machinery('TLC did not finish on Source/%s: %s' % (cfg, r.out[-1500:]))
        if r.violated:
            v.add_failure('%s.design_%s' % (prop, r.violated), {'cfg': cfg}, 'TLC: %s violated in the source model %s' % (r.violated, cfg))
        v.add('states', r.distinct)
        v.add('transitions', r.generated)
        v.coverage.setdefault('mc_configs', {})[cfg] = {'states': r.distinct, 'transitions': r.generated, 'depth': r.depth, 'wall_s': round(r.wall, 1)}
    desc = lambda s: 'credit=%d handed=%d pulled=%d term=%s quiet=%s' % (s['credit'], s['em'], s['pulled'], s['term'], s['quiet'])
    for cfg in cfgs:
        (n, cwl, fail), kinds = SHAPES[cfg]
        if not thorough:
            kinds = kinds[:1] if prop == 'C09' else kinds[:2]
        for kind in kinds:
            graphreplay.replay(v, 'Source', cfg, _mk(kind, n, cwl, fail, prop, 'replenish' in cfg), _apply, _compare, _state, prop=prop,
                               label='source_%s_%s' % (cfg.replace('Source_', '').replace('.cfg', ''), kind), describe=desc, nondet=True)
