"""Connection-level engine: scenario families -> real runs under the harness -> recorded traces ->
batched TLC trace validation against RSocket.tla -> clause failures attributed to properties."""
import json
import os
import subprocess
import sys
import time
from concurrent.futures import ThreadPoolExecutor

from .. import common, trace


def run_workers(jobs, parallel=14, timeout=900):
    """jobs: list of (family, seed, first, count, knobs) -> list of result dicts (one per scenario)"""
    work = common.workdir()
    env = dict(os.environ)
    env['PYTHONPATH'] = common.ROOT + os.pathsep + common.REPO
    env['PYTHONHASHSEED'] = '0'
    env['PYTHONDONTWRITEBYTECODE'] = '1'

    def one(k):
        family, seed, first, count, knobs = jobs[k]
        out = os.path.join(work, 'w_%s_%d_%d.json' % (family, first, k))
        cmd = [common.PY, '-m', 'vf.harness.run', family, str(seed), str(first), str(count), out, json.dumps(knobs)]
        try:
            p = subprocess.run(cmd, env=env, cwd=common.ROOT, stdout=subprocess.PIPE, stderr=subprocess.STDOUT,
                               timeout=timeout, text=True)
        except subprocess.TimeoutExpired:
            raise common.Machinery('harness worker timed out: %s' % (cmd,))
        if p.returncode != 0 or not os.path.exists(out):
            raise common.Machinery('harness worker failed (rc=%s): %s\n%s' % (p.returncode, cmd, p.stdout[-3000:]))
        with open(out) as f:
            res = json.load(f)
        os.unlink(out)
        for r in res:
            r['knobs'] = knobs
            r['seed'] = seed
        return res

    out = []
    with ThreadPoolExecutor(max_workers=parallel) as ex:
        for res in ex.map(one, range(len(jobs))):
            out.extend(res)
    return out


def split_jobs(family, seed, total, knobs, per=25, first=0):
    jobs = []
    i = first
    while i < first + total:
        c = min(per, first + total - i)
        jobs.append((family, seed, i, c, knobs))
        i += c
    return jobs


def _filtered(events):
    return [e for e in events if e['ev'] != 'bytes_in']


def _ctx(scn, idx):
    """facts about the failing event, used by known-finding signatures (known_findings.json)"""
    ev = _filtered(scn['events'])
    e = ev[idx - 1] if 0 < idx <= len(ev) else {}
    kinds = {}
    sid_kind = {}
    iid_role_src = {}
    for x in ev[:idx]:
        if x['ev'] == 'app_request':
            kinds[x['iid']] = x['kind']
        if x['ev'] in ('enq', 'rx') and x['ft'].startswith('REQUEST_') and x['ft'] != 'REQUEST_N':
            sid_kind[(x['ep'], x['sid'])] = {'response': 'rr'}.get(x['ft'][8:].lower(), x['ft'][8:].lower())
        if x['ev'] == 'app_producer':
            iid_role_src[(x['iid'], x['role'])] = x['kind']
    kind = kinds.get(e.get('iid')) or sid_kind.get((e.get('ep'), e.get('sid'))) or ''
    sig = {'ev': e.get('ev', ''), 'ft': e.get('ft', ''), 'kind': kind, 'role': e.get('role', ''), 'family': scn['family'],
           'mode': scn['opts'].get('mode', ''), 'late_actions': bool(scn['opts'].get('late_actions'))}
    if e.get('ev') == 'tx':
        frag = scn['opts'].get('frag_' + str(e.get('ep')), scn['opts'].get('frag')) or 0
        sig['over'] = (e.get('wl', 0) - frag) if frag else 0
        sig['M'] = e.get('M', 0)
    if e.get('ev') == 'enq':
        # what closed the stream for this endpoint before this frame was queued
        closed_by = ''
        for x in ev[:idx - 1]:
            if x['ev'] == 'enq' and x['ep'] == e['ep'] and x['sid'] == e['sid']:
                if x['ft'] == 'CANCEL':
                    closed_by = 'own_cancel'
                elif x['ft'] == 'ERROR':
                    closed_by = 'own_error'
        sig['closed_by'] = closed_by or 'both_complete'
        # was the application action that produced this frame taken from inside an on_next callback (x=1) or by the driver itself?
        acts = [x for x in ev[:idx - 1] if x['ep'] == e['ep'] and x['ev'].startswith('app_')]
        sig['in_callback'] = bool(acts and acts[-1].get('x') == 1)
    if e.get('ev') == 'quiesce':
        sig['open_kinds'] = sorted(set(sid_kind.get((e['ep'], s), '?') for s in e.get('streams', [])))
        # how each still-registered stream came to be considered terminated: a CANCEL or ERROR was seen on it, or it just completed
        reasons = set()
        retained = set()
        both_ended = True       # of every retained stream that did terminate: have BOTH of its directions ended (by frames seen at this endpoint)?
        for s in e.get('streams', []):
            mine = [x for x in ev[:idx] if x['ep'] == e['ep'] and x['sid'] == s and x['ev'] in ('enq', 'rx')]
            seen = set(x['ft'] for x in mine)
            kind = sid_kind.get((e['ep'], s), '?')
            own_c = any(x['ev'] == 'enq' and x['C'] for x in mine) or kind in ('rr', 'stream', 'fnf') and any(
                x['ev'] == 'enq' and x['ft'].startswith('REQUEST_') and x['ft'] != 'REQUEST_N' for x in mine)
            peer_c = any(x['ev'] == 'rx' and x['C'] and not x['F'] for x in mine) or kind in ('rr', 'stream', 'fnf') and any(
                x['ev'] == 'rx' and x['ft'].startswith('REQUEST_') and x['ft'] != 'REQUEST_N' for x in mine)
            if 'CANCEL' in seen:
                reasons.add('cancel')
                retained.add(kind)
            elif 'ERROR' in seen:
                reasons.add('error')
                retained.add(kind)
            elif own_c and peer_c:
                reasons.add('complete')
                retained.add(kind)
            if 'CANCEL' in seen or 'ERROR' in seen:
                # a direction ends with its sender's COMPLETE / ERROR or with its receiver's CANCEL
                own_dir = own_c or any(x['ev'] == 'rx' and x['ft'] == 'CANCEL' for x in mine) or any(x['ev'] == 'enq' and x['ft'] == 'ERROR' for x in mine)
                peer_dir = peer_c or any(x['ev'] == 'enq' and x['ft'] == 'CANCEL' for x in mine) or any(x['ev'] == 'rx' and x['ft'] == 'ERROR' for x in mine)
                if not (own_dir and peer_dir):
                    both_ended = False
        sig['open_reasons'] = sorted(reasons)
        sig['retained_kinds'] = sorted(retained)     # kinds of the still-registered streams that did terminate
        sig['all_directions_ended'] = bool(retained) and both_ended
        # did the library itself cancel the local producer of a still-registered stream although no CANCEL arrived on it?
        # (then that direction can never complete: different from a stream retained while the application is still sending)
        stuck = False
        for s in e.get('streams', []):
            mine = [x for x in ev[:idx] if x['ep'] == e['ep'] and x.get('sid') == s and x['ev'] in ('enq', 'rx')]
            req = [x for x in mine if x['ft'].startswith('REQUEST_') and x['ft'] != 'REQUEST_N']
            if not req:
                continue
            iid = req[0].get('pid') if req[0]['ev'] == 'enq' else (req[0].get('dpid') or req[0].get('mpid'))
            role = 'req' if req[0]['ev'] == 'enq' else 'resp'
            cancelled = any(x['ev'] == 'cb_pub_cancel' and x.get('iid') == iid and x.get('role') == role
                            and x['ep'] == e['ep'] for x in ev[:idx])
            if cancelled and not any(x['ev'] == 'rx' and x['ft'] == 'CANCEL' for x in mine):
                stuck = True
        sig['prod_cancelled_without_cancel'] = stuck
    if e.get('ev') in ('cb_next', 'cb_complete', 'cb_error', 'cb_future'):
        prior = [('cb_next_complete' if x['ev'] == 'cb_next' else x['ev']) for x in ev[:idx - 1]
                 if x.get('iid') == e.get('iid') and x.get('role') == e.get('role')
                 and (x['ev'] in ('app_cancel', 'cb_complete', 'cb_error', 'app_fut_cancel') or (x['ev'] == 'cb_next' and x.get('C')))]
        sig['prior'] = prior[-1] if prior else ''
    return e, sig


def check(v, prop, families, extra_clause_props=(), also=()):
    """families: list of dicts {family, knobs, quick, thorough, tidbase}.  Failures of clauses named <prop>.* (or
    listed in extra_clause_props) are violations of `prop`; others are recorded as observations only."""
    thorough = common.tier() == 'thorough'
    seed = common.seed()
    jobs = []
    if any(fam['family'] == 'tlc' for fam in families):
        # spec -> code: behaviours of the design model, generated by `tlc -simulate`, become driver schedules
        from . import tlcsched
        path, nb = tlcsched.generate(40 if not thorough else 400)
        v.add('tlc_generated_behaviours', nb)
        families = [dict(fam, knobs=dict(fam.get('knobs', {}), file=path)) if fam['family'] == 'tlc' else fam for fam in families]
    if any(fam['family'] == 'tlccover' for fam in families):
        # ... and a path cover of the smaller design-model graphs: every transition of the model is driven through the real code
        from . import tlcsched
        path, nb, stats = tlcsched.cover(thorough, max_paths=None if thorough else 1500)
        v.add('tlc_cover_behaviours', nb)
        v.coverage['tlc_cover'] = {c: dict(cov, covering_paths=p) for c, (e, p, cov) in stats.items()}
        families = [dict(fam, family='tlc', quick=nb, thorough=nb, knobs=dict(fam.get('knobs', {}), file=path, sequential=True,
                                                                               base=fam.get('first', 0)))
                    if fam['family'] == 'tlccover' else fam for fam in families]
    if any(fam['family'] == 'tlccover2' for fam in families):
        # ... and of the TWO-interaction design model (RSocketMC2): frames of two streams interleaved in every modelled way
        from . import tlcsched
        path, nb, stats = tlcsched.cover2(thorough, max_paths=6000 if thorough else 1000)
        v.add('tlc_cover2_behaviours', nb)
        v.coverage['tlc_cover2'] = {c: dict(cov, covering_paths=p) for c, (e, p, cov) in stats.items()}
        families = [dict(fam, family='tlc2', quick=nb, thorough=nb, knobs=dict(fam.get('knobs', {}), file=path, sequential=True,
                                                                                base=fam.get('first', 0)))
                    if fam['family'] == 'tlccover2' else fam for fam in families]
    for fam in families:
        n = fam['thorough'] if thorough else fam['quick']
        jobs += split_jobs(fam['family'], seed, n, fam.get('knobs', {}), per=fam.get('per', 25), first=fam.get('first', 0))
    t0 = time.time()
    scns = run_workers(jobs)
    t1 = time.time()
    # unique tids across families
    for k, s in enumerate(scns):
        s['scn'] = k + 1
    traces = [{'tid': s['scn'], 'events': s['events']} for s in scns]
    res, stats = trace.validate(traces)
    t2 = time.time()
    mine = (prop,) + tuple(extra_clause_props)
    # clauses of other properties that count as violations of `prop` in the scenarios of one family (family dict key 'also')
    fam_also = {(fam['family'], json.dumps(fam.get('knobs', {}), sort_keys=True)): tuple(fam.get('also', ())) for fam in families}
    others = {}
    nfail = 0
    sigs = set()
    nontrivial = set()
    for s in scns:
        fs = res.get(s['scn'], [])
        if s['status'] != 'ok':
            v.add_failure(prop + ('.terminates' if prop == 'C12' else '.run_completes'), {'status': s['status'], 'family': s['family']},
                          'scenario did not run to quiescence (%s)' % s['status'], _replay(s))
        for clause, idx in fs:
            p = clause.split('.')[0]
            if p in mine or clause in also or clause in fam_also.get((s['family'], json.dumps(s.get('knobs', {}), sort_keys=True)), ()):
                e, sig = _ctx(s, idx)
                nfail += 1
                v.add_failure(clause, sig, 'family=%s scenario=%d event#%d %s' % (s['family'], s['tid'], idx, _brief(e)),
                              _replay(s, clause, idx))
            else:
                others[clause] = others.get(clause, 0) + 1
        sigs.add(json.dumps(s['prog'], sort_keys=True))
        if any(e['ev'] in ('cb_request', 'cb_setup', 'cb_keepalive_timeout', 'cb_close') for e in s['events']):
            nontrivial.add(json.dumps(s['prog'], sort_keys=True))
    nev = sum(len(_filtered(s['events'])) for s in scns)
    v.add('traces_validated_against_impl', len(scns))
    v.add('trace_events_validated', nev)
    v.add('trace_states', stats['states'])
    v.add('distinct_schedules', len(sigs))
    v.add('evaluations', len(scns))
    v.add('distinct_nontrivial', len(nontrivial))
    v.add('states', stats['states'])
    v.add('transitions', stats['transitions'])
    v.coverage['rule'] = ('scenario programs generated from VERIF_SEED per family (vf/harness/gen.py), executed on the real endpoints; '
                          'distinct = distinct program text; non-trivial = at least one request/setup/close reached an application callback. '
                          'states/transitions = TLC states over design-level configs plus trace-validation runs')
    v.add('steps_executed', sum(s['done'] for s in scns))
    # what the scenarios actually exercised (a vacuity record: a pattern the generators aim at but that never happens shows as 0)
    ex = v.coverage.setdefault('exercised', {})

    def bump(k, n=1):
        ex[k] = ex.get(k, 0) + n

    for sc in scns:
        seen_req = set()
        closed = set()
        cancelled = set()
        last = None
        for e in sc['events']:
            k = e['ev']
            if k in ('inject', 'cut', 'app_reconnect', 'app_close', 'app_cancel', 'app_fut_cancel', 'cb_keepalive_timeout', 'app_lease'):
                bump(k)
            if k == 'app_request_n' and e.get('x') == 1:
                bump('request_n_from_inside_a_callback')
            if k == 'app_cancel' and last is not None and last['ev'] in ('cb_subscribe', 'cb_next') and last.get('iid') == e.get('iid'):
                bump('cancel_from_inside_a_callback')
            if k == 'enq' and e['ft'].startswith('REQUEST_') and e['ft'] != 'REQUEST_N':
                if (e['ep'], e['sid']) in seen_req:
                    bump('stream_id_used_again')
                seen_req.add((e['ep'], e['sid']))
            if k == 'tx' and e.get('F'):
                bump('fragments_written')
            if k == 'cb_close':
                closed.add(e['ep'])
            if k == 'rx' and e['ep'] in closed:
                bump('frames_read_after_close')
            if k == 'rx' and last is not None and last['ev'] == 'rx' and last['ep'] == e['ep'] and e['ft'] == 'CANCEL' and last.get('sid') == e.get('sid') \
                    and last['ft'].startswith('REQUEST_'):
                bump('cancel_in_the_same_read_as_its_request')
            if k == 'cut' and last is not None and last['ev'] in ('rx', 'cb_request', 'cb_next', 'cb_complete', 'cb_error', 'cb_future') and last['ep'] == e['ep']:
                bump('loss_right_after_a_frame_was_handled')
            if k != 'bytes_in':
                last = e
    v.add('steps_skipped_inapplicable', sum(s['skipped'] for s in scns))
    v.coverage.setdefault('other_properties_observed', {})
    for c, n in others.items():
        v.coverage['other_properties_observed'][c] = v.coverage['other_properties_observed'].get(c, 0) + n
    v.coverage.setdefault('families', {})
    for fam in families:
        v.coverage['families'][fam['family'] + json.dumps(fam.get('knobs', {}), sort_keys=True)[:80]] = \
            fam['thorough'] if thorough else fam['quick']
    v.coverage['harness_wall_s'] = round(v.coverage.get('harness_wall_s', 0) + t1 - t0, 1)
    v.coverage['tlc_trace_wall_s'] = round(v.coverage.get('tlc_trace_wall_s', 0) + t2 - t1, 1)
    if scns:
        s = scns[len(scns) // 2]
        v.sample({'family': s['family'], 'opts': s['opts'], 'program': s['prog'][:14],
                  'trace_excerpt': [_brief(e) for e in _filtered(s['events'])[7:19]]})
    return scns, res


def _brief(e):
    return ' '.join('%s=%s' % (k, e[k]) for k in ('ep', 'ev', 'sid', 'ft', 'kind', 'iid', 'pid', 'n', 'F', 'C', 'N', 'ml', 'dl',
                                                  'code', 'x', 'role', 'wl') if k in e and e[k] not in (0, '', -1))


def _replay(s, clause=None, idx=None):
    return {'kind': 'conn', 'family': s['family'], 'seed': s.get('seed'), 'tid': s['tid'], 'opts': s['opts'], 'prog': s['prog'],
            'clause': clause, 'event_index': idx}
