"""C03 fragmentation and reassembly.

(A) TLC checks Fragmenter.tla: every legal plan (any conforming sender) of every frame within the constants reassembles
    to the original, nothing is delivered early, a legal plan always exists.
(B) spec -> code: every terminal state of that model (= one legal plan) is turned into real frames, passed through the real
    codec and fed to the real FrameFragmentCache; the result must equal the original frame.
(C) code -> spec at the real scale: for every (type, metadata length, data length, fragment size, framing) in the window the
    real fragmenter is run through the real TransportTCP / serialize path, each fragment is decoded from its wire bytes by the
    independent decoder and the observed plan is validated by TLC against the C03 clauses of RSocket.tla (OnTx), then fed to
    the real FrameFragmentCache (C03.reassembles_exactly).
"""
import os
import random
import subprocess
import json
import sys

from .. import common, tlc, trace

TYPES = ['PAYLOAD', 'REQUEST_RESPONSE', 'REQUEST_FNF', 'REQUEST_STREAM', 'REQUEST_CHANNEL']


def _worker_main():
    """runs under /venv python: argv = out, json list of configs [ft, ml, dl, size, prefixed, complete]"""
    out = sys.argv[2]
    cfgs = json.load(open(sys.argv[3]))
    import logging
    logging.disable(logging.CRITICAL)
    from rsocket import frame as fr
    from rsocket.frame_fragment_cache import FrameFragmentCache
    from rsocket.transports.tcp import TransportTCP
    from vf.harness import wire
    from vf.harness.world import Payloads, Recorder

    class W:
        def __init__(self):
            self.buf = bytearray()

        def write(self, b):
            self.buf += bytes(b)

        async def drain(self):
            return

    class FakeLoop:
        def time(self):
            return 0

    classes = {'PAYLOAD': fr.PayloadFrame, 'REQUEST_RESPONSE': fr.RequestResponseFrame, 'REQUEST_FNF': fr.RequestFireAndForgetFrame,
               'REQUEST_STREAM': fr.RequestStreamFrame, 'REQUEST_CHANNEL': fr.RequestChannelFrame}
    traces = []
    for tid, (ft, ml, dl, size, prefixed, complete) in enumerate(cfgs):
        P = Payloads()
        rec = Recorder(FakeLoop())
        pid, payload = P.make(dl, ml)
        f = classes[ft]()
        f.stream_id = 5
        f.data = payload.data
        f.metadata = payload.metadata
        f.fragment_size_bytes = size
        if ft in ('REQUEST_STREAM', 'REQUEST_CHANNEL'):
            f.initial_request_n = 7
        if ft in ('PAYLOAD', 'REQUEST_CHANNEL'):
            f.flags_complete = bool(complete)
        if ft == 'PAYLOAD':
            f.flags_next = True
        rec.log('-', 'meta', n=1, kind='tcp' if prefixed else 'msg', x=size or 0)
        rec.log('c', 'enq', sid=5, ft=ft, pid=pid if (ml or dl) else 0, n=7 if ft in ('REQUEST_STREAM', 'REQUEST_CHANNEL') else 0,
                C=int(bool(complete)) if ft in ('PAYLOAD', 'REQUEST_CHANNEL') else 0, N=int(ft == 'PAYLOAD'), M=int(ml > 0), ml=ml, dl=dl,
                x=size or 0)
        cache = FrameFragmentCache()
        early = 0
        result = None
        nfrag = 0
        cm = cd = 0
        status = 'ok'
        try:
            while True:
                frag = f.get_next_fragment(prefixed)
                if frag is None:
                    break
                nfrag += 1
                if prefixed:
                    w = W()
                    t = TransportTCP(None, w)
                    c = t.send_frame(frag)
                    try:
                        c.send(None)
                    except StopIteration:
                        pass
                    wb = bytes(w.buf)
                    ln = int.from_bytes(wb[:3], 'big')
                    body = wb[3:]
                    if ln != len(body):
                        body = body[:ln]
                    wl = len(wb)
                else:
                    body = frag.serialize()
                    wl = len(body)
                d = wire.decode(body)
                mres = P.resolve_chunk(1, d['md'], (pid, cm))
                dres = P.resolve_chunk(0, d['d'], (pid, cd))
                cm += len(d['md'])
                cd += len(d['d'])
                rec.log('c', 'tx', sid=d['sid'], ft=d['ft'], n=d['n'], F=d['F'], C=d['C'], N=d['N'], M=d['M'], ml=len(d['md']),
                        dl=len(d['d']), mpid=mres[0], moff=mres[1], dpid=dres[0], doff=dres[1], wl=wl)
                parsed = fr.parse_or_ignore(body)
                r = cache.append(parsed)
                if r is not None:
                    if d['F']:
                        early += 1
                    result = r
                if not d['F']:
                    break
                if nfrag > 100000:
                    status = 'runaway'
                    break
        except Exception as ex:
            status = 'raised %s: %s' % (type(ex).__name__, ex)
        ok = 0
        if result is not None and status == 'ok':
            same = (type(result) is classes[ft] and bytes(result.data or b'') == bytes(payload.data or b'')
                    and bytes(result.metadata or b'') == bytes(payload.metadata or b'')
                    and result.stream_id == 5)
            if ft in ('REQUEST_STREAM', 'REQUEST_CHANNEL'):
                same = same and result.initial_request_n == 7
            if ft in ('PAYLOAD', 'REQUEST_CHANNEL'):
                same = same and bool(result.flags_complete) == bool(complete)
            if ft == 'PAYLOAD' and (ml or dl):
                same = same and bool(result.flags_next)
            ok = int(same)
        leftovers = len(cache._frames_by_stream_id)
        rec.log('c', 'reasm', x=ok if leftovers == 0 else 0, n=int(early == 0), code=nfrag)
        traces.append({'tid': tid, 'events': rec.events, 'cfg': [ft, ml, dl, size, prefixed, complete], 'status': status, 'nfrag': nfrag})
    json.dump(traces, open(out, 'w'))


def _run_real(cfgs, parallel=14):
    work = common.workdir()
    env = dict(os.environ)
    env['PYTHONPATH'] = common.ROOT + os.pathsep + common.REPO
    chunks = [cfgs[i::parallel] for i in range(parallel)]
    procs = []
    for k, ch in enumerate(chunks):
        if not ch:
            continue
        inp = os.path.join(work, 'c03_in_%d.json' % k)
        out = os.path.join(work, 'c03_out_%d.json' % k)
        json.dump(ch, open(inp, 'w'))
        p = subprocess.Popen([common.PY, '-c', 'import sys; sys.argv=["x","worker",%r,%r]; from vf.props import c03; c03._worker_main()' % (out, inp)],
                             env=env, cwd=common.ROOT, stdout=subprocess.PIPE, stderr=subprocess.STDOUT, text=True)
        procs.append((p, out))
    res = []
    for p, out in procs:
        try:
            o, _ = p.communicate(timeout=1500)
        except subprocess.TimeoutExpired:
            p.kill()
            raise common.Machinery('C03 worker timed out')
        if p.returncode != 0:
            raise common.Machinery('C03 worker failed: ' + o[-3000:])
        res += json.load(open(out))
        os.unlink(out)
    for k, r in enumerate(res):
        r['tid'] = k + 1
    return res


def _configs(thorough, rnd):
    cfgs = []
    if thorough:
        rng_full = range(0, 131)
        full_types = TYPES
    else:
        rng_full = range(0, 66)
        full_types = ['PAYLOAD', 'REQUEST_CHANNEL']
    for ft in full_types:
        for pre in (True, False):
            for ml in rng_full:
                for dl in rng_full:
                    if not thorough and (ml + dl) % 2 == 1 and ml > 8 and dl > 8 and ml not in (45, 46, 47, 48, 49, 52, 55, 58) :
                        continue
                    cfgs.append([ft, ml, dl, 64, pre, (ml + dl) % 2])
    # boundary bands at other sizes, all five types
    for size in (65, 66, 67, 70, 100, 1000, 65536):
        budget = size - 6
        marks = sorted(set(x for k in (1, 2, 3) for x in range(max(0, k * budget - 14), k * budget + 6)) | {0, 1, 2})
        if size > 2000 and not thorough:
            marks = marks[::5]
        for ft in TYPES:
            for pre in (True, False):
                for ml in ([0, 1, 9] + marks[::3 if not thorough else 1]):
                    for dl in (marks[::2] if not thorough else marks):
                        if rnd.random() < (0.12 if not thorough else 0.5):
                            cfgs.append([ft, ml, dl, size, pre, rnd.randint(0, 1)])
    # no fragmentation configured: always a single frame
    for ft in TYPES:
        for (ml, dl) in ((0, 0), (0, 5), (5, 0), (100, 1000), (70000, 3)):
            cfgs.append([ft, ml, dl, None, True, 1])
    # large payloads
    for ft in TYPES:
        for (ml, dl, size) in ((0, 1 << 20, 65536), (70000, 200000, 1024), (1 << 18, 0, 64 if thorough else 4096), (300, 100000, 64)):
            cfgs.append([ft, ml, dl, size, bool(rnd.randint(0, 1)), 1])
    # payloads larger than a single frame can ever be (the 24-bit frame length): what fragmentation is for
    huge = [('PAYLOAD', 0, (17 << 20) + 3, 1 << 20, True), ('REQUEST_RESPONSE', 9 << 20, (9 << 20) + 1, 4000000, False)]
    if thorough:
        huge += [('REQUEST_FNF', 0, 17 << 20, 16000000, True), ('REQUEST_STREAM', 17 << 20, 5, 1 << 20, True), ('REQUEST_CHANNEL', 5, 17 << 20, 1 << 21, False)]
    for (ft, ml, dl, size, pre) in huge:
        cfgs.append([ft, ml, dl, size, pre, 1])
    return cfgs


def run(v):
    thorough = common.tier() == 'thorough'
    rnd = random.Random(common.seed())
    # (A)
    r = tlc.run('Fragmenter', 'Fragmenter.cfg', coverage=True, timeout=600, name='mcfrag')
    if not r.finished:
        raise common.Machinery('TLC did not finish on Fragmenter: ' + r.out[-1500:])
    if r.violated:
        v.add_failure('C03.spec_' + r.violated, {}, 'TLC: %s violated in Fragmenter.tla itself' % r.violated)
    v.add('states', r.distinct)
    v.add('transitions', r.generated)
    v.coverage['mc_Fragmenter'] = {'states': r.distinct, 'transitions': r.generated, 'wall_s': round(r.wall, 1)}
    # (B)
    work = common.workdir()
    dump = os.path.join(work, 'frag_graph')
    r2 = tlc.run('Fragmenter', 'Fragmenter.cfg', workers=1, dump=dump, timeout=600, name='dumpfrag')
    if not r2.ok:
        raise common.Machinery('TLC dump failed: ' + r2.out[-1500:])
    nodes, edges, inits = tlc.parse_dot(dump + '.dot')
    plans = []
    for nid, vs in nodes.items():
        if vs.get('phase') == '"done"':
            plans.append((tlc.parse_value(vs['frame']), tlc.parse_value(vs['out'])))
    inp = os.path.join(work, 'plans.json')
    json.dump(plans, open(inp, 'w'))
    env = dict(os.environ)
    env['PYTHONPATH'] = common.ROOT + os.pathsep + common.REPO
    p = subprocess.run([common.PY, '-c', 'from vf.props import c03; c03._plans_main(%r)' % inp], env=env, cwd=common.ROOT,
                       stdout=subprocess.PIPE, stderr=subprocess.STDOUT, text=True, timeout=900)
    if p.returncode != 0:
        raise common.Machinery('plan replayer failed: ' + p.stdout[-3000:])
    bad = json.loads(p.stdout.strip().splitlines()[-1])
    v.add('spec_plans_fed_to_real_cache', len(plans))
    for b in bad[:200]:
        v.add_failure('C03.reassembles_exactly', {'dir': 'spec_to_code', 'ft': b['frame']['ft']},
                      'legal plan %s of frame %s: FrameFragmentCache %s' % (b['plan'], b['frame'], b['why']),
                      {'kind': 'c03_plan', 'frame': b['frame'], 'plan': b['plan']})
    # (C)
    cfgs = _configs(thorough, rnd)
    res = _run_real(cfgs)
    verdicts, stats = trace.validate([{'tid': t['tid'], 'events': t['events']} for t in res], shard=2500, parallel=12, timeout=1500)
    nfr = 0
    for t in res:
        nfr += t['nfrag']
        if t['status'] != 'ok':
            v.add_failure('C03.fragmenter_terminates', {'status': t['status'].split(':')[0]}, 'config %s: %s' % (t['cfg'], t['status']),
                          {'kind': 'c03_cfg', 'cfg': t['cfg']})
        for clause, idx in verdicts.get(t['tid'], []):
            ev = [e for e in t['events']][idx - 1]
            ft, ml, dl, size, pre, comp = t['cfg']
            sig = {'ft': ft, 'prefixed': pre, 'M': ev.get('M', 0), 'over': (ev.get('wl', 0) - size) if size else 0,
                   'frag_index': idx - 2}
            if clause.startswith('C03') or clause.startswith('C02'):
                v.add_failure(clause if clause.startswith('C03') else 'C03.' + clause, sig,
                              'config type=%s md=%d d=%d size=%s prefixed=%s: fragment #%d wl=%s ml=%s dl=%s F=%s C=%s' % (
                                  ft, ml, dl, size, pre, idx - 2, ev.get('wl'), ev.get('ml'), ev.get('dl'), ev.get('F'), ev.get('C')),
                              {'kind': 'c03_cfg', 'cfg': t['cfg']})
            elif clause.startswith('C05'):
                v.add_failure('C03.fragments_in_order_' + clause[4:], sig, 'config %s' % (t['cfg'],), {'kind': 'c03_cfg', 'cfg': t['cfg']})
    v.add('states', stats['states'])
    v.add('transitions', stats['transitions'])
    v.add('traces_validated_against_impl', len(res))
    v.add('configurations', len(cfgs))
    v.add('fragments_observed', nfr)
    v.add('evaluations', len(cfgs) + len(plans))
    v.add('distinct_nontrivial', sum(1 for t in res if t['nfrag'] > 1))
    v.setc('rule', 'configurations (type, metadata length, data length, fragment size, framing, complete): exhaustive window at size 64 plus '
                   'boundary bands at 65..70/100/1000/65536 plus large payloads; non-trivial = split into more than one fragment. '
                   'plus every legal plan of the abstract model fed to the real reassembly cache')
    mid = res[len(res) // 3]
    v.sample({'cfg': mid['cfg'], 'fragments': [[e['ft'], e['wl'], e['ml'], e['dl'], e['F'], e['C']] for e in mid['events'] if e['ev'] == 'tx']})
    if plans:
        v.sample({'abstract_frame': plans[len(plans) // 2][0], 'legal_plan': [dict(g) for g in plans[len(plans) // 2][1]]})
    v.assumptions += ['payload bytes are generated, self-describing content; the fragmenter and cache never inspect them',
                      'abstract-scale plans are instantiated with 1 unit = 1 byte']


def _plans_main(path):
    import logging
    logging.disable(logging.CRITICAL)
    from rsocket import frame as fr
    from rsocket.frame_fragment_cache import FrameFragmentCache
    from vf.harness.world import Payloads
    classes = {'PAYLOAD': fr.PayloadFrame, 'REQUEST_RESPONSE': fr.RequestResponseFrame, 'REQUEST_FNF': fr.RequestFireAndForgetFrame,
               'REQUEST_STREAM': fr.RequestStreamFrame, 'REQUEST_CHANNEL': fr.RequestChannelFrame}
    plans = json.load(open(path))
    bad = []
    for frame, out in plans:
        P = Payloads()
        pid, payload = P.make(frame['dl'], frame['ml'])
        D = bytes(payload.data or b'')
        Mb = bytes(payload.metadata or b'')
        cache = FrameFragmentCache()
        result = None
        why = None
        try:
            for k, g in enumerate(out):
                f = classes[g['ft']]()
                f.stream_id = 9
                if g['ft'] in ('REQUEST_STREAM', 'REQUEST_CHANNEL'):
                    f.initial_request_n = g['n']
                f.flags_follows = bool(g['F'])
                f.flags_complete = bool(g['C'])
                if g['ft'] == 'PAYLOAD':
                    f.flags_next = bool(g['N'])
                f.metadata = Mb[g['moff']:g['moff'] + g['ml']]
                f.data = D[g['doff']:g['doff'] + g['dl']]
                parsed = fr.parse_or_ignore(f.serialize())
                r = cache.append(parsed)
                if r is not None and g['F']:
                    why = 'delivered a frame before the last fragment'
                if not g['F']:
                    result = r
        except Exception as ex:
            why = 'raised %s: %s' % (type(ex).__name__, ex)
        if why is None:
            if result is None:
                why = 'returned nothing at the last fragment'
            elif type(result) is not classes[frame['ft']]:
                why = 'returned a %s' % type(result).__name__
            elif bytes(result.data or b'') != D or bytes(result.metadata or b'') != Mb:
                why = 'content differs (data %d/%d bytes, metadata %d/%d bytes)' % (len(result.data or b''), len(D), len(result.metadata or b''), len(Mb))
            elif frame['ft'] in ('PAYLOAD', 'REQUEST_CHANNEL') and bool(result.flags_complete) != bool(frame['C']):
                why = 'complete flag is %s, original had %s' % (bool(result.flags_complete), bool(frame['C']))
            elif frame['ft'] in ('REQUEST_STREAM', 'REQUEST_CHANNEL') and result.initial_request_n != 7:
                why = 'initial request n is %s' % result.initial_request_n
            elif frame['ft'] == 'PAYLOAD' and (D or Mb) and not result.flags_next:
                why = 'next flag lost'
            elif cache._frames_by_stream_id:
                why = 'partial frame left in the cache'
        if why:
            bad.append({'frame': frame, 'plan': [[g['ft'], g['ml'], g['dl'], g['F'], g['C']] for g in out], 'why': why})
    # reassembly state belongs to ONE connection: two endpoints in one process (a server with two clients; a client and a server) that
    # each receive a fragmented frame on the SAME stream id, their fragments arriving alternately, both reassemble their own frame
    multi = [(frame, out) for frame, out in plans if len(out) >= 2]
    for k in range(0, min(len(multi) - 1, 600), 2):
        (fa, oa), (fb, ob) = multi[k], multi[k + 1]
        P = Payloads()
        conts = []
        for frame in (fa, fb):
            pid, payload = P.make(frame['dl'], frame['ml'])
            conts.append((bytes(payload.data or b''), bytes(payload.metadata or b'')))
        caches = [FrameFragmentCache(), FrameFragmentCache()]
        results = [None, None]
        why = None
        try:
            for i in range(max(len(oa), len(ob))):
                for c, out in enumerate((oa, ob)):
                    if i >= len(out):
                        continue
                    g = out[i]
                    D, Mb = conts[c]
                    f = classes[g['ft']]()
                    f.stream_id = 9
                    if g['ft'] in ('REQUEST_STREAM', 'REQUEST_CHANNEL'):
                        f.initial_request_n = g['n']
                    f.flags_follows = bool(g['F'])
                    f.flags_complete = bool(g['C'])
                    if g['ft'] == 'PAYLOAD':
                        f.flags_next = bool(g['N'])
                    f.metadata = Mb[g['moff']:g['moff'] + g['ml']]
                    f.data = D[g['doff']:g['doff'] + g['dl']]
                    r = caches[c].append(fr.parse_or_ignore(f.serialize()))
                    if not g['F']:
                        results[c] = r
        except Exception as ex:
            why = 'raised %s: %s' % (type(ex).__name__, ex)
        if why is None:
            for c, frame in enumerate((fa, fb)):
                D, Mb = conts[c]
                r = results[c]
                if r is None or type(r) is not classes[frame['ft']] or bytes(r.data or b'') != D or bytes(r.metadata or b'') != Mb:
                    why = 'connection %s did not reassemble its own frame (got %s)' % ('AB'[c], 'nothing' if r is None else '%s with %d/%d data and %d/%d metadata bytes' % (
                        type(r).__name__, len(r.data or b''), len(D), len(r.metadata or b''), len(Mb)))
                    break
        if why:
            bad.append({'frame': fa, 'plan': [[g['ft'], g['ml'], g['dl'], g['F'], g['C']] for g in oa],
                        'why': 'two connections reassembling on the same stream id at the same time: ' + why})
    print(json.dumps(bad))
