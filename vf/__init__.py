"""Verification framework for rsocket-py: TLA+ specs (../spec) bound to /repo by conformance checks."""
