"""pytest plugin: records, for every RSocket endpoint the REPOSITORY'S OWN TEST SUITE creates, the frames it queues (enq) and
the frames it is handed (rx) - over whatever transport the test uses (kernel TCP sockets, aiohttp, quart, websockets, QUIC, HTTP/3) -
in the event format of the connection monitor (spec/RSocket.tla).  Nothing in /repo is changed: the plugin is loaded with
`-p vf.suiteplugin` (PYTHONPATH=/verif) and wraps three methods of RSocketBase at class level for the duration of the run.

A trace unit is one CONNECTION of one endpoint: (endpoint object, generation), where the generation is bumped whenever the endpoint
rebuilds its internals (RSocketClient.connect / reconnect).  Units are validated one by one, each as a single observed endpoint facing
an unobserved peer (vf/props/suitetraces.py): no pairing of clients and servers is guessed.

Output: $VERIF_SUITE_TRACES/<n>.json, one file per test: {"test": nodeid, "units": [{"ep": "c"|"s", "cls": ..., "events": [...]}]}
"""
import json
import os
import time

import pytest

_OUT = os.environ.get('VERIF_SUITE_TRACES')
_state = {'test': None, 'units': {}, 'order': [], 'n': 0, 't0': 0.0}
_FIELDS = dict(ep='-', ev='', sid=-1, ft='', kind='', iid=0, pid=0, n=0, F=0, C=0, N=0, M=0, ml=0, dl=0,
               mpid=0, moff=0, dpid=0, doff=0, code=0, x=0, role='', wl=0)
_MAX_EVENTS = 600          # per unit (performance tests send thousands of frames: the head of the conversation is validated)


class _Unit:
    def __init__(self, ep, cls):
        self.ep, self.cls = ep, cls
        self.events = []
        self.content_ids = {}
        self.truncated = False

    def log(self, ev, **kw):
        if len(self.events) >= _MAX_EVENTS:
            self.truncated = True
            return
        e = dict(_FIELDS)
        e['ep'], e['ev'] = self.ep, ev
        e['t'] = int((time.monotonic() - _state['t0']) * 1000)
        for k, v in kw.items():
            e[k] = int(v) if isinstance(v, bool) else v
        e['i'] = len(self.events) + 1
        self.events.append(e)

    def cid(self, d, md):
        """a content-stable id (equal content, equal id); 0 for the empty payload"""
        d, md = bytes(d or b''), bytes(md or b'')
        if not d and not md:
            return 0
        return self.content_ids.setdefault((d, md), len(self.content_ids) + 1)


def _unit(sock):
    gen = getattr(sock, '_vf_gen', 0)
    key = (id(sock), gen)
    u = _state['units'].get(key)
    if u is None:
        from rsocket.rsocket_client import RSocketClient
        ep = 'c' if isinstance(sock, RSocketClient) else 's'
        u = _Unit(ep, type(sock).__name__)
        _state['units'][key] = u
        _state['order'].append((key, sock))         # (keeps the endpoint alive: id() stays unique within the test)
        frag = getattr(sock, '_fragment_size_bytes', None) or 0
        # flags: hostile application code is possible (4); the peer is not observed (no link bit); no grants / lease / adapter knowledge
        u.log('meta', ep='-', n=4, kind='suite', x=frag, ml=0, dl=0, role='')
        u.events[-1]['ep'] = '-'
    return u


def _flags(frame):
    ft = getattr(getattr(frame, 'frame_type', None), 'name', None)
    return ft


def _enq(sock, frame, prio):
    ft = _flags(frame)
    if ft is None:
        return
    u = _unit(sock)
    md, d = frame.metadata or b'', frame.data or b''
    n = 0
    if ft in ('REQUEST_STREAM', 'REQUEST_CHANNEL'):
        n = getattr(frame, 'initial_request_n', 0)
    elif ft == 'REQUEST_N':
        n = frame.request_n
    elif ft == 'LEASE':
        n = frame.number_of_requests
    code = 0
    if ft == 'ERROR':
        try:
            c = int(frame.error_code)
            code = c if c < 2 ** 31 else -1
        except Exception:
            code = -3
    x = prio
    if ft in ('REQUEST_RESPONSE', 'REQUEST_FNF', 'REQUEST_STREAM', 'REQUEST_CHANNEL', 'PAYLOAD'):
        x = getattr(frame, 'fragment_size_bytes', None) or 0
    if ft == 'LEASE':
        ttl = frame.time_to_live
        x = ttl if ttl is not None and ttl < 2 ** 31 else -1
    nflag = bool(getattr(frame, 'flags_next', False)) or (ft == 'PAYLOAD' and (len(md) > 0 or len(d) > 0))
    fflag = bool(getattr(frame, 'flags_follows', False))
    if ft == 'KEEPALIVE':
        fflag = bool(getattr(frame, 'flags_respond', False))
    pid = u.cid(d, b'') if ft == 'KEEPALIVE' else (0 if ft in ('LEASE', 'ERROR') else u.cid(d, md))
    u.log('enq', sid=frame.stream_id, ft=ft, pid=pid, n=min(n, 2 ** 31 - 1) if isinstance(n, int) else -1, F=fflag,
          C=bool(getattr(frame, 'flags_complete', False)), N=nflag, M=len(md) > 0, ml=len(md), dl=len(d), code=code, x=x)


def _rx(sock, frame):
    u = _unit(sock)
    ftype = getattr(frame, 'frame_type', None)
    if ftype is None:
        u.log('rx', ft='INVALID')
        return
    ft = ftype.name
    md, d = bytes(frame.metadata or b''), bytes(frame.data or b'')
    kw = dict(sid=frame.stream_id, ft=ft, F=bool(getattr(frame, 'flags_follows', False)), C=bool(getattr(frame, 'flags_complete', False)),
              N=bool(getattr(frame, 'flags_next', False)), M=bool(frame.flags_metadata), ml=len(md), dl=len(d), n=0, code=0, x=0, role='',
              mpid=-1 if md else 0, dpid=-1 if d else 0)
    if ft in ('REQUEST_STREAM', 'REQUEST_CHANNEL'):
        kw['n'] = frame.initial_request_n
    elif ft == 'REQUEST_N':
        kw['n'] = frame.request_n
    elif ft == 'LEASE':
        kw['n'] = frame.number_of_requests
        ttl = frame.time_to_live
        kw['x'] = ttl if ttl is not None and ttl < 2 ** 31 else -1
    elif ft == 'ERROR':
        try:
            c = int(frame.error_code)
            kw['code'] = c if c < 2 ** 31 else -1
        except Exception:
            kw['code'] = -3
    elif ft == 'KEEPALIVE':
        kw['F'] = bool(frame.flags_respond)
        kw['x'] = len(d)
        kw['dpid'] = u.cid(d, b'')
    elif ft == 'SETUP':
        kw['F'] = bool(frame.flags_resume)
        kw['C'] = bool(frame.flags_lease)
        ka, life = frame.keep_alive_milliseconds, frame.max_lifetime_milliseconds
        kw['x'] = ka if ka < 2 ** 31 else -1
        kw['n'] = life if life < 2 ** 31 else -1
        kw['code'] = (frame.major_version << 16) | frame.minor_version
        kw['role'] = '%s|%s' % (bytes(frame.metadata_encoding).decode('latin1'), bytes(frame.data_encoding).decode('latin1'))
    kw['n'] = kw['n'] if isinstance(kw['n'], int) and kw['n'] < 2 ** 31 else -1
    u.log('rx', **kw)


def _install():
    from rsocket.rsocket_base import RSocketBase
    if getattr(RSocketBase, '_vf_suite_patched', False):
        return
    RSocketBase._vf_suite_patched = True
    orig_send, orig_prio = RSocketBase.send_frame, RSocketBase.send_priority_frame
    orig_handle, orig_reset = RSocketBase._handle_next_frame, RSocketBase._reset_internals

    def send_frame(self, frame):
        r = orig_send(self, frame)
        try:
            q = getattr(getattr(self, '_send_queue', None), '_queue', None)
            if q is None or (len(q) and q[-1] is frame):        # (a frame kept back behind a queued request is logged when it is queued)
                _enq(self, frame, 0)
        except Exception:
            pass
        return r

    def send_priority_frame(self, frame):
        r = orig_prio(self, frame)
        try:
            _enq(self, frame, 1)
        except Exception:
            pass
        return r

    async def _handle_next_frame(self, frame, handlers):
        try:
            _rx(self, frame)
        except Exception:
            pass
        return await orig_handle(self, frame, handlers)

    def _reset_internals(self):
        self._vf_gen = getattr(self, '_vf_gen', 0) + 1          # a new connection of this endpoint: a new trace unit
        return orig_reset(self)

    RSocketBase.send_frame = send_frame
    RSocketBase.send_priority_frame = send_priority_frame
    RSocketBase._handle_next_frame = _handle_next_frame
    RSocketBase._reset_internals = _reset_internals


def pytest_configure(config):
    if _OUT:
        os.makedirs(_OUT, exist_ok=True)
        _install()


@pytest.hookimpl(tryfirst=True)
def pytest_runtest_setup(item):
    _state.update(test=item.nodeid, units={}, order=[], t0=time.monotonic())


@pytest.hookimpl(hookwrapper=True)
def pytest_runtest_teardown(item, nextitem):
    yield               # (fixtures are torn down first: endpoints close, their last frames are part of the trace)
    if not _OUT or not _state['units']:
        return
    _state['n'] += 1
    units = [{'ep': u.ep, 'cls': u.cls, 'truncated': u.truncated, 'events': u.events}
             for (key, _), u in ((k, _state['units'][k[0]]) for k in _state['order']) if len(u.events) > 1]
    with open(os.path.join(_OUT, '%05d.json' % _state['n']), 'w') as f:
        json.dump({'test': item.nodeid, 'units': units}, f)
    _state.update(units={}, order=[])
