"""Thin wrapper around TLC: exhaustive runs, simulation, state-graph dumps, trace batches.

Every invocation is wrapped in a wall-clock timeout, gets its own metadir under the
per-run work directory, and returns the parsed statistics TLC itself printed
(states generated / distinct, diameter, per-action coverage when requested).
"""
import os
import re
import subprocess
import time

from . import common

JAR = '/opt/veriftools/tla/tla2tools.jar:/opt/veriftools/tla/CommunityModules-deps.jar'
SPEC_DIR = os.path.join(common.ROOT, 'spec')


class TLCError(Exception):
    pass


class TLCResult:
    def __init__(self, out, rc, wall):
        self.out = out
        self.rc = rc
        self.wall = wall
        m = re.search(r'(\d+) states generated, (\d+) distinct states found, (\d+) states left on queue', out)
        self.generated = int(m.group(1)) if m else 0
        self.distinct = int(m.group(2)) if m else 0
        self.left = int(m.group(3)) if m else 0
        m = re.search(r'The depth of the complete state graph search is (\d+)', out)
        self.depth = int(m.group(1)) if m else 0
        self.violated = None
        m = re.search(r'Error: Invariant (\S+) is violated', out)
        if m:
            self.violated = m.group(1)
        m2 = re.search(r'Error: Action property (\S+) is violated', out)
        if m2:
            self.violated = m2.group(1)
        if 'Error: Deadlock reached' in out:
            self.violated = 'Deadlock'
        if re.search(r'Error: Temporal properties were violated', out):
            self.violated = 'Temporal'
        m3 = re.search(r'Error: Temporal property (\S+) was violated', out)
        if m3:
            self.violated = m3.group(1)
        self.finished = 'Model checking completed' in out or 'Finished in' in out
        self.ok = (rc == 0) and self.violated is None and 'Error:' not in out

    def coverage(self):
        """Per-action coverage lines '<Action line ..>: distinct:total' -> {name: (distinct,total)}"""
        cov = {}
        for m in re.finditer(r'^<(\w+) line (\d+), col \d+ to line \d+, col \d+ of module (\w+)(?: \([\d ]+\))?>: (\d+):(\d+)', self.out, re.M):
            name = m.group(1)
            d, t = int(m.group(4)), int(m.group(5))
            a = cov.get(name, (0, 0))
            cov[name] = (a[0] + d, a[1] + t)
        return cov

    def printed(self):
        """Values printed with PrintT / Print, one per line (TLC prints them bare)."""
        return [l for l in self.out.splitlines()]


def run(module, cfg=None, workers=None, timeout=600, extra=(), env=None, deadlock=False, coverage=False,
        simulate=None, depth=None, seed=None, dump=None, cwd=None, name=None):
    """Run TLC on spec/<module>.tla with spec/<cfg>. Returns TLCResult; raises TLCError on machinery failure."""
    work = common.workdir()
    meta = os.path.join(work, 'meta_%s_%d' % (name or module, int(time.time() * 1000) % 10 ** 9))
    os.makedirs(meta, exist_ok=True)
    # (the heap is capped: several TLC processes run side by side, and by default each may grow to a quarter of the machine's memory)
    cmd = ['java', '-XX:+UseParallelGC', '-Xss16m', '-Xmx%s' % (os.environ.get('VERIF_TLC_XMX') or ('3g' if (env or {}).get('TRACE_FILE') else ('16g' if coverage else '6g'))), '-cp', JAR]
    cmd += ['tlc2.TLC', '-metadir', meta, '-noGenerateSpecTE']
    if workers is None:
        workers = min(16, os.cpu_count() or 4)
    cmd += ['-workers', str(workers)]
    if not deadlock:
        cmd += ['-deadlock']
    if coverage:
        cmd += ['-coverage', '1']
    if simulate is not None:
        cmd += ['-simulate', simulate]
    if depth is not None:
        cmd += ['-depth', str(depth)]
    if seed is not None:
        cmd += ['-seed', str(seed)]
    if dump is not None:
        cmd += ['-dump', 'dot,actionlabels', dump]
    cmd += list(extra)
    cfgpath = cfg if cfg and os.path.isabs(cfg) else os.path.join(cwd or SPEC_DIR, cfg or module + '.cfg')
    cmd += ['-config', cfgpath, module]
    e = dict(os.environ)
    if env:
        e.update(env)
    t0 = time.time()
    try:
        p = subprocess.run(cmd, cwd=cwd or SPEC_DIR, env=e, stdout=subprocess.PIPE, stderr=subprocess.STDOUT,
                           timeout=timeout, text=True, errors='replace')
    except subprocess.TimeoutExpired as ex:
        subprocess.run(['pkill', '-f', meta], check=False)
        out = ex.stdout if isinstance(ex.stdout, str) else (ex.stdout or b'').decode(errors='replace')
        r = TLCResult(out, 124, time.time() - t0)
        r.timed_out = True
        return r
    r = TLCResult(p.stdout, p.returncode, time.time() - t0)
    r.timed_out = False
    # rc 12 = safety violation, 13 = liveness, 11 deadlock; others => machinery failure
    if p.returncode not in (0, 10, 11, 12, 13) and r.violated is None:
        raise TLCError('TLC failed rc=%d on %s/%s:\n%s' % (p.returncode, module, cfg, p.stdout[-4000:]))
    return r


def sany(module, cwd=None):
    p = subprocess.run(['java', '-cp', JAR, 'tla2sany.SANY', module + '.tla'], cwd=cwd or SPEC_DIR,
                       stdout=subprocess.PIPE, stderr=subprocess.STDOUT, text=True, timeout=120)
    ok = p.returncode == 0 and 'Semantic errors' not in p.stdout and 'Parse Error' not in p.stdout \
        and '*** Errors' not in p.stdout and 'Fatal errors' not in p.stdout
    return ok, p.stdout


# ---------------------------------------------------------------------------------------
# dot state-graph parsing (tlc -dump dot,actionlabels)

_node_re = re.compile(r'^(-?\d+) \[label="(.*?)"(?:,style = filled|,tooltip=".*")?\];?$')
_edge_re = re.compile(r'^(-?\d+) -> (-?\d+) \[label="(.*?)",color=')


def parse_dot(path):
    """Returns (nodes: id -> {var: tla-value-text}, edges: [(src, dst, action-label)], init ids)."""
    nodes, edges, inits = {}, [], []
    with open(path) as f:
        for line in f:
            line = line.rstrip('\n')
            m = _edge_re.match(line)
            if m:
                edges.append((m.group(1), m.group(2), m.group(3).replace('\\"', '"')))
                continue
            m = _node_re.match(line)
            if m:
                lab = m.group(2).replace('\\n', '\n').replace('\\\\', '\\').replace('\\"', '"')
                vars_ = {}
                for part in re.split(r'\n(?=/\\ )', lab):
                    part = part.strip()
                    if part.startswith('/\\ '):
                        part = part[3:]
                    if ' = ' in part:
                        k, v = part.split(' = ', 1)
                        vars_[k.strip()] = v.strip()
                nodes[m.group(1)] = vars_
                if 'style = filled' in line:
                    inits.append(m.group(1))
    return nodes, edges, inits


# ---------------------------------------------------------------------------------------
# TLA+ value text -> python

def parse_value(s):
    """Parse a TLC-printed value: ints, strings, TRUE/FALSE, sets {..}, tuples <<..>>, records [a |-> ..],
    functions (a :> b @@ c :> d). Sets -> frozenset when hashable else list; tuples -> tuple; records -> dict."""
    v, i = _pv(s, 0)
    return v


def _ws(s, i):
    while i < len(s) and s[i] in ' \n\t\r':
        i += 1
    return i


def _pv(s, i):
    i = _ws(s, i)
    c = s[i]
    if c == '"':
        j = i + 1
        buf = []
        while s[j] != '"':
            if s[j] == '\\':
                j += 1
            buf.append(s[j])
            j += 1
        return ''.join(buf), j + 1
    if c == '{':
        items = []
        i = _ws(s, i + 1)
        if s[i] == '}':
            return frozenset(), i + 1
        while True:
            v, i = _pv(s, i)
            items.append(v)
            i = _ws(s, i)
            if s[i] == ',':
                i += 1
                continue
            if s[i] == '}':
                break
            raise ValueError('bad set at %d: %r' % (i, s[i:i + 30]))
        try:
            return frozenset(_freeze(x) for x in items), i + 1
        except TypeError:
            return items, i + 1
    if s.startswith('<<', i):
        items = []
        i = _ws(s, i + 2)
        if s.startswith('>>', i):
            return (), i + 2
        while True:
            v, i = _pv(s, i)
            items.append(v)
            i = _ws(s, i)
            if s[i] == ',':
                i += 1
                continue
            if s.startswith('>>', i):
                break
            raise ValueError('bad tuple at %d: %r' % (i, s[i:i + 30]))
        return tuple(items), i + 2
    if c == '[':
        d = {}
        i = _ws(s, i + 1)
        while True:
            m = re.compile(r'\w+').match(s, i)
            k = m.group(0)
            i = _ws(s, m.end())
            assert s.startswith('|->', i), s[i:i + 20]
            v, i = _pv(s, i + 3)
            d[k] = v
            i = _ws(s, i)
            if s[i] == ',':
                i = _ws(s, i + 1)
                continue
            if s[i] == ']':
                break
            raise ValueError('bad record at %d: %r' % (i, s[i:i + 30]))
        return d, i + 1
    if c == '(':
        d = {}
        i = _ws(s, i + 1)
        while True:
            k, i = _pv(s, i)
            i = _ws(s, i)
            assert s.startswith(':>', i), s[i:i + 20]
            v, i = _pv(s, i + 2)
            d[_freeze(k)] = v
            i = _ws(s, i)
            if s.startswith('@@', i):
                i = _ws(s, i + 2)
                continue
            if s[i] == ')':
                break
            raise ValueError('bad function at %d: %r' % (i, s[i:i + 30]))
        return d, i + 1
    m = re.compile(r'-?\d+').match(s, i)
    if m:
        return int(m.group(0)), m.end()
    m = re.compile(r'\w+').match(s, i)
    if m:
        w = m.group(0)
        if w == 'TRUE':
            return True, m.end()
        if w == 'FALSE':
            return False, m.end()
        return w, m.end()
    raise ValueError('cannot parse at %d: %r' % (i, s[i:i + 40]))


def _freeze(x):
    if isinstance(x, dict):
        return tuple(sorted((k, _freeze(v)) for k, v in x.items()))
    if isinstance(x, list):
        return tuple(_freeze(v) for v in x)
    if isinstance(x, tuple):
        return tuple(_freeze(v) for v in x)
    return x


def parse_action_label(lab):
    """'Register(2)' -> ('Register', [2]);  'Allocate' -> ('Allocate', [])"""
    m = re.match(r'^(\w+)(?:\((.*)\))?$', lab.strip())
    if not m:
        return lab, []
    name, args = m.group(1), m.group(2)
    if args is None or args.strip() == '':
        return name, []
    vals = parse_value('<<' + args + '>>')
    return name, list(vals)


# ---------------------------------------------------------------------------------------
# -simulate file=... behaviour files

def parse_sim_file(path):
    """A file written by `tlc -simulate file=PREFIX`: returns list of (action_label or None, {var: value-text})."""
    steps = []
    with open(path) as f:
        txt = f.read()
    # blocks: optional "\* <Action(args) line ...>" then "STATE_n == \n /\ v = ...\n"
    for m in re.finditer(r'(?:\\\* <(.*?) line \d+, col \d+ to line \d+, col \d+ of module \w+>\n)?STATE_(\d+) ==\n(.*?)(?=\n\n|\Z)', txt, re.S):
        lab = m.group(1)
        body = m.group(3)
        vars_ = {}
        for part in re.split(r'\n(?=/\\ )', body.strip()):
            part = part.strip()
            if part.startswith('/\\ '):
                part = part[3:]
            if ' = ' in part:
                k, v = part.split(' = ', 1)
                vars_[k.strip()] = v.strip()
        steps.append((lab, vars_))
    return steps
