#!/bin/sh
# usage: tools_sweep.sh <tier> <seed>...   runs every claimed check with each seed; prints one line per run (for false-alarm hunting)
tier=$1; shift
[ -n "$VP_RUN_REPO" ] && export VERIF_REPO=$VP_RUN_REPO
export VERIF_NO_EVIDENCE=1
for s in "$@"; do
  for p in C01 C02 C03 C04 C05 C06 C07 C08 C09 C10 C11 C12 C13 C14 C15 C16 C17 C18 C19 C20; do
    out=$(VERIF_SEED=$s ./check $p --tier $tier 2>&1); rc=$?
    echo "seed=$s $p rc=$rc $(echo "$out" | grep -E 'failing clause|MACHINERY' | head -3 | cut -c1-260 | tr '\n' '|')"
  done
done
