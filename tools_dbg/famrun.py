import sys, json
from vf import common, trace
from vf.props import conn
fam, n = sys.argv[1], int(sys.argv[2])
knobs = json.loads(sys.argv[3]) if len(sys.argv) > 3 else {}
jobs = conn.split_jobs(fam, 0, n, knobs, per=50, first=0)
scns = conn.run_workers(jobs)
res, _ = trace.validate([{'tid': s['tid'], 'events': s['events']} for s in scns])
cnt = {}
for tid, fails in res.items():
    for c in set(c for c, i in fails):
        cnt[c] = cnt.get(c, 0) + 1
print(len(scns), cnt)
