import sys, json
from vf import common, trace
from vf.props import conn
fam, n, clause = sys.argv[1], int(sys.argv[2]), sys.argv[3]
knobs = json.loads(sys.argv[4]) if len(sys.argv) > 4 else {}
jobs = conn.split_jobs(fam, 0, n, knobs, per=50, first=0)
scns = conn.run_workers(jobs)
res, _ = trace.validate([{'tid': s['tid'], 'events': s['events']} for s in scns])
by = {s['tid']: s for s in scns}
shown = 0
for tid, fails in sorted(res.items()):
    hit = [(c, i) for c, i in fails if c == clause]
    if not hit: continue
    s = by[tid]
    print('=== scenario', tid, s['opts']); print(json.dumps(s['prog']))
    ev = [e for e in s['events'] if e['ev'] != 'bytes_in']
    c, i = hit[0]
    e0 = ev[i-1]
    keys = {k: e0.get(k) for k in ('sid','iid') if e0.get(k)}
    print('failing event', i, {a:b for a,b in e0.items() if b not in (0,'',-1,[])})
    for k, e in enumerate(ev[:i+3]):
        if e['ev'] in ('tick','tock'): continue
        if (keys.get('sid') and e.get('sid') == keys['sid']) or (keys.get('iid') and e.get('iid') == keys['iid']) or e['ev'] in ('quiesce',) or (not keys):
            print('  %s%3d %s' % ('>>' if k == i-1 else '  ', k+1, {a:b for a,b in e.items() if b not in (0,'',-1,[]) and a!='i'}))
    shown += 1
    if shown >= 2: break
