#!/bin/sh
# Runs the repository's pinned baseline (serial, as in /root/.vp/BASELINE.json) in a private network namespace and
# reports which of the 501 stable-pass tests did not pass.  usage: tools_baseline.sh [outdir]
out=${1:-/tmp/vf_baseline}
mkdir -p "$out"
cd /repo || exit 2
unshare -rn sh -c "ip link set lo up 2>/dev/null; /venv/bin/python -m pytest -ra -q -p no:cacheprovider --timeout=900 --continue-on-collection-errors --junitxml=$out/junit.xml > $out/log.txt 2>&1"
/venv/bin/python - "$out/junit.xml" <<'PY'
import json, sys, xml.etree.ElementTree as ET
base = json.load(open('/root/.vp/BASELINE.json'))
stable = set(base['stable_pass'])
root = ET.parse(sys.argv[1]).getroot()
status = {}
for tc in root.iter('testcase'):
    name = tc.get('classname') + '::' + tc.get('name')
    bad = any(ch.tag in ('failure', 'error', 'skipped') for ch in tc)
    status[name] = 'fail' if bad else 'pass'
missing = sorted(t for t in stable if status.get(t) != 'pass')
print('stable tests passing: %d / %d' % (len(stable) - len(missing), len(stable)))
for t in missing:
    print('NOT PASSING:', t, status.get(t))
PY
