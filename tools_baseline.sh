#!/bin/bash
# Runs the repository's pinned baseline (serial, as in /root/.vp/BASELINE.json) in a private network namespace and
# reports which of the 501 stable-pass tests did not pass.  The suite has load-dependent flakes (servers started after sleep(0),
# timing assertions): tests that did not pass are run once more on their own.  usage: tools_baseline.sh [outdir]
out=${1:-/tmp/vf_baseline}
mkdir -p "$out"
cd /repo || exit 2
unshare -rn sh -c "ip link set lo up 2>/dev/null; /venv/bin/python -m pytest -ra -q -p no:cacheprovider --timeout=900 --continue-on-collection-errors --junitxml=$out/junit.xml > $out/log.txt 2>&1"
report() { /venv/bin/python - "$@" <<'PY'
import json, sys, xml.etree.ElementTree as ET
base = json.load(open('/root/.vp/BASELINE.json'))
stable = set(base['stable_pass'])
status = {}
for f in sys.argv[1:]:
    try:
        root = ET.parse(f).getroot()
    except Exception:
        continue
    for tc in root.iter('testcase'):
        name = tc.get('classname') + '::' + tc.get('name')
        bad = any(ch.tag in ('failure', 'error', 'skipped') for ch in tc)
        if not bad or name not in status:
            status[name] = 'fail' if bad else 'pass'
missing = sorted(t for t in stable if status.get(t) != 'pass')
print('stable tests passing: %d / %d' % (len(stable) - len(missing), len(stable)))
for t in missing:
    print('NOT PASSING:', t, status.get(t))
open(sys.argv[1] + '.retry', 'w').write('\n'.join(t.replace('.', '/', t.split('::')[0].count('.')).replace('::', '.py::', 1) for t in missing))
PY
}
report $out/junit.xml
if [ -s $out/junit.xml.retry ]; then
  unshare -rn sh -c "ip link set lo up 2>/dev/null; /venv/bin/python -m pytest -q -p no:cacheprovider --timeout=900 --junitxml=$out/junit_retry.xml $(tr '\n' ' ' < $out/junit.xml.retry) > $out/log_retry.txt 2>&1"
  echo "after re-running those on their own:"
  report $out/junit.xml $out/junit_retry.xml
fi
