#!/bin/sh
# usage: tools_seed_test.sh <seed-id> <property> [tier]   applies seeded/<id>/patch.diff to a scratch copy of /repo (VERIF_REPO),
# runs the check against it and removes the copy.  /repo itself is never touched.
id=$1; prop=$2; tier=${3:-quick}
scratch=$(mktemp -d /tmp/seedrepo.XXXXXX)
trap 'rm -rf "$scratch"' EXIT
mkdir -p "$scratch/repo"
git -C /repo archive HEAD | tar -x -C "$scratch/repo"
( cd "$scratch/repo" && git init -q . && git apply /verif/seeded/$id/patch.diff ) || { echo "patch does not apply"; exit 2; }
cd /verif && VERIF_REPO="$scratch/repo" VERIF_NO_EVIDENCE=1 ./check $prop --tier $tier > /verif/.work/seed_${id}_$prop.out 2>&1
rc=$?
echo "seed $id property $prop tier $tier: rc=$rc"
grep -E "failing clause|^VIOLATION|MACHINERY" /verif/.work/seed_${id}_$prop.out | cut -c1-300 | head -5
exit 0
