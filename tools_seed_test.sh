#!/bin/sh
# usage: tools_seed_test.sh <seed-id> <property> [tier]   applies seeded/<id>/patch.diff to /repo, runs the check, undoes it
id=$1; prop=$2; tier=${3:-quick}
cd /repo || exit 2
git diff --quiet || { echo "/repo has uncommitted changes"; exit 2; }
git apply /verif/seeded/$id/patch.diff || { echo "patch does not apply"; exit 2; }
cd /verif && VERIF_NO_EVIDENCE=1 ./check $prop --tier $tier > /verif/.work/seed_$id_$prop.out 2>&1
rc=$?
git -C /repo checkout -- .
echo "seed $id property $prop tier $tier: rc=$rc"
grep -E "failing clause|^VIOLATION|MACHINERY" /verif/.work/seed_$id_$prop.out | cut -c1-300 | head -5
exit 0
