SPECIFICATION Spec
CONSTANTS Streams = {0, 1, 3}
          MaxFrames = 4
          FragCounts = {1, 3}
          CycleMode = "own_stream_last"
          WithSetup = TRUE
INVARIANT TypeOK
INVARIANT PerStreamOrder
INVARIANT ReassembledExact
INVARIANT DeliveredInOrderOnce
INVARIANT SetupFirst
INVARIANT InterleaveOnlyOtherStreams
INVARIANT CacheSingleFrame
INVARIANT WrittenOnce
PROPERTY EventuallyDrained
PROPERTY AllDelivered
