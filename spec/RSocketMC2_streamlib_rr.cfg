SPECIFICATION Spec2
CONSTANTS KindA = "stream"
          InitA = "c"
          KindB = "rr"
          InitB = "c"
          MaxElems = 1
          Credits = {1}
          MaxGrants = 1
          HasPub = FALSE
          Frag = 0
          LibSource = TRUE
INVARIANT NoClauseFails
INVARIANT DeliveredIsPrefixOfHanded
INVARIANT FutureOnce
INVARIANT NothingRetained
