SPECIFICATION Spec
CONSTANTS MaxReq = 5
          Grants <- GrantsWide
          MaxLeases = 3
          MaxClock = 5
          MaxReconnects = 0
          OvertakesHeld = FALSE
          AppActsOnHeld = FALSE
          QSize = 0
INVARIANT TypeOK
INVARIANT NoRequestBeforeFirstLease
INVARIANT CountWithinGrant
INVARIANT NoneAfterTtl
INVARIANT FifoOnce
INVARIANT Accounted
INVARIANT RetainedUpToQueueSize
INVARIANT NothingWaitsUnderUsableLease
