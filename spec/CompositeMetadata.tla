------------------------- MODULE CompositeMetadata -------------------------
(***************************************************************************)
(* Layout of the composite-metadata extension and its well-known entries   *)
(* (C18), written from the RSocket extension specifications.  Same item    *)
(* convention as Frames.tla: item >= 0 is a byte, item < 0 is an opaque    *)
(* blob -(len * 8 + tag) (tag 1 content, 2 tag text, 3 custom MIME name,   *)
(* 4 user name, 5 password, 6 token).                                      *)
(*                                                                         *)
(* An entry is  <MIME header> <24-bit length> <body>.  MIME header: one    *)
(* byte 0x80|id for a well-known type, or (len-1) followed by a custom     *)
(* name of 1..128 bytes.  Bodies:                                          *)
(*   routing      : tags, each  <len:1> <text>  (len <= 255)               *)
(*   authentication: <auth header: 0x80|id> then simple = <userlen:2> user *)
(*                   password, bearer = token                              *)
(*   mime-type    : one MIME header;  accept-mime-types: MIME headers      *)
(*   anything else: opaque content                                         *)
(* TLC enumerates entry lists and prints (value, encoding); c18.py replays *)
(* them on the real classes (encode, decode, re-encode, rejections).       *)
(***************************************************************************)
EXTENDS Naturals, Integers, Sequences, FiniteSets, TLC, Json

VARIABLE v
Blob(len, tag) == 0 - (len * 8 + tag)
U16(n) == <<n \div 256, n % 256>>
U24(n) == <<n \div 65536, (n \div 256) % 256, n % 256>>

(* well-known MIME ids that exist (0x00..0x28 and 0x7A..0x7F) and the two authentication ids *)
WellKnownIds == 0..40 \cup 122..127
RoutingId == 126
AuthId == 124
MimeTypeId == 122
AcceptId == 123
AuthSimple == 0
AuthBearer == 1

(* a MIME reference: [wk |-> id] or [name |-> len] *)
MimeRefs == {[k |-> "wk", x |-> 5], [k |-> "wk", x |-> 0], [k |-> "wk", x |-> 40], [k |-> "wk", x |-> 127],
             [k |-> "name", x |-> 1], [k |-> "name", x |-> 2], [k |-> "name", x |-> 127], [k |-> "name", x |-> 128]}
MimeHeader(r) == IF r.k = "wk" THEN <<128 + r.x>> ELSE <<r.x - 1, Blob(r.x, 3)>>
MimeHeaderLen(r) == IF r.k = "wk" THEN 1 ELSE 1 + r.x

RECURSIVE Flat(_), SumLens(_)
Flat(ss) == IF ss = <<>> THEN <<>> ELSE Head(ss) \o Flat(Tail(ss))
SumLens(ls) == IF ls = <<>> THEN 0 ELSE Head(ls) + SumLens(Tail(ls))

TagLens == {0, 1, 255}
TagLists == {<<>>} \cup {<<a>> : a \in TagLens} \cup {<<a, b>> : a \in TagLens, b \in {1, 255}} \cup {<<1, 0, 255>>}
TagsBody(ts) == Flat([i \in 1..Len(ts) |-> <<ts[i]>> \o (IF ts[i] > 0 THEN <<Blob(ts[i], 2)>> ELSE <<>>)])
TagsLen(ts) == Len(ts) + SumLens(ts)

Entries ==
    {[kind |-> "generic", mime |-> m, cl |-> c, tags |-> <<>>, a |-> 0, b |-> 0, refs |-> <<>>] :
        m \in MimeRefs \ {[k |-> "wk", x |-> 127]}, c \in {0, 1, 300}}
    \cup {[kind |-> "routing", mime |-> [k |-> "wk", x |-> RoutingId], cl |-> 0, tags |-> t, a |-> 0, b |-> 0, refs |-> <<>>] : t \in TagLists}
    \cup {[kind |-> "auth_simple", mime |-> [k |-> "wk", x |-> AuthId], cl |-> 0, tags |-> <<>>, a |-> u, b |-> p, refs |-> <<>>] :
            u \in {0, 1, 300}, p \in {0, 1, 300}}
    \cup {[kind |-> "auth_bearer", mime |-> [k |-> "wk", x |-> AuthId], cl |-> 0, tags |-> <<>>, a |-> t, b |-> 0, refs |-> <<>>] : t \in {0, 1, 5000}}
    \cup {[kind |-> "mime_type", mime |-> [k |-> "wk", x |-> MimeTypeId], cl |-> 0, tags |-> <<>>, a |-> 0, b |-> 0, refs |-> <<r>>] : r \in MimeRefs}
    \cup {[kind |-> "accept", mime |-> [k |-> "wk", x |-> AcceptId], cl |-> 0, tags |-> <<>>, a |-> 0, b |-> 0, refs |-> rs] :
            rs \in {<<>>} \cup {<<r>> : r \in MimeRefs} \cup {<<[k |-> "wk", x |-> 5], [k |-> "name", x |-> 2]>>,
                                                           <<[k |-> "name", x |-> 128], [k |-> "wk", x |-> 33], [k |-> "wk", x |-> 0]>>}}

Body(e) ==
    CASE e.kind = "generic" -> IF e.cl > 0 THEN <<Blob(e.cl, 1)>> ELSE <<>>
      [] e.kind = "routing" -> TagsBody(e.tags)
      [] e.kind = "auth_simple" -> <<128 + AuthSimple>> \o U16(e.a) \o (IF e.a > 0 THEN <<Blob(e.a, 4)>> ELSE <<>>)
                                   \o (IF e.b > 0 THEN <<Blob(e.b, 5)>> ELSE <<>>)
      [] e.kind = "auth_bearer" -> <<128 + AuthBearer>> \o (IF e.a > 0 THEN <<Blob(e.a, 6)>> ELSE <<>>)
      [] e.kind \in {"mime_type", "accept"} -> Flat([i \in 1..Len(e.refs) |-> MimeHeader(e.refs[i])])

BodyLen(e) ==
    CASE e.kind = "generic" -> e.cl
      [] e.kind = "routing" -> TagsLen(e.tags)
      [] e.kind = "auth_simple" -> 3 + e.a + e.b
      [] e.kind = "auth_bearer" -> 1 + e.a
      [] e.kind \in {"mime_type", "accept"} -> SumLens([i \in 1..Len(e.refs) |-> MimeHeaderLen(e.refs[i])])

EncodeEntry(e) == MimeHeader(e.mime) \o U24(BodyLen(e)) \o Body(e)
Encode(es) == Flat([i \in 1..Len(es) |-> EncodeEntry(es[i])])

(* the lists explored: every single entry, every pair from a representative subset, a few triples *)
Rep == {e \in Entries : \/ (e.kind = "generic" /\ e.cl = 1 /\ e.mime \in {[k |-> "wk", x |-> 5], [k |-> "name", x |-> 2]})
                        \/ (e.kind = "routing" /\ e.tags \in {<<1>>, <<>>})
                        \/ (e.kind = "auth_simple" /\ e.a = 1 /\ e.b = 1)
                        \/ (e.kind = "auth_bearer" /\ e.a = 1)
                        \/ (e.kind = "mime_type" /\ e.refs = <<[k |-> "wk", x |-> 5]>>)
                        \/ (e.kind = "accept" /\ Len(e.refs) = 2)}
Lists == {<<>>} \cup {<<e>> : e \in Entries} \cup {<<a, b>> : a \in Rep, b \in Rep}
         \cup {<<a, b, c>> : a \in {e \in Rep : e.kind = "routing"}, b \in {e \in Rep : e.kind \in {"auth_simple", "generic"}}, c \in Rep}

Init == v \in Lists
Next == UNCHANGED v
Spec == Init /\ [][Next]_<<v>>

RECURSIVE ByteLen(_)
ByteLen(items) == IF items = <<>> THEN 0 ELSE (IF Head(items) < 0 THEN (0 - Head(items)) \div 8 ELSE 1) + ByteLen(Tail(items))

(* every entry's 24-bit length equals the byte length of its body; the whole is the concatenation of its entries *)
LengthsConsistent ==
    /\ \A i \in 1..Len(v) : ByteLen(Body(v[i])) = BodyLen(v[i]) /\ BodyLen(v[i]) < 16777216
    /\ ByteLen(Encode(v)) = SumLens([i \in 1..Len(v) |-> MimeHeaderLen(v[i].mime) + 3 + BodyLen(v[i])])

(* format limits: custom names 1..128 bytes, tags up to 255 bytes *)
WithinLimits == \A i \in 1..Len(v) : /\ (v[i].mime.k = "name" => v[i].mime.x \in 1..128)
                                     /\ \A j \in 1..Len(v[i].tags) : v[i].tags[j] <= 255

Emit == PrintT(ToJson([v |-> v, items |-> Encode(v)]))
=============================================================================
