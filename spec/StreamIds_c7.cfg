SPECIFICATION Spec
CONSTANTS MaxId = 7
          First = 1
          TheirIds = {2, 4, 6}
INVARIANT TypeOK
PROPERTY AllocIsNextFree
PROPERTY AllocNonZeroParity
PROPERTY AllocNotActive
PROPERTY AllocFailsOnlyWhenFull
PROPERTY IncomingDuplicateRejected
