SPECIFICATION Spec
CONSTANTS MaxReq = 3
          Grants <- GrantsSmall
          MaxLeases = 2
          MaxClock = 4
          MaxReconnects = 1
          AppActsOnHeld = FALSE
          QSize = 0
INVARIANT TypeOK
INVARIANT NoRequestBeforeFirstLease
INVARIANT CountWithinGrant
INVARIANT NoneAfterTtl
INVARIANT FifoOnce
INVARIANT Accounted
INVARIANT RetainedUpToQueueSize
INVARIANT NothingWaitsUnderUsableLease
