SPECIFICATION Spec
CONSTANTS Streams = {1, 3, 5}
          MaxFrames = 4
          FragCounts = {1, 3}
          CycleMode = "own_stream_last"
          WithSetup = FALSE
INVARIANT TypeOK
INVARIANT PerStreamOrder
INVARIANT ReassembledExact
INVARIANT DeliveredInOrderOnce
INVARIANT InterleaveOnlyOtherStreams
INVARIANT CacheSingleFrame
INVARIANT WrittenOnce
PROPERTY EventuallyDrained
PROPERTY AllDelivered
