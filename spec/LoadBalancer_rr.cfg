SPECIFICATION Spec
CONSTANTS N = 3
          MaxCalls = 4
          Kinds = {"rr", "fnf", "stream", "channel", "push"}
          Strategy = "round_robin"
INVARIANT RoundRobinOrder
INVARIANT Balanced
INVARIANT ConnectInOrder
INVARIANT CloseReachesEveryMember
