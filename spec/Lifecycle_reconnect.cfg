SPECIFICATION Spec
CONSTANTS MaxReconnects = 2
          MaxCuts = 1
          MaxProbes = 1
          MaxPends = 1
          MaxRaces = 1
          MaxTicks = 1
          MaxFnfs = 0
          MaxBlocks = 0
          Firsts = {"reconnect"}
          Js = {0, 1, 2, 3, 4, 5, 6, 7, 8, 9, 10, 11, 12, 14}
INVARIANT TypeOK
INVARIANT CloseOncePerConnection
INVARIANT OldTransportsClosed
INVARIANT WaitsOnlyOnDeadConnection
INVARIANT Accounted
INVARIANT NothingPendingOnDeadConnection
INVARIANT ClosedStaysClosed
INVARIANT FnfAccounted
INVARIANT NothingUnsentOnDeadConnection
INVARIANT FnfWaitsOnlyOnDeadConnection
INVARIANT AllClosedAfterClose
