SPECIFICATION Spec
CONSTANTS MaxId = 15
          First = 1
          TheirIds = {2}
INVARIANT TypeOK
PROPERTY AllocIsNextFree
PROPERTY AllocNonZeroParity
PROPERTY AllocNotActive
PROPERTY AllocFailsOnlyWhenFull
PROPERTY IncomingDuplicateRejected
