SPECIFICATION Spec
INVARIANT Gate
INVARIANT Exact
INVARIANT Independent
INVARIANT Emit
