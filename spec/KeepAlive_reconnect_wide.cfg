SPECIFICATION Spec
CONSTANTS P = 2
          L = 3
          MaxClock = 12
          MaxPeerKa = 2
          MaxReconnects = 1
          MaxBlocks = 1
INVARIANT TypeOK
INVARIANT NoFalseTimeout
INVARIANT TimeoutDetected
INVARIANT Periodic
INVARIANT EchoExactlyOnce
INVARIANT NoEchoWithoutFlag
INVARIANT AtMostOneFrameAfterDead
INVARIANT DeadClientClosesAtNextInput
INVARIANT CloseAtMostOnce
