----------------------------- MODULE Fragmenter -----------------------------
(***************************************************************************)
(* Relational specification of fragmentation (C03): the set of LEGAL plans *)
(* for a fragmentable frame under a size limit, generated fragment by      *)
(* fragment, and the receiver's reassembly.  Abstract scale: lengths are   *)
(* small naturals, one unit = one byte of metadata/data; the fixed costs   *)
(* are Hdr (frame header; one more for the initial request-n of            *)
(* REQUEST_STREAM / REQUEST_CHANNEL first fragments), MdLen (the 24-bit    *)
(* metadata length field, paid by every fragment that carries metadata)    *)
(* and Pfx (the length prefix of byte-stream transports).                  *)
(*                                                                         *)
(* TLC explores every legal plan of every frame within the constants and   *)
(* checks that the receiver's reassembly returns exactly the original.     *)
(* Every terminal state (= one legal plan, by ANY conforming sender, not   *)
(* only rsocket-py's) is then fed to the real FrameFragmentCache.          *)
(***************************************************************************)
EXTENDS Naturals, Sequences, FiniteSets, TLC

CONSTANTS Types,     \* subset of {"PAYLOAD","REQUEST_RESPONSE","REQUEST_FNF","REQUEST_STREAM","REQUEST_CHANNEL"}
          MaxMd, MaxD,
          Limits,    \* set of size limits
          Prefixes   \* subset of {0, 1}: cost of the length prefix

VARIABLES frame,     \* [ft, ml, dl, C, limit, pfx]
          sm, sd,    \* metadata / data units already sent
          out,       \* fragments emitted so far
          acc,       \* receiver: accumulated partial frame (or the delivered frame once complete)
          phase      \* "send" | "done"

vars == <<frame, sm, sd, out, acc, phase>>

HasN(ft) == ft \in {"REQUEST_STREAM", "REQUEST_CHANNEL"}
HasC(ft) == ft \in {"PAYLOAD", "REQUEST_CHANNEL"}
Hdr(ft)  == IF HasN(ft) THEN 2 ELSE 1
MdLen    == 1

Cost(ft, ml, dl, pfx) == pfx + Hdr(ft) + (IF ml > 0 THEN MdLen + ml ELSE 0) + dl

NoAcc == [open |-> FALSE, ft |-> "", n |-> 0, ml |-> 0, dl |-> 0, C |-> 0, N |-> 0, delivered |-> FALSE, ok |-> TRUE]

Init == /\ frame \in [ft : Types, ml : 0..MaxMd, dl : 0..MaxD, C : {0, 1}, limit : Limits, pfx : Prefixes]
        /\ (frame.C = 1 => HasC(frame.ft))
        /\ sm = 0 /\ sd = 0 /\ out = <<>> /\ acc = NoAcc /\ phase = "send"

(* the receiver (FrameFragmentCache semantics): type and n from the first fragment, content appended in order,
   complete (and next) taken from the last fragment *)
Receive(a, g) ==
    LET first == ~a.open
        a1 == IF first THEN [NoAcc EXCEPT !.open = TRUE, !.ft = g.ft, !.n = g.n] ELSE a
        ok2 == a1.ok /\ (~first => g.ft = "PAYLOAD")
                     /\ (g.ml > 0 => g.moff = a1.ml /\ a1.dl = 0)
                     /\ (g.dl > 0 => g.doff = a1.dl)
        a2 == [a1 EXCEPT !.ml = @ + g.ml, !.dl = @ + g.dl, !.ok = ok2, !.C = g.C, !.N = g.N]
    IN IF g.F = 1 THEN a2 ELSE [a2 EXCEPT !.open = FALSE, !.delivered = TRUE]

(* a legal next fragment: km metadata units and kd data units *)
Emit(km, kd) ==
    /\ phase = "send"
    /\ LET first == out = <<>>
           ft == IF first THEN frame.ft ELSE "PAYLOAD"
           last == sm + km = frame.ml /\ sd + kd = frame.dl
           g == [ft |-> ft, n |-> IF first /\ HasN(frame.ft) THEN 7 ELSE 0,
                 F |-> IF last THEN 0 ELSE 1, C |-> IF last THEN frame.C ELSE 0,
                 N |-> IF ft = "PAYLOAD" /\ km + kd > 0 THEN 1 ELSE 0,
                 ml |-> km, moff |-> sm, dl |-> kd, doff |-> sd]
       IN /\ sm + km <= frame.ml /\ sd + kd <= frame.dl
          /\ (kd > 0 => sm + km = frame.ml)                       \* C03.metadata_before_data
          /\ (km + kd > 0 \/ (first /\ frame.ml + frame.dl = 0))  \* no empty fragments (except the empty frame)
          /\ Cost(ft, km, kd, frame.pfx) <= frame.limit           \* C03.size_le_limit
          /\ out' = Append(out, g)
          /\ sm' = sm + km /\ sd' = sd + kd
          /\ acc' = Receive(acc, g)
          /\ phase' = IF last THEN "done" ELSE "send"
          /\ UNCHANGED frame

Next == \E km \in 0..MaxMd, kd \in 0..MaxD : Emit(km, kd)

Spec == Init /\ [][Next]_vars

(* --- properties ----------------------------------------------------------- *)
TypeOK == phase \in {"send", "done"} /\ sm <= frame.ml /\ sd <= frame.dl

(* C03.reassembles_exactly: whatever legal plan was used, the receiver delivers exactly the original frame *)
ReassemblesExactly ==
    phase = "done" =>
        /\ acc.delivered /\ acc.ok
        /\ acc.ft = frame.ft /\ acc.ml = frame.ml /\ acc.dl = frame.dl /\ acc.C = frame.C
        /\ acc.n = (IF HasN(frame.ft) THEN 7 ELSE 0)
        /\ (frame.ft = "PAYLOAD" /\ frame.ml + frame.dl > 0 => acc.N = 1)

(* nothing is delivered before the last fragment *)
NoEarlyDelivery == phase = "send" => ~acc.delivered

(* C03 structure of every plan *)
PlanShape ==
    \A i \in 1..Len(out) :
        /\ (i = 1 => out[i].ft = frame.ft) /\ (i > 1 => out[i].ft = "PAYLOAD" /\ out[i].n = 0)
        /\ (i < Len(out) => out[i].F = 1 /\ out[i].C = 0)
        /\ Cost(out[i].ft, out[i].ml, out[i].dl, frame.pfx) <= frame.limit

(* a legal plan exists for every frame whenever the limit leaves room for one unit of content
   (checked as: no send-phase state is a dead end) *)
CanAlwaysProceed == phase = "send" => \E km \in 0..MaxMd, kd \in 0..MaxD : ENABLED Emit(km, kd)
=============================================================================
