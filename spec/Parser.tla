------------------------------- MODULE Parser -------------------------------
(***************************************************************************)
(* Framing decoder (C04).  A connection's byte stream is the concatenation *)
(* of length-prefixed frames (3-byte big-endian length, then the body).    *)
(* The decoder is modelled the way rsocket/frame_parser.py works (a buffer *)
(* of unconsumed bytes, a loop that emits every frame wholly buffered) at  *)
(* the REAL byte scale, and TLC checks - for every stream in Lens and      *)
(* every way of splitting it into reads, down to single bytes and splits   *)
(* inside the length prefix - the declarative property: after any prefix   *)
(* of the stream has been received, exactly the frames wholly contained in *)
(* that prefix have been emitted, in order, each once.                     *)
(* The complete state graph (every read i -> j) is replayed on the real    *)
(* FrameParser by vf/props/c04.py.  Message mode: one message = one frame. *)
(***************************************************************************)
EXTENDS Naturals, Sequences, FiniteSets, TLC

CONSTANTS Lens,      \* sequence of streams; a stream is a sequence of frame body lengths
          MaxRead    \* largest single read explored

(* the streams explored by Parser.cfg (body lengths; vf/props/c04.py instantiates each length with a real frame of
   that size: valid frames of several types, a zero-length frame, bodies shorter than a header, unknown types) *)
DefaultLens == << <<6, 10, 6>>, <<0, 6>>, <<6, 0, 0, 9>>, <<3, 6>>, <<14, 1, 6>>, <<7, 7, 7>>, <<6>>, <<0>>, <<5, 5>>,
                  <<16, 6, 10>>, <<9, 2, 9, 6>>, <<6, 6, 6, 6>> >>

VARIABLES s,         \* which stream
          pos,       \* bytes received so far
          cons,      \* offset of the first byte not yet consumed by the decoder
          emitted    \* indices of the frames emitted so far, in order

vars == <<s, pos, cons, emitted>>

RECURSIVE Sum(_, _)
Sum(seq, k) == IF k = 0 THEN 0 ELSE seq[k] + 3 + Sum(seq, k - 1)
Total(st) == Sum(st, Len(st))
EndOf(st, k) == Sum(st, k)              \* offset just after frame k
StartOf(st, k) == Sum(st, k - 1)

Init == /\ s \in 1..Len(Lens)
        /\ pos = 0 /\ cons = 0 /\ emitted = <<>>

(* the decoder loop: starting at offset c with `have` bytes received, emit every frame wholly available *)
RECURSIVE Drain(_, _, _, _)
Drain(st, c, have, out) ==
    LET k == CHOOSE i \in 1..(Len(st) + 1) : (i = Len(st) + 1 /\ c >= Total(st)) \/ (i <= Len(st) /\ StartOf(st, i) = c)
    IN IF k = Len(st) + 1 THEN <<c, out>>
       ELSE IF have - c < 3 THEN <<c, out>>                 \* length prefix not complete
       ELSE IF have - c < 3 + st[k] THEN <<c, out>>         \* body not complete
       ELSE Drain(st, c + 3 + st[k], have, Append(out, k))

Read(k) ==
    /\ pos + k <= Total(Lens[s])
    /\ LET r == Drain(Lens[s], cons, pos + k, emitted) IN
         /\ cons' = r[1]
         /\ emitted' = r[2]
    /\ pos' = pos + k
    /\ UNCHANGED s

Next == \E k \in 1..MaxRead : Read(k)

Spec == Init /\ [][Next]_vars

(* --- C04 ------------------------------------------------------------------- *)
Whole(st, p) == {k \in 1..Len(st) : EndOf(st, k) <= p}

\* exactly the frames wholly contained in the received prefix, in order, each once - whatever the chunking
ChunkingIndependent ==
    /\ Len(emitted) = Cardinality(Whole(Lens[s], pos))
    /\ \A i \in 1..Len(emitted) : emitted[i] = i

\* the decoder never holds a complete frame back
NothingHeldBack == \A k \in 1..Len(Lens[s]) : EndOf(Lens[s], k) <= pos => StartOf(Lens[s], k) < cons

\* and never consumes bytes of a frame that is not complete yet
NoOverrun == cons <= pos /\ (\E k \in 0..Len(Lens[s]) : cons = EndOf(Lens[s], k))
=============================================================================
