SPECIFICATION Spec
CONSTANTS MaxReconnects = 2
          MaxCuts = 1
          MaxProbes = 0
          MaxPends = 1
          MaxRaces = 1
          MaxTicks = 0
          MaxFnfs = 2
          MaxBlocks = 1
          Firsts = {"close", "reconnect"}
          Js = {0, 1, 2, 3, 4, 6, 8, 10}
INVARIANT TypeOK
INVARIANT CloseOncePerConnection
INVARIANT OldTransportsClosed
INVARIANT WaitsOnlyOnDeadConnection
INVARIANT Accounted
INVARIANT NothingPendingOnDeadConnection
INVARIANT ClosedStaysClosed
INVARIANT FnfAccounted
INVARIANT NothingUnsentOnDeadConnection
INVARIANT FnfWaitsOnlyOnDeadConnection
INVARIANT AllClosedAfterClose
