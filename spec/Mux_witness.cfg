SPECIFICATION Spec
CONSTANTS Streams = {1, 3}
          MaxFrames = 3
          FragCounts = {1, 2}
          CycleMode = "own_stream_last"
          WithSetup = FALSE
INVARIANT NeverInterleaved
