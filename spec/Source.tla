---------------------------- MODULE Source ----------------------------
(***************************************************************************)
(* The library's own stream sources as Reactive-Streams publishers, in      *)
(* isolation: one publisher object, one subscriber, an application that     *)
(* calls request(n) / cancel() at any moment - several calls may pile up    *)
(* before the event loop runs - and a loop that runs to quiescence (Run) or *)
(* only a few iterations (Step).                                            *)
(*                                                                         *)
(*  rsocket/streams/stream_from_generator.py       StreamFromGenerator      *)
(*  rsocket/streams/stream_from_async_generator.py StreamFromAsyncGenerator *)
(*     request(n): n goes into _request_n_queue; the n-feeder task pulls    *)
(*     n elements from the application's generator into _queue; the payload *)
(*     feeder hands them to the subscriber one per loop iteration (or per   *)
(*     delay_between_messages).  Completion travels with the element the    *)
(*     generator flagged (CompleteWithLast) - otherwise the generator's end *)
(*     is only noticed when one more element is asked for (one more unit of *)
(*     credit) and is signalled as an empty element flagged complete.       *)
(*  rsocket/reactivex/back_pressure_publisher.py (and rx_support/...)       *)
(*     BackPressurePublisher(observable): the observable is materialised    *)
(*     into a queue of events (buffered: the application is NOT asked       *)
(*     element by element); each unit of credit releases one event, the     *)
(*     OnCompleted / OnError event included (one more unit of credit).      *)
(*     feedback_observable(factory): the factory's observable is told every *)
(*     request(n) through the feedback subject and asked for exactly that.  *)
(*                                                                         *)
(* AS IMPLEMENTED, named: a request(n) made after a generator source has    *)
(* completed starts the application's generator AGAIN and pulls n elements  *)
(* that nobody receives (RestartsOnLateRequest) - no signal reaches the     *)
(* subscriber, so no listed property is broken; kept visible as `repulled`. *)
(***************************************************************************)
EXTENDS Naturals, Sequences, FiniteSets, TLC

CONSTANTS N,                 \* elements the application's generator / observable holds
          CompleteWithLast,  \* completion is flagged on the N-th element (N >= 1)
          FailAt,            \* 0: never; k >= 1: the application raises when asked for its k-th element
          Buffered,          \* plain observable behind the adapter: the application is drained at subscribe time
          RestartsOnLateRequest,
          Replenish,         \* the subscriber calls request(1) from inside every on_next (the usual Reactive Streams idiom)
          Grants,            \* values the application passes to request(); Big stands for MAX_REQUEST_N
          Big,
          MaxCalls, MaxSteps, MaxLate,
          Js                 \* loop iterations of a partial run

Cap == N + 2                                   \* credit is counted up to Cap: more makes no difference
Min(a, b) == IF a <= b THEN a ELSE b
Worth(n) == IF n = Big THEN Cap ELSE n

VARIABLE s
vars == <<s>>

Init == s = [sub |-> FALSE, credit |-> 0, em |-> 0, pulled |-> 0, term |-> "none",
             asked |-> <<>>,      \* what a back-pressure factory was told, call by call
             quiet |-> TRUE,      \* nothing left for the loop to do
             repulled |-> 0, calls |-> 0, steps |-> 0, late |-> 0]

(* with a replenishing subscriber the first unit of credit is never used up: every element handed over brings one more *)
Eff(c) == IF Replenish /\ c > 0 THEN Cap ELSE c

(* what the source owes once the loop has run to quiescence with this much credit *)
Good(c) == IF FailAt = 0 THEN Min(c, N) ELSE Min(c, FailAt - 1)       \* elements before the failure / the end
Failing(c) == FailAt > 0 /\ c >= FailAt
Completing(c) == FailAt = 0 /\ ((CompleteWithLast /\ N >= 1 /\ c >= N) \/ c >= N + 1)
Final(c) == IF Failing(c) THEN "error" ELSE IF Completing(c) THEN "complete" ELSE "none"

Subscribe == ~s.sub /\ s' = [s EXCEPT !.sub = TRUE, !.quiet = FALSE]

Request(n) ==
    /\ s.sub /\ s.term = "none" /\ s.calls < MaxCalls
    /\ s' = [s EXCEPT !.credit = Min(Cap, @ + Worth(n)), !.asked = Append(@, n), !.calls = @ + 1, !.quiet = FALSE]

(* request(n) after the terminal signal: nothing reaches the subscriber *)
LateRequest(n) ==
    /\ s.sub /\ s.term \in {"complete", "error"} /\ s.late < MaxLate /\ s.quiet
    /\ s' = [s EXCEPT !.late = @ + 1,
                      !.repulled = IF RestartsOnLateRequest /\ s.term = "complete" THEN @ + Min(Worth(n), N) ELSE @]

Cancel == s.sub /\ s.term = "none" /\ s' = [s EXCEPT !.term = "cancelled"]     \* what the loop still has to do must come to nothing

(* the loop runs until nothing is ready *)
Settled(t) ==
    IF t.term # "none" \/ ~t.sub THEN {[t EXCEPT !.quiet = TRUE]}
    ELSE LET c == Eff(t.credit)
             fin == Final(c)
         IN { [t EXCEPT !.em = e, !.pulled = IF Buffered THEN 0 ELSE Good(c), !.term = fin, !.quiet = TRUE] :
                e \in IF fin = "error" THEN t.em .. Good(c) ELSE {Good(c)} }
            \* an error may overtake elements already pulled but not handed over yet (they are dropped)

Run == ~s.quiet /\ s' \in Settled(s)

(* the loop runs j iterations only: anything between where it is and where Run would take it *)
Step(j) ==
    /\ ~s.quiet /\ s.steps < MaxSteps /\ s.sub /\ s.term = "none"
    /\ \E e \in s.em .. Good(Eff(s.credit)), p \in (IF Buffered THEN {0} ELSE s.pulled .. Good(Eff(s.credit))),
          fin \in {"none", Final(Eff(s.credit))} :
          /\ e <= (IF Buffered THEN e ELSE p)
          /\ (Replenish /\ ~Buffered => p <= e + s.credit)      \* credit comes back only with the elements handed over
          /\ (fin = "complete" => e = Good(Eff(s.credit)))
          /\ s' = [s EXCEPT !.em = e, !.pulled = p, !.term = fin, !.steps = @ + 1,
                            !.quiet = (fin # "none")]

Next == Subscribe \/ Cancel \/ Run
        \/ \E n \in Grants : Request(n) \/ LateRequest(n)
        \/ \E j \in Js : Step(j)
Spec == Init /\ [][Next]_vars

----------------------------------------------------------------------------
TypeOK == s.em \in 0..N /\ s.pulled \in 0..N /\ s.credit \in 0..Cap
          /\ s.term \in {"none", "complete", "error", "cancelled"}
(* C06: never more elements than credit received - neither handed to the subscriber nor pulled from the application *)
Granted == IF Replenish THEN s.credit + s.em ELSE s.credit       \* what the subscriber has asked for so far
WithinCredit == s.em <= Granted /\ s.pulled <= Granted
(* C20: a back-pressure-aware source is asked for exactly what was granted *)
AskedIsGranted == s.pulled <= Granted /\ Len(s.asked) = s.calls
(* C06: every element is delivered once enough credit has been granted *)
AllDeliveredWhenCreditSuffices ==
    s.quiet /\ s.sub /\ s.term \in {"none", "complete"} => s.em = Good(Eff(s.credit))
(* C07 / C20: completion only after the last element; a failure is reported as an error, never as a completion *)
CompleteOnlyAtTheEnd == s.term = "complete" => s.em = N /\ FailAt = 0
ErrorPreserved == s.quiet /\ s.sub /\ Failing(Eff(s.credit)) /\ s.term # "cancelled" => s.term = "error"
CompletionWhenCreditSuffices == s.quiet /\ s.sub /\ Completing(Eff(s.credit)) /\ s.term # "cancelled" => s.term = "complete"
(* C09: after cancel() nothing is produced any more *)
NothingAfterCancel == [][s.term = "cancelled" => s'.em = s.em /\ s'.pulled = s.pulled /\ s'.term = "cancelled"]_vars
(* C07: a terminal signal is final *)
TerminalIsFinal == [][s.term # "none" => s'.term = s.term /\ s'.em = s.em]_vars
=============================================================================
