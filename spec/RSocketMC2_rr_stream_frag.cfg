SPECIFICATION Spec2
CONSTANTS KindA = "rr"
          InitA = "c"
          KindB = "stream"
          InitB = "c"
          MaxElems = 1
          Credits = {1}
          MaxGrants = 0
          HasPub = FALSE
          Frag = 10
          LibSource = FALSE
INVARIANT NoClauseFails
INVARIANT DeliveredIsPrefixOfHanded
INVARIANT FutureOnce
INVARIANT NothingRetained
