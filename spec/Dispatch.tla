------------------------------ MODULE Dispatch ------------------------------
(***************************************************************************)
(* What an endpoint does with ONE complete frame it receives, as a function *)
(* of the frame and of the state of the stream it is addressed to           *)
(* (rsocket/rsocket_base.py _handle_next_frame / _handle_frame_by_type /    *)
(* handle_*; rsocket/stream_control.py handle_stream; the frame_received of *)
(* the seven stream handlers).  The table is the same for both endpoints.   *)
(*                                                                         *)
(* state X of the addressed stream at the receiving endpoint E:             *)
(*   none  no stream registered under the id                                *)
(*   rrq / rrs   request-response, E requester (future pending) / responder *)
(*   stq / sts   request-stream, E requester (subscribed) / responder        *)
(*   chq / chs   request-channel, both directions open, E requester / resp. *)
(* sid: "peer" an id of the peer's parity, "own" one of E's parity (only    *)
(* distinguished for X = none), "zero" stream 0.                            *)
(*                                                                         *)
(* A frame a conforming peer may send in that state is LEGAL and has an     *)
(* exact reaction.  Everything else is protocol-violating input (C12): it   *)
(* must be ignored or answered with an ERROR frame on the offending stream, *)
(* the stream it is aimed at is not replaced (C13) - except for the         *)
(* deviations the implementation has, which are named here:                 *)
(*   ExecZero    a REQUEST_* frame on stream 0 reaches the request handler;  *)
(*               response / stream / channel are then answered with          *)
(*               ERROR[APPLICATION_ERROR] on stream 0 (registering stream 0  *)
(*               fails), a fire-and-forget is simply executed                *)
(*   SetupAgain  a SETUP frame on an established connection is passed to     *)
(*               on_setup again (by either endpoint)                         *)
(*   AnyPayloadResolves  a request-response requester takes ANY payload      *)
(*               frame - also one without NEXT and COMPLETE - as response    *)
(*   KeepsChannel  a channel stays registered after an ERROR (finding F17)   *)
(* frag: a fragmentable frame (PAYLOAD with content, a request) arrives     *)
(*   "whole", as "two" fragments (first with the follows flag, then a        *)
(*   PAYLOAD), or only its "first" fragment arrives.  Reassembly is           *)
(*   transparent: two fragments are handled exactly like the whole frame;     *)
(*   a first fragment alone causes no reaction - it waits in the reassembly   *)
(*   cache (`partial`) whatever the state of the stream it names.             *)
(* TLC enumerates the table, checks the invariants below and prints it;     *)
(* vf/props/dispatch.py replays every row on real endpoints.                *)
(***************************************************************************)
EXTENDS Naturals, Sequences, FiniteSets, TLC, Json

States == {"none", "rrq", "rrs", "stq", "sts", "chq", "chs"}
Payloads == {"PAYLOAD_N", "PAYLOAD_NC", "PAYLOAD_C", "PAYLOAD_0"}
Requests == {"REQUEST_RESPONSE", "REQUEST_STREAM", "REQUEST_CHANNEL", "REQUEST_FNF"}
ConnFrames == {"KEEPALIVE", "LEASE", "METADATA_PUSH", "SETUP", "RESUME", "RESUME_OK"}
Frames == Payloads \cup Requests \cup ConnFrames \cup {"ERROR", "CANCEL", "REQUEST_N", "EXT"}

VARIABLE c          \* one case: [X, ft, sid, frag]
Fragmentable == Requests \cup {"PAYLOAD_N", "PAYLOAD_NC"}
Cases == {x \in [X : States, ft : Frames, sid : {"peer", "own", "zero"}, frag : {"whole", "two", "first"}] :
            /\ (x.sid = "own" => x.X = "none")
            /\ (x.sid = "zero" => x.X \in {"none", "rrq"})      \* stream 0 with and without a bystander stream
            /\ (x.frag # "whole" => x.ft \in Fragmentable /\ x.sid = "peer")}

(* is the frame one a conforming peer may send to E in this state? *)
Legal(x) ==
    IF x.sid = "zero" THEN x.ft \in {"KEEPALIVE", "LEASE", "METADATA_PUSH", "ERROR"}
    ELSE CASE x.X = "none" -> x.ft \in Requests /\ x.sid = "peer"
           [] x.X = "rrq"  -> x.ft \in {"PAYLOAD_NC", "PAYLOAD_C", "ERROR"}
           [] x.X = "rrs"  -> x.ft = "CANCEL"
           [] x.X = "stq"  -> x.ft \in {"PAYLOAD_N", "PAYLOAD_NC", "PAYLOAD_C", "ERROR"}
           [] x.X = "sts"  -> x.ft \in {"REQUEST_N", "CANCEL"}
           [] x.X \in {"chq", "chs"} -> x.ft \in {"PAYLOAD_N", "PAYLOAD_NC", "PAYLOAD_C", "ERROR", "CANCEL", "REQUEST_N"}

(* a reaction: what the application of E is told, which frames E queues, whether the addressed stream is registered afterwards *)
R(class, told, out, reg) == [class |-> class, told |-> told, out |-> out, reg |-> reg, partial |-> FALSE]
Registered(x) == x.X # "none" /\ x.sid # "zero"
Ignore(x) == R("ignored", {}, {}, Registered(x))
Reject(x) == R("rejected", {}, {"ERROR:sid:REJECTED"}, Registered(x))

Accept(ft) ==      \* a new stream opened by the peer (the replay's default handlers answer a request-response at once)
    CASE ft = "REQUEST_RESPONSE" -> R("handled", {"request", "resp_future_done"}, {"PAYLOAD:sid"}, FALSE)
      [] ft = "REQUEST_FNF"      -> R("handled", {"request"}, {}, FALSE)
      [] ft = "REQUEST_STREAM"   -> R("handled", {"request", "pub_subscribe", "pub_request:3"}, {}, TRUE)
      [] ft = "REQUEST_CHANNEL"  -> R("handled", {"request", "subscribe", "pub_subscribe", "pub_request:3"}, {}, TRUE)

OnZero(x) ==
    CASE x.ft = "KEEPALIVE"     -> R("handled", {}, {"KEEPALIVE:0"}, FALSE)       \* respond flag set: echoed
      [] x.ft = "LEASE"         -> R("handled", {}, {}, FALSE)
      [] x.ft = "METADATA_PUSH" -> R("handled", {"request"}, {}, FALSE)
      [] x.ft = "ERROR"         -> R("handled", {"error0"}, {}, FALSE)
      [] x.ft = "RESUME"        -> R("rejected", {}, {"ERROR:0:REJECTED_RESUME"}, FALSE)
      [] x.ft = "SETUP"         -> R("deviation:SetupAgain", {"setup"}, {}, FALSE)
      [] x.ft \in {"REQUEST_RESPONSE"} -> R("deviation:ExecZero", {"request", "resp_future_done"}, {"ERROR:0:APPLICATION_ERROR"}, FALSE)
      [] x.ft \in {"REQUEST_STREAM", "REQUEST_CHANNEL"} -> R("deviation:ExecZero", {"request"}, {"ERROR:0:APPLICATION_ERROR"}, FALSE)
      [] x.ft = "REQUEST_FNF"   -> R("deviation:ExecZero", {"request"}, {}, FALSE)
      [] OTHER                  -> R("ignored", {}, {}, FALSE)

OnStream(x) ==
    LET X == x.X  f == x.ft IN
    CASE X = "none" -> Ignore(x)
      [] X = "rrq" -> IF f \in Payloads \cup {"ERROR"}
                      THEN R(IF f \in {"PAYLOAD_N", "PAYLOAD_0"} THEN "deviation:AnyPayloadResolves" ELSE "handled", {"future"}, {}, FALSE)
                      ELSE Ignore(x)
      [] X = "rrs" -> IF f = "CANCEL" THEN R("handled", {"resp_future_done"}, {}, FALSE) ELSE Ignore(x)
      [] X = "stq" -> CASE f = "PAYLOAD_N"  -> R("handled", {"next"}, {}, TRUE)
                        [] f = "PAYLOAD_NC" -> R("handled", {"next"}, {}, FALSE)
                        [] f = "PAYLOAD_C"  -> R("handled", {"complete"}, {}, FALSE)
                        [] f = "ERROR"      -> R("handled", {"error"}, {}, FALSE)
                        [] OTHER            -> Ignore(x)
      [] X = "sts" -> CASE f = "REQUEST_N" -> R("handled", {"pub_request:2"}, {}, TRUE)
                        [] f = "CANCEL"    -> R("handled", {"pub_cancel"}, {}, FALSE)
                        [] OTHER           -> Ignore(x)
      [] X \in {"chq", "chs"} ->
                      CASE f \in {"PAYLOAD_N", "PAYLOAD_NC"} -> R("handled", {"next"}, {}, TRUE)
                        [] f = "PAYLOAD_C"  -> R("handled", {"complete"}, {}, TRUE)
                        [] f = "ERROR"      -> R("deviation:KeepsChannel", {"error"}, {}, TRUE)
                        [] f = "CANCEL"     -> R("handled", {"pub_cancel"}, {}, TRUE)
                        [] f = "REQUEST_N"  -> R("handled", {"pub_request:2"}, {}, TRUE)
                        [] OTHER            -> Ignore(x)

Whole(x) == [x EXCEPT !.frag = "whole"]
RECURSIVE React(_)
React(x) ==
    IF x.frag = "first" THEN [Ignore(x) EXCEPT !.class = "waiting", !.partial = TRUE]      \* nothing happens until the frame is complete
    ELSE IF x.frag = "two" THEN React(Whole(x))                                            \* reassembly is transparent
    ELSE IF x.sid = "zero" THEN OnZero(x)
    ELSE IF x.ft \in Requests THEN (IF x.X = "none" THEN Accept(x.ft) ELSE Reject(x))
    ELSE IF x.ft \in ConnFrames \cup {"EXT"} THEN Ignore(x)      \* connection-level frame on a stream id / unknown extension
    ELSE OnStream(x)

Init == c \in Cases
Next == UNCHANGED c
Spec == Init /\ [][Next]_<<c>>

----------------------------------------------------------------------------
Dev(r) == r.class \in {"deviation:SetupAgain", "deviation:ExecZero", "deviation:AnyPayloadResolves", "deviation:KeepsChannel"}
(* C12: protocol-violating input is ignored or answered with an ERROR on the offending stream (the named deviations aside) *)
Contained == ~Legal(c) => LET r == React(c) IN
                 \/ r.class \in {"ignored", "waiting"} /\ r.told = {} /\ r.out = {} /\ r.reg = Registered(c)
                 \/ r.class = "rejected" /\ r.told = {} /\ \A o \in r.out : o \in {"ERROR:sid:REJECTED", "ERROR:0:REJECTED_RESUME"}
                 \/ Dev(r)
                 \/ (c.X = "none" /\ c.sid = "own" /\ c.ft \in Requests)     \* a request on an id of E's own parity is served like any other
(* a legal frame is never rejected or ignored - LEASE on a connection without leases has no visible effect *)
LegalIsHandled == Legal(c) /\ c.frag # "first" => React(c).class \in {"handled", "deviation:KeepsChannel"}
(* C03: reassembly is transparent, and nothing is handed over before the last fragment *)
ReassemblyTransparent == (c.frag = "two" => React(c) = React(Whole(c))) /\ (c.frag = "first" => React(c).told = {} /\ React(c).out = {})
(* C13: a request frame that reuses an id still active is rejected, the application is not told, the stream stays *)
DuplicateRejected == (c.ft \in Requests /\ c.X # "none" /\ c.sid # "zero" /\ c.frag # "first")
                        => React(c) = R("rejected", {}, {"ERROR:sid:REJECTED"}, TRUE)
(* frames for unknown streams are dropped silently *)
UnknownDropped == (c.X = "none" /\ c.sid # "zero" /\ c.ft \notin Requests /\ c.frag # "first") => React(c) = Ignore(c)
(* C08: the only frames ever queued in reaction are an answer of the right kind: a response on the request's stream, an echo, an ERROR *)
ReactionFramesLegal == \A o \in React(c).out : o \in {"PAYLOAD:sid", "KEEPALIVE:0", "ERROR:sid:REJECTED", "ERROR:0:REJECTED_RESUME",
                                                     "ERROR:0:APPLICATION_ERROR"}
(* C07 / C10: a terminal frame for a requester ends the stream; nothing else unregisters a stream *)
Unregisters == (Registered(c) /\ ~React(c).reg) =>
                  \/ c.X = "rrq" /\ c.ft \in Payloads \cup {"ERROR"}
                  \/ c.X = "rrs" /\ c.ft = "CANCEL"
                  \/ c.X = "stq" /\ c.ft \in {"PAYLOAD_NC", "PAYLOAD_C", "ERROR"}
                  \/ c.X = "sts" /\ c.ft = "CANCEL"

Emit == PrintT(ToJson([c |-> c, r |-> React(c), legal |-> Legal(c)]))
=============================================================================
