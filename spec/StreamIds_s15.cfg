SPECIFICATION Spec
CONSTANTS MaxId = 15
          First = 2
          TheirIds = {1}
INVARIANT TypeOK
PROPERTY AllocIsNextFree
PROPERTY AllocNonZeroParity
PROPERTY AllocNotActive
PROPERTY AllocFailsOnlyWhenFull
PROPERTY IncomingDuplicateRejected
