SPECIFICATION Spec
CONSTANTS MaxLen = 4
          Alphabet = {0, 1, 2, 3, 255}
INVARIANT Progress
INVARIANT RoundTrip
INVARIANT TagLengths
INVARIANT Emit
