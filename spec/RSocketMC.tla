----------------------------- MODULE RSocketMC -----------------------------
(***************************************************************************)
(* Design-level model checking of the connection-level specification.      *)
(*                                                                         *)
(* A DESIGN MODEL of two conforming endpoints (the reaction table of       *)
(* DESIGN.md, Appendix A), a FIFO link, a sender that may serve queued     *)
(* frames at any time, and an adversarial but legal application /          *)
(* environment generates EVENTS - exactly the vocabulary of recorded       *)
(* traces - and feeds them through RSocket!Step, the very monitors used    *)
(* for trace validation.  TLC explores every interleaving of application   *)
(* calls, sender steps, deliveries, credits, cancels, errors and           *)
(* completions within the constants and checks                             *)
(*   NoClauseFails : the design never violates a clause (the clause set    *)
(*                   is jointly implementable, whatever the schedule), and *)
(*   the global properties over the monitors' history variables.           *)
(* Quiescence (nothing queued, nothing in flight) evaluates the            *)
(* "must have happened by now" clauses (C01, C06, C09, C10).               *)
(***************************************************************************)
EXTENDS RSocket

CONSTANTS Kind,        \* "rr" | "stream" | "channel": the interaction explored by this configuration
          Init_,       \* "c" | "s": who initiates
          MaxElems,    \* elements a scripted publisher may hand per direction
          Credits,     \* set of credit values the application may grant (initial n and request(n))
          MaxGrants,   \* number of request(n) calls per subscriber
          HasPub,      \* channel: the requester has a publisher of its own
          LibSource,   \* publishers are library stream sources: they emit exactly within credit, autonomously (C06)
          Slot,        \* 0 | 1: which of the connection's interactions this is (RSocketMC2 runs two side by side)
          SidOff,      \* 0, or 2 when the other interaction has the same initiator and takes that endpoint's first id
          Frag,        \* 0: no fragmentation; otherwise the configured fragment size: an element / a response is then two fragments long,
                       \* the sender writes ONE FRAGMENT per step and whatever else happens may happen between the two
          AsImplemented \* BOOLEAN: request-channel reacts the way the LIBRARY does where it deviates from the design (open findings
                       \* F17a/F17b/F17c: the two directions of a channel are independent - a requester's cancel() neither cancels
                       \* its own publisher nor releases the stream, an endpoint that sent ERROR keeps the stream registered and still
                       \* forwards request(n)).  RSocketMC_channel_impl.cfg must REFUTE NoClauseFails.

VARIABLES mon, viol, d

(* design state d:
     reg[e]      stream ids the design keeps registered at e (what a quiescence snapshot would show)
     phase       "idle" | "open" | "quiesced"
     nextPid     payload id allocator
     elems[r]    elements handed by the publisher of role r
     grants[r]   request(n) calls made by the subscriber of role r
     futCancelPending  request-response: future.cancel() happened, its done-callback has not run yet *)
mcvars == <<mon, viol, d>>

R == Init_
P == Peer(Init_)
SID == (IF Init_ = "c" THEN 1 ELSE 2) + SidOff
IID == 1 + Slot
PidBase == 10 + 20 * Slot

Ev0 == [ep |-> "-", ev |-> "", t |-> 0, sid |-> -1, ft |-> "", kind |-> "", iid |-> 0, pid |-> 0, n |-> 0, F |-> 0, C |-> 0, N |-> 0,
        M |-> 0, ml |-> 0, dl |-> 0, mpid |-> 0, moff |-> 0, dpid |-> 0, doff |-> 0, code |-> 0, x |-> 0, role |-> "", wl |-> 0, i |-> 0,
        streams |-> <<>>, partial |-> <<>>]

App(e, ev, role)    == [Ev0 EXCEPT !.ep = e, !.ev = ev, !.iid = IID, !.role = role]
Frame(e, ev, ft)    == [Ev0 EXCEPT !.ep = e, !.ev = ev, !.ft = ft, !.sid = SID]
ElemLen == IF Frag > 0 THEN 2 ELSE 1
WithPayload(f, pid) == [f EXCEPT !.pid = pid, !.dl = 1, !.dpid = pid, !.x = Frag]                 \* a request: always fits one frame
WithElem(f, pid)    == [f EXCEPT !.pid = pid, !.dl = ElemLen, !.dpid = pid, !.x = Frag]          \* an element / a response

(* fold a sequence of events through the monitors *)
RECURSIVE Run(_, _, _)
Run(m, fails, evs) ==
    IF evs = <<>> THEN [m |-> m, f |-> fails]
    ELSE LET r == Step(m, Head(evs)) IN Run(r.m, fails \cup r.f, Tail(evs))

Do(evs) == LET r == Run(mon, {}, evs) IN /\ mon' = r.m /\ viol' = viol \cup r.f

D0 == [reg |-> [e \in E |-> {}], phase |-> "idle", nextPid |-> PidBase,
       elems |-> [req |-> 0, resp |-> 0], grants |-> [req |-> 0, resp |-> 0], futCancelPending |-> FALSE]
Mon0 == [M0 EXCEPT !.G["c"].setupEnq = 1, !.G["c"].setupTx = 1, !.G["c"].txCount = 1, !.G["s"].txCount = 1]

MInit == /\ mon = [M0 EXCEPT !.G["c"].setupEnq = 1, !.G["c"].setupTx = 1, !.G["c"].txCount = 1, !.G["s"].txCount = 1]
         /\ viol = {}
         /\ d = D0


RoleOf(e) == IF e = R THEN "req" ELSE "resp"
EpOf(role) == IF role = "req" THEN R ELSE P
It == mon.I[IID]
Wm(e) == mon.W[e][SID]
Registered(e) == SID \in d.reg[e]
Fin(e) == [d EXCEPT !.reg[e] = @ \ {SID}]

(* ---- the application opens the interaction -------------------------------------------------------------------- *)
AppOpen(n0) ==
    /\ d.phase = "idle"
    /\ LET req == [App(R, "app_request", "") EXCEPT !.kind = Kind, !.pid = IID, !.dl = 1, !.n = n0,
                                                     !.x = IF Kind = "channel" /\ HasPub THEN 1 ELSE 0]
           ft == CASE Kind = "rr" -> "REQUEST_RESPONSE" [] Kind = "stream" -> "REQUEST_STREAM" [] OTHER -> "REQUEST_CHANNEL"
           frame == [WithPayload(Frame(R, "enq", ft), IID) EXCEPT !.n = IF Kind = "rr" THEN 0 ELSE n0,
                                                                    !.C = IF Kind = "channel" /\ ~HasPub THEN 1 ELSE 0]
           evs == IF Kind = "rr" THEN <<req, frame>>
                  ELSE IF Kind = "stream" THEN <<req, App(R, "app_subscribe", ""), App(R, "cb_subscribe", "req"), frame>>
                  ELSE (IF HasPub THEN <<req, [App(R, "app_producer", "req") EXCEPT !.n = IF LibSource THEN MaxElems ELSE -1, !.x = IF LibSource THEN 1 ELSE 0], App(R, "app_subscribe", ""),
                                         App(R, "cb_pub_subscribe", "req"), App(R, "cb_subscribe", "req"), frame>>
                        ELSE <<req, App(R, "app_subscribe", ""), App(R, "cb_subscribe", "req"), frame>>)
       IN /\ Do(evs)
          /\ d' = [d EXCEPT !.phase = "open", !.reg[R] = IF Kind = "channel" /\ ~HasPub /\ FALSE THEN @ ELSE @ \cup {SID}]

(* ---- the sender of e writes the oldest queued frame - or, when it does not fit the fragment size, its next fragment ---------- *)
SenderStep(e) ==
    /\ mon.Q[e] # <<>>
    /\ LET s == Head(mon.Q[e])
           split == Frag > 0 /\ s.ft \in Fragmentable /\ 9 + s.dl > Frag        \* (9 = the frame header in this model's units)
           rest == s.dl - s.sd
           part == IF split THEN 1 ELSE s.dl
           last == ~split \/ rest = 1
           f == [Frame(e, "tx", IF s.started THEN "PAYLOAD" ELSE s.ft) EXCEPT
                    !.sid = s.sid, !.n = IF s.started THEN 0 ELSE s.n, !.C = IF last THEN s.C ELSE 0,
                    !.N = IF s.ft = "PAYLOAD" /\ s.ml + s.dl > 0 THEN 1 ELSE 0,
                    !.F = IF split THEN (IF last THEN 0 ELSE 1) ELSE s.F, !.ml = s.ml, !.dl = part,
                    !.dpid = IF s.dl > 0 THEN s.pid ELSE 0, !.doff = IF split THEN s.sd ELSE 0, !.code = s.code,
                    !.wl = 9 + part]
       IN Do(<<f>>)
    /\ UNCHANGED d

(* with several streams on the connection the sender may serve ANY stream that has something queued - its oldest frame / next fragment
   (RSocketMC2: fragments of different streams interleave in every way; within a stream the order is fixed) *)
SenderStepOf(e, sid) ==
    /\ FirstIdx(mon.Q[e], sid) > 0
    /\ LET s == mon.Q[e][FirstIdx(mon.Q[e], sid)]
           split == Frag > 0 /\ s.ft \in Fragmentable /\ 9 + s.dl > Frag
           rest == s.dl - s.sd
           part == IF split THEN 1 ELSE s.dl
           last == ~split \/ rest = 1
           f == [Frame(e, "tx", IF s.started THEN "PAYLOAD" ELSE s.ft) EXCEPT
                    !.sid = s.sid, !.n = IF s.started THEN 0 ELSE s.n, !.C = IF last THEN s.C ELSE 0,
                    !.N = IF s.ft = "PAYLOAD" /\ s.ml + s.dl > 0 THEN 1 ELSE 0,
                    !.F = IF split THEN (IF last THEN 0 ELSE 1) ELSE s.F, !.ml = s.ml, !.dl = part,
                    !.dpid = IF s.dl > 0 THEN s.pid ELSE 0, !.doff = IF split THEN s.sd ELSE 0, !.code = s.code,
                    !.wl = 9 + part]
       IN Do(<<f>>)
    /\ UNCHANGED d

(* ---- the receiver of e takes the next frame from the link and reacts (DESIGN appendix A) ------------------------- *)
ProducerActive(role) == It.prod[role] /\ ~It.prodCancelled[role] /\ ~It.doneBy[role]

React(e, f) ==
    LET role == RoleOf(e)
        reg == Registered(e)
        sub == IF Has(mon.I, IID) THEN It.sig[role] ELSE "none"
    IN
    CASE f.ft = "REQUEST_RESPONSE" ->
            [evs |-> <<[App(e, "cb_request", "") EXCEPT !.kind = "rr", !.pid = IID, !.dl = 1],
                       [App(e, "app_producer", "resp") EXCEPT !.kind = "future", !.n = -1]>>, fin |-> FALSE, reg |-> TRUE]
      [] f.ft = "REQUEST_STREAM" ->
            [evs |-> <<[App(e, "cb_request", "") EXCEPT !.kind = "stream", !.pid = IID, !.dl = 1],
                       [App(e, "app_producer", "resp") EXCEPT !.n = IF LibSource THEN MaxElems ELSE -1, !.x = IF LibSource THEN 1 ELSE 0],
                       App(e, "cb_pub_subscribe", "resp"),
                       [App(e, "cb_pub_request", "resp") EXCEPT !.n = f.n]>>, fin |-> FALSE, reg |-> TRUE]
      [] f.ft = "REQUEST_CHANNEL" ->
            [evs |-> <<[App(e, "cb_request", "") EXCEPT !.kind = "channel", !.pid = IID, !.dl = 1],
                       [App(e, "app_producer", "resp") EXCEPT !.n = IF LibSource THEN MaxElems ELSE -1, !.x = IF LibSource THEN 1 ELSE 0],
                       App(e, "cb_subscribe", "resp"), App(e, "cb_pub_subscribe", "resp"),
                       [App(e, "cb_pub_request", "resp") EXCEPT !.n = f.n]>>
                     \o (IF f.C = 1 THEN <<App(e, "cb_complete", "resp")>> ELSE <<>>),
             fin |-> FALSE, reg |-> TRUE]
      [] ~reg -> [evs |-> <<>>, fin |-> FALSE, reg |-> FALSE]            \* frame for a stream no longer registered: dropped
      [] f.ft = "PAYLOAD" /\ Kind = "rr" ->
            \* response; if the future was cancelled meanwhile nothing is delivered (and nothing will be sent)
            [evs |-> IF It.fut = "pending" THEN <<[App(e, "cb_future", "") EXCEPT !.kind = "result", !.pid = f.dpid, !.dl = f.dl]>> ELSE <<>>,
             fin |-> TRUE, reg |-> TRUE]
      [] f.ft = "PAYLOAD" ->
            LET toSub == sub = "sub" /\ ~It.cancelled[role]
                evs1 == IF f.N = 1 /\ toSub THEN <<[App(e, "cb_next", role) EXCEPT !.pid = f.dpid, !.dl = f.dl, !.C = f.C]>>
                        ELSE IF f.C = 1 /\ toSub THEN <<App(e, "cb_complete", role)>> ELSE <<>>
                w == Wm(e)
            IN [evs |-> evs1, fin |-> f.C = 1 /\ (Kind = "stream" \/ w.ownDone \/ w.ownCut), reg |-> TRUE]
      [] f.ft = "ERROR" ->
            [evs |-> (IF Kind = "rr" THEN (IF It.fut = "pending" THEN <<[App(e, "cb_future", "") EXCEPT !.kind = "error", !.code = 513]>> ELSE <<>>)
                      ELSE IF sub = "sub" /\ ~It.cancelled[role] THEN <<[App(e, "cb_error", role) EXCEPT !.code = 513]>> ELSE <<>>)
                     \o (IF Kind = "channel" /\ ProducerActive(role) THEN <<App(e, "cb_pub_cancel", role)>> ELSE <<>>),
             fin |-> TRUE, reg |-> TRUE]
      [] f.ft = "CANCEL" /\ role = "resp" ->
            [evs |-> IF Kind = "rr" THEN (IF ~It.doneBy.resp THEN <<[App(e, "cb_resp_future_done", "resp") EXCEPT !.x = 1]>> ELSE <<>>)
                     ELSE IF ProducerActive("resp") THEN <<App(e, "cb_pub_cancel", "resp")>> ELSE <<>>,
             fin |-> TRUE, reg |-> TRUE]
      [] f.ft = "CANCEL" ->       \* a channel responder cancelled the requester's sending direction
            [evs |-> IF ProducerActive("req") THEN <<App(e, "cb_pub_cancel", "req")>> ELSE <<>>,
             fin |-> Wm(e).peerDone, reg |-> TRUE]
      [] f.ft = "REQUEST_N" ->
            [evs |-> IF ProducerActive(role) THEN <<[App(e, "cb_pub_request", role) EXCEPT !.n = f.n]>> ELSE <<>>, fin |-> FALSE, reg |-> TRUE]
      [] OTHER -> [evs |-> <<>>, fin |-> FALSE, reg |-> reg]

Deliver(e) ==
    /\ mon.L[e] # <<>>
    /\ Head(mon.L[e]).sid = SID           \* (with two interactions: the frame belongs to this one)
    /\ LET g == Head(mon.L[e])
           rx == [Frame(e, "rx", g.ft) EXCEPT !.sid = g.sid, !.n = g.n, !.C = g.C, !.N = g.N, !.F = g.F, !.M = g.M, !.ml = g.ml, !.dl = g.dl,
                                              !.mpid = g.mpid, !.moff = g.moff, !.dpid = g.dpid, !.doff = g.doff, !.code = g.code]
           \* the frame the receiver reacts to: the reassembled one (a fragment that `follows` is only put aside - registered stream or not)
           whole == IF g.F = 0 /\ g.doff > 0 THEN [rx EXCEPT !.dl = g.doff + g.dl, !.doff = 0] ELSE rx
           r == IF g.F = 1 THEN [evs |-> <<>>, fin |-> FALSE, reg |-> FALSE] ELSE React(e, whole)
       IN /\ Do(<<rx>> \o r.evs)
          /\ d' = [d EXCEPT !.reg[e] = IF r.fin THEN @ \ {SID} ELSE IF r.reg THEN @ \cup {SID} ELSE @]

(* ---- the responding application ----------------------------------------------------------------------------------- *)
Respond(err) ==         \* request-response handler future resolves
    /\ Kind = "rr" /\ Has(mon.I, IID) /\ It.prod.resp /\ ~It.doneBy.resp /\ ~It.prodCancelled.resp
    /\ LET pid == d.nextPid
           evs == IF err THEN <<[App(P, "app_respond", "") EXCEPT !.code = 513]>>
                          \o (IF Registered(P) THEN <<[Frame(P, "enq", "ERROR") EXCEPT !.code = 513]>> ELSE <<>>)
                  ELSE <<[App(P, "app_respond", "") EXCEPT !.pid = pid, !.dl = ElemLen]>>
                          \o (IF Registered(P) THEN <<[WithElem(Frame(P, "enq", "PAYLOAD"), pid) EXCEPT !.C = 1, !.N = 1]>> ELSE <<>>)
       IN /\ Do(evs)
          /\ d' = [Fin(P) EXCEPT !.nextPid = pid + 1]

CanEmit(role) ==
    /\ Kind # "rr" /\ Has(mon.I, IID) /\ ProducerActive(role) /\ d.elems[role] < MaxElems
    /\ (LibSource => (Has(mon.W[EpOf(role)], SID) /\ Wm(EpOf(role)).emitted < Wm(EpOf(role)).credit))

PubNext(role, complete) ==
    /\ CanEmit(role)
    /\ (LibSource => (complete = (d.elems[role] + 1 = MaxElems)))
    /\ LET e == EpOf(role)
           pid == d.nextPid
           w == Wm(e)
           live == Registered(e) /\ ~w.ownDone
           evs == <<[App(e, "app_pub_next", role) EXCEPT !.pid = pid, !.dl = ElemLen, !.C = IF complete THEN 1 ELSE 0]>>
                  \o (IF live THEN <<[WithElem(Frame(e, "enq", "PAYLOAD"), pid) EXCEPT !.N = 1, !.C = IF complete THEN 1 ELSE 0]>> ELSE <<>>)
           fin == live /\ complete /\ (Kind = "stream" \/ w.peerDone \/ w.peerCut)
       IN /\ Do(evs)
          /\ d' = [(IF fin THEN Fin(e) ELSE d) EXCEPT !.nextPid = pid + 1, !.elems[role] = @ + 1]

PubComplete(role) ==
    /\ ~LibSource
    /\ Kind # "rr" /\ Has(mon.I, IID) /\ ProducerActive(role)
    /\ LET e == EpOf(role)
           w == Wm(e)
           live == Registered(e) /\ ~w.ownDone
           evs == <<App(e, "app_pub_complete", role)>> \o (IF live THEN <<[Frame(e, "enq", "PAYLOAD") EXCEPT !.C = 1]>> ELSE <<>>)
           fin == live /\ (Kind = "stream" \/ w.peerDone \/ w.peerCut)
       IN /\ Do(evs)
          /\ d' = IF fin THEN Fin(e) ELSE d

PubError(role) ==
    /\ ~LibSource
    /\ Kind # "rr" /\ Has(mon.I, IID) /\ ProducerActive(role)
    /\ LET e == EpOf(role)
           live == Registered(e) /\ ~Wm(e).ownDone
           \* an error terminates the whole interaction: the local subscriber of a channel is told too
           evs == <<[App(e, "app_pub_error", role) EXCEPT !.code = 513]>>
                  \o (IF live THEN <<[Frame(e, "enq", "ERROR") EXCEPT !.code = 513]>> ELSE <<>>)
       IN /\ Do(evs)
          /\ d' = IF live /\ ~(AsImplemented /\ Kind = "channel") THEN Fin(e) ELSE d

(* ---- the subscribing application ------------------------------------------------------------------------------------ *)
SubRequestN(role, n) ==
    /\ Kind # "rr" /\ Has(mon.I, IID) /\ It.sig[role] = "sub" /\ ~It.cancelled[role] /\ d.grants[role] < MaxGrants
    /\ (role = "resp" => Kind = "channel")
    /\ LET e == EpOf(role)
           live == IF AsImplemented /\ Kind = "channel" THEN Registered(e) /\ ~Wm(e).peerDone
                   ELSE Registered(e) /\ ~Terminated(Wm(e)) /\ ~Wm(e).peerDone
           evs == IF live THEN <<[App(e, "app_request_n", role) EXCEPT !.n = n]>> \o <<[Frame(e, "enq", "REQUEST_N") EXCEPT !.n = n]>>
                  ELSE <<>>       \* request(n) on a finished stream puts nothing on the wire
       IN /\ live
          /\ Do(evs)
          /\ d' = [d EXCEPT !.grants[role] = @ + 1]

SubCancel(role) ==
    /\ Kind # "rr" /\ Has(mon.I, IID) /\ It.sig[role] = "sub" /\ ~It.cancelled[role]
    /\ (role = "resp" => Kind = "channel")
    /\ LET e == EpOf(role)
           live == Registered(e) /\ ~Terminated(Wm(e))
           ownPub == Kind = "channel" /\ role = "req" /\ ProducerActive("req") /\ ~AsImplemented
           evs == <<App(e, "app_cancel", role)>>
                  \o (IF live THEN <<Frame(e, "enq", "CANCEL")>> ELSE <<>>)
                  \o (IF live /\ ownPub THEN <<App(e, "cb_pub_cancel", "req")>> ELSE <<>>)
           w == Wm(e)
           fin == live /\ (IF AsImplemented /\ Kind = "channel" THEN w.ownDone \/ w.ownCut ELSE (role = "req" \/ w.ownDone \/ w.ownCut))
       IN /\ Do(evs)
          /\ d' = IF fin THEN Fin(e) ELSE d

(* request-response: future.cancel() and, LATER, its done-callback (a response can arrive in between) *)
FutCancel ==
    /\ Kind = "rr" /\ Has(mon.I, IID) /\ It.fut = "pending" /\ ~d.futCancelPending
    /\ Do(<<App(R, "app_fut_cancel", ""), [App(R, "cb_future", "") EXCEPT !.kind = "cancelled", !.code = -2]>>)
    /\ d' = [d EXCEPT !.futCancelPending = TRUE]

FutCancelCallback ==
    /\ d.futCancelPending
    /\ Do(IF Registered(R) THEN <<Frame(R, "enq", "CANCEL")>> ELSE <<>>)
    /\ d' = [Fin(R) EXCEPT !.futCancelPending = FALSE]

(* ---- quiescence: nothing queued, nothing in flight, no callback pending ------------------------------------------------ *)
SetToSeq(S) == IF S = {} THEN <<>> ELSE <<SID>>
Quiesce ==
    /\ d.phase = "open" /\ ~d.futCancelPending
    /\ \A e \in E : mon.Q[e] = <<>> /\ mon.L[e] = <<>>
    /\ (LibSource => \A role \in {"req", "resp"} : ~CanEmit(role))      \* library sources run to the end of their credit
    /\ Do(<<[Ev0 EXCEPT !.ep = "c", !.ev = "quiesce", !.pid = 3, !.streams = SetToSeq(d.reg["c"])],
            [Ev0 EXCEPT !.ep = "s", !.ev = "quiesce", !.pid = 3, !.streams = SetToSeq(d.reg["s"])]>>)
    /\ UNCHANGED d

MNext == \/ \E n \in Credits : AppOpen(n)
         \/ \E e \in E : SenderStep(e) \/ Deliver(e)
         \/ \E err \in BOOLEAN : Respond(err)
         \/ \E role \in {"req", "resp"} : \/ \E c \in BOOLEAN : PubNext(role, c)
                                          \/ PubComplete(role) \/ PubError(role) \/ SubCancel(role)
                                          \/ \E n \in Credits : SubRequestN(role, n)
         \/ FutCancel \/ FutCancelCallback
         \/ Quiesce

MSpec == MInit /\ [][MNext]_mcvars

(* ---- what TLC checks ------------------------------------------------------------------------------------------------------ *)
NoClauseFails == viol = {}

IsPrefix(a, b) == Len(a) <= Len(b) /\ \A k \in 1..Len(a) : a[k] = b[k]

(* C01: what has been delivered to a subscriber is always a prefix of what the peer's application handed, in order *)
DeliveredIsPrefixOfHanded ==
    Has(mon.I, IID) => \A role \in {"req", "resp"} : IsPrefix(It.deliv[role], It.handed[Opp(role)])

(* C06: a publisher's elements on the wire never exceed the credit its endpoint has received (scripted publishers in this model
   obey their subscription: PubNext is the application's choice, so this is checked for the credit-respecting variant only) *)
TypeOK == d.phase \in {"idle", "open"} /\ viol \subseteq STRING

(* C07: at most one terminal signal per subscriber / the future resolves once - enforced by the clauses; restated on the history *)
FutureOnce == Has(mon.I, IID) /\ Kind = "rr" => It.fut \in {"pending", "done"}

(* control (must be REFUTED with Frag > 0: the model does reach it): the last fragment of a frame arrives at an endpoint that has
   meanwhile finished the stream (it cancelled between the two fragments) *)
FragmentNeverOrphaned ==
    \A e \in E : ~(mon.L[e] # <<>> /\ Head(mon.L[e]).sid = SID /\ Head(mon.L[e]).F = 0 /\ Head(mon.L[e]).doff > 0 /\ ~Registered(e))

(* C10: once both endpoints consider the interaction terminated and everything is drained, nothing stays registered *)
NothingRetained ==
    (d.phase = "open" /\ \A e \in E : mon.Q[e] = <<>> /\ mon.L[e] = <<>> /\ ~d.futCancelPending) =>
        \A e \in E : (Has(mon.W[e], SID) /\ Terminated(mon.W[e][SID])) => SID \notin d.reg[e]
=============================================================================
