SPECIFICATION Spec
CONSTANTS MaxProbes = 2
          MaxPends = 1
          MaxHandles = 2
          MaxCuts = 1
          MaxRaces = 2
          MaxCloses = 3
          Js = {0, 1, 2, 3, 4, 5, 6, 7, 8, 10, 12}
INVARIANT CloseOnce
INVARIANT NothingPendingOnDeadConnection
INVARIANT TransportClosedByClose
INVARIANT Accounted
INVARIANT WaitsOnlyOnDeadConnection
