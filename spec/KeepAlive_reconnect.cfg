SPECIFICATION Spec
CONSTANTS P = 2
          L = 3
          MaxClock = 10
          MaxPeerKa = 1
          MaxReconnects = 1
          MaxFaults = 0
          MaxBlocks = 1
INVARIANT TypeOK
INVARIANT NoFalseTimeout
INVARIANT TimeoutDetected
INVARIANT Periodic
INVARIANT EchoExactlyOnce
INVARIANT NoEchoWithoutFlag
INVARIANT AtMostOneFrameAfterDead
INVARIANT DeadClientClosesAtNextInput
INVARIANT CloseAtMostOnce
