SPECIFICATION Spec
CONSTANTS
  Lens <- DefaultLens
  MaxRead = 64
INVARIANT ChunkingIndependent
INVARIANT NothingHeldBack
INVARIANT NoOverrun
