-------------------------- MODULE StreamIdsScale --------------------------
(***************************************************************************)
(* The allocation step of StreamIds.tla at the REAL 31-bit scale, checked   *)
(* SYMBOLICALLY (Apalache): for every position `last` of the allocator's    *)
(* parity in 0 .. 2^31-1 and EVERY set of at most K active ids anywhere in  *)
(* the 31-bit space, the id handed out by the algorithm - step by two, wrap *)
(* by masking, skip 0 and ids in use - is never 0, has the endpoint's       *)
(* parity, is not active, and is the FIRST free id after `last` in wrap-    *)
(* around order.  With at most K ids in use the scan needs at most K + 2    *)
(* probes (one more for the reserved id 0), so the loop is unrolled K + 2   *)
(* times; TLC checks the same algorithm exhaustively on the reduced spaces  *)
(* (StreamIds.tla), where the give-up bound matters.                        *)
(*                                                                         *)
(*   apalache-mc check --init=ScaleInit --next=ScaleNext --inv=ScaleInv    *)
(*                     --length=1 StreamIdsScale.tla                        *)
(***************************************************************************)
EXTENDS Integers, FiniteSets, Apalache

Mod == 2147483648          \* 2^31
K == 4                     \* ids in use (of either parity)

VARIABLES
    \* @type: Int;
    last,
    \* @type: Set(Int);
    active,
    \* @type: Int;
    parity,
    \* @type: Int;
    res

\* one probe of the loop: the next candidate
\* @type: (Int) => Int;
Nxt(cur) == (cur + 2) % Mod
\* @type: (Int, Set(Int)) => Bool;
Free(i, act) == i # 0 /\ i \notin act

\* the scan, unrolled K + 2 times (an id is returned as soon as it is free)
\* @type: (Int, Set(Int)) => Int;
Alloc(cur, act) ==
    LET c1 == Nxt(cur) IN IF Free(c1, act) THEN c1 ELSE
    LET c2 == Nxt(c1) IN IF Free(c2, act) THEN c2 ELSE
    LET c3 == Nxt(c2) IN IF Free(c3, act) THEN c3 ELSE
    LET c4 == Nxt(c3) IN IF Free(c4, act) THEN c4 ELSE
    LET c5 == Nxt(c4) IN IF Free(c5, act) THEN c5 ELSE
    LET c6 == Nxt(c5) IN IF Free(c6, act) THEN c6 ELSE -1

ScaleInit ==
    /\ parity \in {0, 1}
    /\ last \in 0 .. (Mod - 1) /\ last % 2 = parity
    /\ active = Gen(K) /\ \A i \in active : i \in 1 .. (Mod - 1)
    /\ res = -2

ScaleNext ==
    /\ res' = Alloc(last, active)
    /\ UNCHANGED <<last, active, parity>>

\* the k-th candidate after `last` in wrap-around order
\* @type: (Int) => Int;
Cand(k) == (last + 2 * k) % Mod

ScaleInv ==
    res # -2 =>
        /\ res # -1                                   \* with at most K ids in use there is always a free one within K + 2 probes
        /\ res # 0 /\ res % 2 = parity /\ res \notin active /\ res \in 1 .. (Mod - 1)
        \* the FIRST free candidate: every earlier candidate is 0 or in use
        /\ \E k \in 1 .. (K + 2) : /\ res = Cand(k)
                                   /\ \A j \in 1 .. (K + 2) : j < k => (Cand(j) = 0 \/ Cand(j) \in active)

\* control: must be REFUTED (the allocator does hand out id 2 right after the wrap point) - shows the check is not vacuous
ScaleNeverWraps == res # -2 => ~(res = 2 /\ last = Mod - 2)
=============================================================================
