SPECIFICATION Spec
INVARIANT Contained
INVARIANT LegalIsHandled
INVARIANT DuplicateRejected
INVARIANT UnknownDropped
INVARIANT ReactionFramesLegal
INVARIANT Unregisters
INVARIANT ReassemblyTransparent
INVARIANT Emit
