---------------------------- MODULE Demand ----------------------------
(***************************************************************************)
(* The demand side of the library's front ends, in isolation: a subscriber  *)
(* with a request limit L receives the elements of one stream from a legal  *)
(* publisher (never more than requested) and hands them to the              *)
(* application's observer / result list.                                    *)
(*                                                                         *)
(*  rsocket/reactivex/from_rsocket_publisher.py  (and rx_support/...)       *)
(*     from_rsocket_publisher(publisher, L): RxSubscriber + two tasks: one   *)
(*       subscribes (so the subscription only exists once the loop has run), *)
(*       one waits for `get_next_n` and calls request(L) - ASYNCHRONOUSLY:   *)
(*       the batch is asked for when the loop runs next (AsyncTrigger)       *)
(*     RxSubscriberFromObserver(observer, L): handler side of a channel;     *)
(*       request(L) from on_subscribe and again, synchronously, after every  *)
(*       L-th element                                                        *)
(*  rsocket/awaitable/collector_subscriber.py CollectorSubscriber(L)         *)
(*       behind AwaitableRSocket.request_stream / request_channel: same,     *)
(*       synchronously; the initial L comes from initial_request_n(L)        *)
(*                                                                         *)
(* The first L is part of the request (initial_request_n) for the client     *)
(* front ends (InitialFromRequest) and a request(L) for the handler side.    *)
(* AS IMPLEMENTED, named: an element flagged complete never triggers a new   *)
(* batch; a completion signalled separately after the L-th element finds the *)
(* batch already asked for (sync) or still owed (async: the terminal signal  *)
(* disposes the result, which cancels the trigger task - nothing is asked    *)
(* for after the end; `lateReq` stays 0).                                    *)
(***************************************************************************)
EXTENDS Naturals, Sequences, FiniteSets, TLC

CONSTANTS Ls,                \* request limits
          Ns,                \* numbers of elements the stream holds
          Endings,           \* "flag": last element flagged complete; "complete": separate signal; "error": error after the N elements
          AsyncTrigger,      \* batches are asked for by a task (client adapters)
          InitialFromRequest,\* the first L travels with the request frame (initial_request_n)
          CanDispose         \* the application can dispose the result (client adapters)

VARIABLE d
vars == <<d>>

Init == d = [lim |-> 0, cnt |-> 0, ending |-> "none",      \* chosen by Configure
             sub |-> "unconfigured",\* "no" | "starting" (subscribe task not run yet) | "yes"
             initial |-> 0,         \* initial_request_n given to the request
             reqs |-> <<>>,         \* request(n) calls on the subscription, in order
             recv |-> 0,            \* elements the publisher handed over
             out |-> 0,             \* elements handed to the application
             owed |-> FALSE,        \* a batch boundary was reached, the trigger task has not run yet
             term |-> "none",       \* what the publisher signalled
             appTerm |-> "none",    \* what the application was told
             disposed |-> FALSE, cancels |-> 0, lateReq |-> 0]

Sum(q) == LET RECURSIVE S(_) S(x) == IF x = <<>> THEN 0 ELSE Head(x) + S(Tail(x)) IN S(q)
Requested == d.initial + Sum(d.reqs)
Outstanding == Requested - d.recv
Live == d.sub = "yes" /\ d.term = "none" /\ ~d.disposed

L == d.lim
N == d.cnt
Ending == d.ending
Configure(l, n, e) == d.sub = "unconfigured" /\ d' = [d EXCEPT !.lim = l, !.cnt = n, !.ending = e, !.sub = "no"]

Subscribe ==
    /\ d.sub = "no"
    /\ d' = [d EXCEPT !.sub = IF AsyncTrigger THEN "starting" ELSE "yes",
                      !.initial = IF InitialFromRequest THEN L ELSE 0,
                      !.reqs = IF InitialFromRequest THEN <<>> ELSE <<L>>]

(* the loop runs: the subscribe task subscribes; the trigger task asks for the batch that is owed *)
Run ==
    /\ AsyncTrigger /\ (d.sub = "starting" \/ d.owed)
    /\ d' = [d EXCEPT !.sub = IF @ = "starting" /\ ~d.disposed THEN "yes" ELSE @,
                      !.owed = FALSE,
                      !.reqs = IF d.owed /\ ~d.disposed /\ d.term = "none" THEN Append(@, L) ELSE @]
                      \* (a terminal signal disposes the result observable, which cancels the trigger task: nothing is asked for)

(* the publisher hands over the next element (only within what was requested) *)
Next ==
    /\ Live /\ d.recv < N /\ Outstanding > 0
    /\ LET k == d.recv + 1
           flagged == (k = N /\ Ending = "flag")
           boundary == (k % L = 0) /\ ~flagged
       IN d' = [d EXCEPT !.recv = k, !.out = k,
                         !.term = IF flagged THEN "complete" ELSE @,
                         !.appTerm = IF flagged THEN "complete" ELSE @,
                         !.reqs = IF boundary /\ ~AsyncTrigger THEN Append(@, L) ELSE @,
                         !.owed = IF boundary /\ AsyncTrigger THEN TRUE ELSE @]

Complete == Live /\ d.recv = N /\ Ending = "complete" /\ d' = [d EXCEPT !.term = "complete", !.appTerm = "complete"]
Error == Live /\ d.recv = N /\ Ending = "error" /\ d' = [d EXCEPT !.term = "error", !.appTerm = "error"]

(* the application disposes the result: exactly one cancel() if the stream is live, nothing more reaches the application *)
Dispose ==
    /\ CanDispose /\ d.sub \in {"starting", "yes"} /\ ~d.disposed
    /\ d' = [d EXCEPT !.disposed = TRUE,
                      !.cancels = IF d.sub = "yes" /\ d.term = "none" THEN @ + 1 ELSE @]

Next_ == (\E l \in Ls, n \in Ns, e \in Endings : Configure(l, n, e)) \/ Subscribe \/ Run \/ Next \/ Complete \/ Error \/ Dispose
Spec == Init /\ [][Next_]_vars

----------------------------------------------------------------------------
Quiet == ~(AsyncTrigger /\ (d.sub = "starting" \/ d.owed))
(* C20: the request limit bounds how many elements are requested at a time *)
BatchIsLimit == d.sub = "unconfigured" \/ (d.initial \in {0, L} /\ \A i \in 1..Len(d.reqs) : d.reqs[i] = L)
OutstandingWithinLimit == Outstanding <= L /\ Outstanding >= 0
(* C20 / C06: the stream does not stall: a live stream at quiescence has demand outstanding *)
NoStall == Quiet /\ Live => Outstanding > 0
(* C20: element for element, terminal kind preserved *)
Transparent == ~d.disposed => d.out = d.recv /\ d.appTerm = d.term
(* C09: disposing a live stream cancels it exactly once; a finished one is not cancelled *)
CancelOnce == d.cancels <= 1 /\ (d.cancels = 1 => d.disposed)
NoRequestAfterTerminal == d.lateReq = 0
=============================================================================
