------------------------- MODULE ServerLifecycle -------------------------
(***************************************************************************)
(* The life cycle of ONE server-side connection (rsocket/rsocket_server.py *)
(* RSocketServer over RSocketBase) as the server application sees it:      *)
(*                                                                         *)
(*   close()       : tasks stopped - the receiver, cancelled, runs          *)
(*                   stop_all_streams (what the server requested fails,     *)
(*                   what it was producing is cancelled) and on_close -,    *)
(*                   then the transport is closed                           *)
(*   client gone   : orderly EOF or a transport error: the receiver ends by  *)
(*                   itself: stop_all_streams, on_close, tasks stopped; the  *)
(*                   transport is closed at once after an EOF, AS            *)
(*                   IMPLEMENTED only by the application's close() after an  *)
(*                   error                                                   *)
(*   requests      : the server asks the client (answered / left pending),   *)
(*                   the client asks the server (handler future pending)     *)
(*                                                                         *)
(* and RACES: Race(a, j) = the application calls close(), j loop iterations  *)
(* later `a` happens (a request either way, the loss of the link, a second   *)
(* close()).  The only outcomes allowed are the two serial orders.           *)
(* AS IMPLEMENTED, named: a request the server application makes on a        *)
(* connection that has ended is never answered and never fails (`hung`).     *)
(***************************************************************************)
EXTENDS Naturals, Sequences, FiniteSets, TLC

CONSTANTS MaxProbes, MaxPends, MaxHandles, MaxCuts, MaxRaces, MaxCloses,
          Js          \* numbers of loop iterations after which the racing event happens

VARIABLE k
vars == <<k>>

Init == k = [up |-> TRUE, topen |-> TRUE, appClosed |-> FALSE,
             closeCbs |-> 0,      \* on_close callbacks of the server endpoint
             tclosed |-> 0,       \* times the server closed its transport
             answered |-> 0,      \* server requests that got a response or a connection error
             hung |-> 0,          \* server requests made on a dead connection: never settled
             pending |-> 0,       \* server requests the client has not answered yet
             handling |-> 0,      \* client requests whose handler future is pending at the server
             cancelled |-> 0,     \* handler futures the server cancelled
             probes |-> 0, pends |-> 0, handles |-> 0, cuts |-> 0, races |-> 0, closes |-> 0]

ProbeF(s) == IF s.up THEN [s EXCEPT !.answered = @ + 1, !.probes = @ + 1] ELSE [s EXCEPT !.hung = @ + 1, !.probes = @ + 1]
PendF(s) == IF s.up THEN [s EXCEPT !.pending = @ + 1, !.pends = @ + 1] ELSE [s EXCEPT !.hung = @ + 1, !.pends = @ + 1]
(* a request of the client reaches the handler only while the connection is up *)
HandleF(s) == IF s.up THEN [s EXCEPT !.handling = @ + 1, !.handles = @ + 1] ELSE [s EXCEPT !.handles = @ + 1]
Down(s) == [s EXCEPT !.up = FALSE, !.closeCbs = @ + 1, !.answered = @ + s.pending, !.pending = 0,
                     !.cancelled = @ + s.handling, !.handling = 0]
(* orderly EOF from the client: the transport is closed at once.  A transport ERROR (here: while writing) ends the connection as
   well, but AS IMPLEMENTED the server closes that transport only when the application calls close() *)
CutF(s) == IF s.up THEN [Down(s) EXCEPT !.cuts = @ + 1, !.topen = FALSE, !.tclosed = @ + 1] ELSE [s EXCEPT !.cuts = @ + 1]
CutErrF(s) == IF s.up THEN [Down(s) EXCEPT !.cuts = @ + 1] ELSE [s EXCEPT !.cuts = @ + 1]
CloseF(s) == LET d == IF s.up THEN Down(s) ELSE s
             IN [d EXCEPT !.appClosed = TRUE, !.closes = @ + 1, !.topen = FALSE, !.tclosed = IF s.topen THEN @ + 1 ELSE @]

Probe == k.probes < MaxProbes /\ k' = ProbeF(k)
Pend == k.pends < MaxPends /\ k' = PendF(k)
Handle == k.handles < MaxHandles /\ k.up /\ k' = HandleF(k)
Cut == k.cuts < MaxCuts /\ k.up /\ k' = CutF(k)            \* the client's side of the link ends in an orderly way
CutErr == k.cuts < MaxCuts /\ k.up /\ k' = CutErrF(k)         \* ... or the server's write fails
Close == k.closes < MaxCloses /\ k' = CloseF(k)

F(a, s) == CASE a = "probe" -> ProbeF(s) [] a = "pend" -> PendF(s) [] a = "handle" -> HandleF(s) [] a = "cut" -> CutF(s)
             [] a = "cuterr" -> CutErrF(s) [] a = "close" -> CloseF(s)

Race(a, j) ==
    /\ k.races < MaxRaces /\ k.closes < MaxCloses
    /\ (a = "probe" => k.probes < MaxProbes) /\ (a = "pend" => k.pends < MaxPends)
    /\ (a = "handle" => k.handles < MaxHandles /\ k.up)
    /\ (a \in {"cut", "cuterr"} => k.cuts < MaxCuts /\ k.up)
    /\ (a = "close" => k.closes + 1 < MaxCloses)
    /\ LET r == [k EXCEPT !.races = @ + 1]
       IN k' \in {F("close", F(a, r)), F(a, F("close", r))}

Next == Probe \/ Pend \/ Handle \/ Cut \/ CutErr \/ Close
        \/ \E a \in {"probe", "pend", "handle", "cut", "cuterr", "close"}, j \in Js : Race(a, j)
Spec == Init /\ [][Next]_vars

----------------------------------------------------------------------------
(* C11: the close notification is delivered exactly once, when the connection ends *)
CloseOnce == k.closeCbs <= 1 /\ (~k.up <=> k.closeCbs = 1)
(* C11: whatever was pending when the connection ended has been failed, whatever was being produced has been cancelled *)
NothingPendingOnDeadConnection == ~k.up => k.pending = 0 /\ k.handling = 0
(* C11: once close() has returned the transport is closed, exactly once *)
TransportClosedByClose == k.tclosed <= 1 /\ (k.topen <=> k.tclosed = 0) /\ (k.appClosed => k.tclosed = 1 /\ ~k.up)
Accounted == k.answered + k.hung + k.pending = k.probes + k.pends
WaitsOnlyOnDeadConnection == k.hung > 0 => ~k.up
=============================================================================
