SPECIFICATION Spec
INVARIANT RoundTrip
INVARIANT Lengths
INVARIANT Emit
