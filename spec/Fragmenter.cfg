SPECIFICATION Spec
CONSTANTS Types = {"PAYLOAD", "REQUEST_RESPONSE", "REQUEST_FNF", "REQUEST_STREAM", "REQUEST_CHANNEL"}
          MaxMd = 3
          MaxD = 3
          Limits = {5, 6, 7}
          Prefixes = {0, 1}
INVARIANT TypeOK
INVARIANT ReassemblesExactly
INVARIANT NoEarlyDelivery
INVARIANT PlanShape
INVARIANT CanAlwaysProceed
