----------------------------- MODULE RSocketMC2 -----------------------------
(***************************************************************************)
(* Two interactions side by side on one connection: the design model       *)
(* RSocketMC instantiated twice (slot 0 = A, slot 1 = B) over the SAME     *)
(* monitors, send queues and link.  The sender and the link are shared, so *)
(* TLC interleaves the frames of the two streams in every possible way;    *)
(* every event still goes through RSocket!Step.  Checked: no clause fails  *)
(* (in particular C01.correlation / deliver_is_next: nothing of one        *)
(* interaction reaches the other; C09: cancelling one does not disturb the *)
(* other; C10: both are released), and the per-interaction invariants.     *)
(***************************************************************************)
EXTENDS RSocket

CONSTANTS KindA, InitA, KindB, InitB, MaxElems, Credits, MaxGrants, HasPub, LibSource, Frag

VARIABLES mon, viol, dA, dB
vars2 == <<mon, viol, dA, dB>>

A == INSTANCE RSocketMC WITH Kind <- KindA, Init_ <- InitA, Slot <- 0, SidOff <- 0, AsImplemented <- FALSE, d <- dA
B == INSTANCE RSocketMC WITH Kind <- KindB, Init_ <- InitB, Slot <- 1, SidOff <- (IF InitA = InitB THEN 2 ELSE 0), AsImplemented <- FALSE, d <- dB

Init2 == /\ mon = A!Mon0 /\ viol = {} /\ dA = A!D0 /\ dB = B!D0

AOpen(n) == A!AppOpen(n) /\ UNCHANGED dB
BOpen(n) == B!AppOpen(n) /\ UNCHANGED dA /\ (InitA = InitB => dA.phase # "idle")
ADeliver(e) == A!Deliver(e) /\ UNCHANGED dB
BDeliver(e) == B!Deliver(e) /\ UNCHANGED dA
ARespond(err) == A!Respond(err) /\ UNCHANGED dB
BRespond(err) == B!Respond(err) /\ UNCHANGED dA
APubNext(role, c) == A!PubNext(role, c) /\ UNCHANGED dB
BPubNext(role, c) == B!PubNext(role, c) /\ UNCHANGED dA
APubComplete(role) == A!PubComplete(role) /\ UNCHANGED dB
BPubComplete(role) == B!PubComplete(role) /\ UNCHANGED dA
APubError(role) == A!PubError(role) /\ UNCHANGED dB
BPubError(role) == B!PubError(role) /\ UNCHANGED dA
ASubCancel(role) == A!SubCancel(role) /\ UNCHANGED dB
BSubCancel(role) == B!SubCancel(role) /\ UNCHANGED dA
ASubRequestN(role, n) == A!SubRequestN(role, n) /\ UNCHANGED dB
BSubRequestN(role, n) == B!SubRequestN(role, n) /\ UNCHANGED dA
AFutCancel == A!FutCancel /\ UNCHANGED dB
BFutCancel == B!FutCancel /\ UNCHANGED dA
AFutCancelCallback == A!FutCancelCallback /\ UNCHANGED dB
BFutCancelCallback == B!FutCancelCallback /\ UNCHANGED dA

Send(e) == A!SenderStep(e) /\ UNCHANGED dB      \* (the sender is shared: it writes the oldest queued frame, whichever stream it is)
\* with fragmentation the sender may serve either stream: the fragments of the two streams interleave in every way
SendOf(e, sid) == Frag > 0 /\ A!SenderStepOf(e, sid) /\ UNCHANGED dB

Seq2(S) == IF S = {} THEN <<>>
           ELSE LET a == CHOOSE x \in S : \A y \in S : x <= y
                IN IF S = {a} THEN <<a>> ELSE <<a, CHOOSE y \in S : y # a>>

Quiesce2 ==
    /\ (dA.phase = "open" \/ dB.phase = "open") /\ ~dA.futCancelPending /\ ~dB.futCancelPending
    /\ \A e \in E : mon.Q[e] = <<>> /\ mon.L[e] = <<>>
    /\ (LibSource => \A role \in {"req", "resp"} : ~A!CanEmit(role) /\ ~B!CanEmit(role))
    /\ A!Do(<<[A!Ev0 EXCEPT !.ep = "c", !.ev = "quiesce", !.pid = 3, !.streams = Seq2(dA.reg["c"] \cup dB.reg["c"])],
              [A!Ev0 EXCEPT !.ep = "s", !.ev = "quiesce", !.pid = 3, !.streams = Seq2(dA.reg["s"] \cup dB.reg["s"])]>>)
    /\ UNCHANGED <<dA, dB>>

Next2 == \/ \E n \in Credits : AOpen(n)
         \/ \E n \in Credits : BOpen(n)
         \/ \E e \in E : ADeliver(e)
         \/ \E e \in E : BDeliver(e)
         \/ \E err \in BOOLEAN : ARespond(err)
         \/ \E err \in BOOLEAN : BRespond(err)
         \/ \E role \in {"req", "resp"}, c \in BOOLEAN : APubNext(role, c)
         \/ \E role \in {"req", "resp"}, c \in BOOLEAN : BPubNext(role, c)
         \/ \E role \in {"req", "resp"} : APubComplete(role)
         \/ \E role \in {"req", "resp"} : BPubComplete(role)
         \/ \E role \in {"req", "resp"} : APubError(role)
         \/ \E role \in {"req", "resp"} : BPubError(role)
         \/ \E role \in {"req", "resp"} : ASubCancel(role)
         \/ \E role \in {"req", "resp"} : BSubCancel(role)
         \/ \E role \in {"req", "resp"}, n \in Credits : ASubRequestN(role, n)
         \/ \E role \in {"req", "resp"}, n \in Credits : BSubRequestN(role, n)
         \/ AFutCancel
         \/ BFutCancel
         \/ AFutCancelCallback
         \/ BFutCancelCallback
         \/ \E e \in E : Send(e)
         \/ \E e \in E, sid \in {A!SID, B!SID} : SendOf(e, sid)
         \/ Quiesce2

Spec2 == Init2 /\ [][Next2]_vars2

NoClauseFails == viol = {}
DeliveredIsPrefixOfHanded == A!DeliveredIsPrefixOfHanded /\ B!DeliveredIsPrefixOfHanded
FutureOnce == A!FutureOnce /\ B!FutureOnce
NothingRetained == A!NothingRetained /\ B!NothingRetained
=============================================================================
