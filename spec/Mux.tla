------------------------------- MODULE Mux -------------------------------
(***************************************************************************)
(* The send path of one endpoint and the reassembly path of its peer.      *)
(*                                                                         *)
(* rsocket/rsocket_base.py:                                                *)
(*   send_frame            -> Enq        (put_nowait at the tail)          *)
(*   send_priority_frame   -> EnqSetup   (SETUP: re-built queue, at head)  *)
(*   _get_next_frame_to_send + _cycle_send_queue -> Send                   *)
(*       peek the head; a fragmentable source yields its next fragment;    *)
(*       while `follows` is set the source is moved behind the items of    *)
(*       OTHER streams but stays ahead of the items of ITS OWN stream;     *)
(*       after the last fragment (or for a plain frame) the head is popped *)
(* rsocket/fragment.py / frame_fragment_cache.py (peer):                    *)
(*   FrameFragmentCache.append -> Recv   (per-stream accumulation; the     *)
(*       frame is complete with the first fragment without `follows`)      *)
(*                                                                         *)
(* One action per critical section of the code.  CycleMode names the       *)
(* discipline: "own_stream_last" is what the code does; "naive" (move the  *)
(* source to the very end) is the discipline the code had before fix       *)
(* c39cf4d and is kept as a named deviation: TLC refutes PerStreamOrder    *)
(* for it (Mux_naive.cfg), which shows the invariants are not vacuous.     *)
(***************************************************************************)
EXTENDS Naturals, Sequences, FiniteSets, TLC

CONSTANTS Streams,      \* stream ids that queue frames (0: connection-level frames - KEEPALIVE, LEASE - which never fragment; SETUP is apart)
          MaxFrames,    \* frames queued in total
          FragCounts,   \* possible numbers of fragments of a queued frame (1 = fits / not fragmentable)
          CycleMode,    \* "own_stream_last" | "naive"
          WithSetup     \* BOOLEAN: the endpoint is a client whose connect() queues SETUP with priority

VARIABLES q,        \* the send queue: sequence of sources [sid, fid, total, sent]
          wire,     \* every fragment written so far: [sid, fid, idx, follows]
          rpos,     \* number of fragments the peer has consumed
          cache,    \* peer: per stream, the fragments accumulated so far
          out,      \* peer: reassembled frames, each a sequence of fragments
          enq,      \* history: <<sid, fid, total>> in queueing order
          nextFid,
          setup     \* "none" | "queued" | "sent"
vars == <<q, wire, rpos, cache, out, enq, nextFid, setup>>

AllSids == Streams \cup {0}

Init == /\ q = <<>> /\ wire = <<>> /\ rpos = 0
        /\ cache = [s \in AllSids |-> <<>>]
        /\ out = <<>> /\ enq = <<>> /\ nextFid = 1
        /\ setup = "none"

(* the application (or a stream handler) queues a frame for stream s that will take k fragments *)
Enq(s, k) ==
    /\ nextFid <= MaxFrames
    /\ (s = 0 => k = 1)
    /\ q' = Append(q, [sid |-> s, fid |-> nextFid, total |-> k, sent |-> 0])
    /\ enq' = Append(enq, <<s, nextFid, k>>)
    /\ nextFid' = nextFid + 1
    /\ UNCHANGED <<wire, rpos, cache, out, setup>>

(* connect(): SETUP jumps the queue.  The sender task is started by the same connect() call and has not run yet. *)
EnqSetup ==
    /\ WithSetup /\ setup = "none" /\ wire = <<>>
    /\ q' = <<[sid |-> 0, fid |-> 0, total |-> 1, sent |-> 0]>> \o q
    /\ setup' = "queued"
    /\ UNCHANGED <<wire, rpos, cache, out, enq, nextFid>>

Others(h, rest) == SelectSeq(rest, LAMBDA x : x.sid # h.sid)
Same(h, rest)   == SelectSeq(rest, LAMBDA x : x.sid = h.sid)

(* one iteration of the sender loop *)
Send ==
    /\ q # <<>>
    /\ (WithSetup => setup # "none")          \* a client's sender only exists after connect()
    /\ LET h == Head(q)
           idx == h.sent + 1
           follows == idx < h.total
           h2 == [h EXCEPT !.sent = idx]
       IN /\ wire' = Append(wire, [sid |-> h.sid, fid |-> h.fid, idx |-> idx, follows |-> follows])
          /\ q' = IF ~follows THEN Tail(q)
                  ELSE IF CycleMode = "naive" THEN Append(Tail(q), h2)
                  ELSE Others(h, Tail(q)) \o <<h2>> \o Same(h, Tail(q))
          /\ setup' = IF h.sid = 0 THEN "sent" ELSE setup
    /\ UNCHANGED <<rpos, cache, out, enq, nextFid>>

(* the peer consumes the next fragment from the (FIFO, lossless) link *)
Recv ==
    /\ rpos < Len(wire)
    /\ LET f == wire[rpos + 1]
       IN /\ rpos' = rpos + 1
          /\ IF f.follows
             THEN /\ cache' = [cache EXCEPT ![f.sid] = Append(@, f)]
                  /\ out' = out
             ELSE /\ cache' = [cache EXCEPT ![f.sid] = <<>>]
                  /\ out' = Append(out, Append(cache[f.sid], f))
    /\ UNCHANGED <<q, wire, enq, nextFid, setup>>

Next == \/ \E s \in Streams, k \in FragCounts : Enq(s, k)
        \/ EnqSetup
        \/ Send
        \/ Recv

Spec == Init /\ [][Next]_vars /\ WF_vars(Send) /\ WF_vars(Recv)

----------------------------------------------------------------------------
(* what stream s is expected to carry: the fragments of its frames, frame after frame, in queueing order *)
RECURSIVE Expected(_, _)
Expected(s, log) ==
    IF log = <<>> THEN <<>>
    ELSE LET e == Head(log)
         IN (IF e[1] = s THEN [i \in 1..e[3] |-> <<e[2], i>>] ELSE <<>>) \o Expected(s, Tail(log))

WireOf(s) == LET w == SelectSeq(wire, LAMBDA f : f.sid = s /\ f.fid # 0) IN [i \in 1..Len(w) |-> <<w[i].fid, w[i].idx>>]     \* (fid 0 = SETUP)

IsPrefixOf(a, b) == Len(a) <= Len(b) /\ \A i \in 1..Len(a) : a[i] = b[i]

(* C05: per stream, queueing order on the wire, and nothing of the same stream between the fragments of a frame *)
PerStreamOrder == \A s \in Streams : IsPrefixOf(WireOf(s), Expected(s, enq))

(* C05/C03 at the receiver: a reassembled frame is exactly the fragments 1..total of ONE queued frame: never merged, never truncated *)
WholeFrame(fr) ==
    /\ fr # <<>>
    /\ \A i \in 1..Len(fr) : fr[i].fid = fr[1].fid /\ fr[i].sid = fr[1].sid /\ fr[i].idx = i
    /\ \E j \in 1..Len(enq) : enq[j][2] = fr[1].fid /\ enq[j][3] = Len(fr)
ReassembledExact == \A i \in 1..Len(out) : out[i][1].sid # 0 => WholeFrame(out[i])

(* C01: per stream, frames come out in queueing order, each once *)
OutFids(s) == LET o == SelectSeq(out, LAMBDA fr : fr[1].sid = s /\ fr[1].fid # 0) IN [i \in 1..Len(o) |-> o[i][1].fid]
EnqFids(s) == LET l == SelectSeq(enq, LAMBDA e : e[1] = s) IN [i \in 1..Len(l) |-> l[i][2]]
DeliveredInOrderOnce == \A s \in Streams : IsPrefixOf(OutFids(s), EnqFids(s))

(* C15 / C14: a frame is written once - the rotation never duplicates what it moves (connection-level frames included) *)
WrittenOnce == \A i, j \in 1..Len(wire) : (i # j /\ wire[i].fid = wire[j].fid /\ wire[i].sid = wire[j].sid) => wire[i].idx # wire[j].idx

(* C16/C08: whatever was queued while connecting, SETUP is the first frame on the wire *)
SetupFirst == (WithSetup /\ wire # <<>>) => wire[1].sid = 0 /\ wire[1].fid = 0

(* between two fragments of one frame only fragments of OTHER streams appear (the allowed interleaving) *)
InterleaveOnlyOtherStreams ==
    \A i, j \in 1..Len(wire) :
        (i < j /\ wire[i].fid = wire[j].fid /\ wire[i].sid = wire[j].sid) =>
            \A k \in (i + 1)..(j - 1) : wire[k].sid # wire[i].sid \/ wire[k].fid = wire[i].fid

(* the cache never holds fragments of two frames at once for one stream *)
CacheSingleFrame == \A s \in AllSids : \A i \in 1..Len(cache[s]) : cache[s][i].fid = cache[s][1].fid

TypeOK == /\ rpos \in 0..Len(wire)
          /\ \A i \in 1..Len(q) : q[i].sent < q[i].total
          /\ setup \in {"none", "queued", "sent"}

(* liveness: everything queued is eventually written and reassembled (no source starves in the rotation) *)
Drained == q = <<>> /\ rpos = Len(wire)
EventuallyDrained == (nextFid > MaxFrames /\ (WithSetup => setup # "none")) ~> Drained
AllDelivered == [](Drained => \A j \in 1..Len(enq) : \E i \in 1..Len(out) : out[i][1].fid = enq[j][2])

(* reachability witnesses (expected to be VIOLATED: used by a separate config to show that interleaving really happens) *)
NeverInterleaved == \A i \in 1..(Len(wire) - 1) : (wire[i].follows => wire[i + 1].fid = wire[i].fid)
=============================================================================
