--------------------------- MODULE RSocketTrace ---------------------------
(***************************************************************************)
(* Trace validation: every recorded trace of the real rsocket-py is        *)
(* stepped through RSocket!Step.  Nothing is ever disabled: failing        *)
(* clauses are accumulated with the index of the event at which they       *)
(* failed, so a verdict is total (one per trace, the rest of the trace is  *)
(* still checked).  A whole batch of traces is validated by one TLC run    *)
(* (one initial state per trace).                                          *)
(***************************************************************************)
EXTENDS RSocket, Json, IOUtils

Traces == JsonDeserialize(IOEnv.TRACE_FILE)

VARIABLES tid, l, mon, viol

tvars == <<tid, l, mon, viol>>

TInit == /\ tid \in 1..Len(Traces)
         /\ l = 1
         /\ mon = M0
         /\ viol = {}

Tr == Traces[tid].events

TNext ==
    \/ /\ l <= Len(Tr)
       /\ LET r == Step(mon, Tr[l]) IN
            /\ mon' = r.m
            /\ viol' = viol \cup {<<c, l>> : c \in r.f}
       /\ l' = l + 1
       /\ UNCHANGED tid
    \/ /\ l = Len(Tr) + 1
       /\ PrintT(<<"VERDICT", Traces[tid].tid, viol>>)
       /\ l' = l + 1
       /\ UNCHANGED <<tid, mon, viol>>

TSpec == TInit /\ [][TNext]_tvars
=============================================================================
