------------------------------ MODULE Tagging ------------------------------
(***************************************************************************)
(* The tag list of the routing / tagging metadata extension                *)
(* (rsocket/extensions/tagging.py TaggingMetadata.parse) as a function of  *)
(* ARBITRARY bytes: the body of a routing entry is whatever the peer put   *)
(* there.  A body is a sequence of  <len:1> <len bytes>  items.            *)
(*                                                                         *)
(*   WellFormed(b)  every length byte is followed by that many bytes       *)
(*   Tags(b)        the tags of a well-formed body, in order               *)
(*   Lenient(b)     what a parser that takes "as many bytes as are left"   *)
(*                  for a short last tag reads (the implemented reading)   *)
(*                                                                         *)
(* C18: a well-formed body decodes to exactly its tags (and re-encodes to  *)
(* the same bytes).  C12: the parse of ANY body terminates - a zero-length *)
(* tag, a length byte with nothing behind it, a tag cut short must each    *)
(* consume at least the length byte (`Progress`): a parser that does not   *)
(* advance over an empty tag never returns.                                *)
(*                                                                         *)
(* TLC enumerates every body up to MaxLen bytes over Alphabet, checks the  *)
(* invariants and prints the table; vf/props/taggingmodel.py replays every *)
(* row on the real class under an interval timer.                          *)
(***************************************************************************)
EXTENDS Naturals, Sequences, FiniteSets, TLC, Json

CONSTANTS MaxLen, Alphabet

VARIABLE b
Bodies == UNION {[1..n -> Alphabet] : n \in 0..MaxLen}

Min(x, y) == IF x < y THEN x ELSE y

RECURSIVE WellFormed(_)
WellFormed(s) == IF s = <<>> THEN TRUE
                 ELSE LET n == s[1] IN n <= Len(s) - 1 /\ WellFormed(SubSeq(s, n + 2, Len(s)))

(* the lenient reading: item = length byte + min(length, what is left) bytes; always consumes at least the length byte *)
RECURSIVE Lenient(_)
Lenient(s) == IF s = <<>> THEN <<>>
              ELSE LET n == Min(s[1], Len(s) - 1) IN <<SubSeq(s, 2, n + 1)>> \o Lenient(SubSeq(s, n + 2, Len(s)))

Tags(s) == Lenient(s)          \* (on well-formed bodies the two readings coincide)

RECURSIVE Encode(_)
Encode(ts) == IF ts = <<>> THEN <<>> ELSE <<Len(Head(ts))>> \o Head(ts) \o Encode(Tail(ts))

(* number of parser steps: one per item, each consuming >= 1 byte *)
Steps(s) == Len(Lenient(s))

Init == b \in Bodies
Next == UNCHANGED b
Spec == Init /\ [][Next]_<<b>>

(* C12: the parse terminates - at most one step per byte *)
Progress == Steps(b) <= Len(b)
(* C18: decode / encode are inverse on well-formed bodies *)
RoundTrip == WellFormed(b) => Encode(Tags(b)) = b
(* every tag of a well-formed body has the length its length byte states *)
TagLengths == WellFormed(b) => \A i \in 1..Len(Tags(b)) : Len(Tags(b)[i]) <= 255
Emit == PrintT(ToJson([b |-> b, wf |-> WellFormed(b), tags |-> Lenient(b)]))
=============================================================================
