SPECIFICATION Spec
CONSTANTS MaxProbes = 1
          MaxPends = 1
          MaxHandles = 1
          MaxCuts = 1
          MaxRaces = 1
          MaxCloses = 2
          Js = {0, 1, 2, 3, 4, 5, 6, 7, 8, 10, 12}
INVARIANT CloseOnce
INVARIANT NothingPendingOnDeadConnection
INVARIANT TransportClosedByClose
INVARIANT Accounted
INVARIANT WaitsOnlyOnDeadConnection
