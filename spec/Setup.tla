------------------------------- MODULE Setup -------------------------------
(***************************************************************************)
(* How a server answers the first frame of a connection (C16):             *)
(* rsocket/rsocket_base.py handle_setup / handle_resume and the receiver's *)
(* per-frame error handling, as a decision function of                     *)
(*   frame      SETUP or RESUME                                             *)
(*   resume     SETUP carries the resume flag (and a token)                 *)
(*   lease      SETUP carries the lease flag                                *)
(*   publisher  the server was given a lease publisher                      *)
(*   raises     what the application's on_setup lets escape: nothing, an    *)
(*              ordinary exception, or an exception of the library's own    *)
(*              RSocketProtocolError family (with a stream-level code)      *)
(*   payload    SETUP carries a setup payload                               *)
(* The decision: is on_setup invoked (exactly once), and which ERROR code   *)
(* is sent on stream 0.  TLC enumerates the table and checks the invariants;*)
(* vf/props/setupmodel.py replays every row on a real RSocketServer.        *)
(***************************************************************************)
EXTENDS Naturals, FiniteSets, TLC, Json

VARIABLE c
Cases == {x \in [frame : {"SETUP", "RESUME"}, resume : BOOLEAN, lease : BOOLEAN, publisher : BOOLEAN,
                 raises : {"no", "exception", "protocol_error", "stream_id_in_use", "subclass"}, payload : BOOLEAN] :
            x.frame = "RESUME" => (~x.resume /\ ~x.lease /\ ~x.payload)}

Decide(x) ==
    IF x.frame = "RESUME" THEN [called |-> FALSE, code |-> "REJECTED_RESUME", leases |-> FALSE]
    ELSE IF x.resume THEN [called |-> FALSE, code |-> "UNSUPPORTED_SETUP", leases |-> FALSE]
    ELSE IF x.lease /\ ~x.publisher THEN [called |-> FALSE, code |-> "UNSUPPORTED_SETUP", leases |-> FALSE]
    ELSE IF x.raises # "no" THEN [called |-> TRUE, code |-> "REJECTED_SETUP", leases |-> x.lease]
         \* (the lease publisher is subscribed before on_setup runs: a LEASE may have been announced before the rejection)
    ELSE [called |-> TRUE, code |-> "none", leases |-> x.lease]

Init == c \in Cases
Next == UNCHANGED c
Spec == Init /\ [][Next]_<<c>>

(* C16: an acceptable SETUP reaches on_setup, an unsupported one does not *)
AcceptableIsPassed == (c.frame = "SETUP" /\ ~c.resume /\ (c.lease => c.publisher)) <=> Decide(c).called
(* C16: the matching error code, whatever kind of exception on_setup raised *)
CodeMatches == /\ (c.frame = "RESUME" <=> Decide(c).code = "REJECTED_RESUME")
               /\ (Decide(c).code = "REJECTED_SETUP" <=> (Decide(c).called /\ c.raises # "no"))
               /\ (Decide(c).code = "none" <=> (Decide(c).called /\ c.raises = "no"))
(* the answer never depends on the setup payload *)
PayloadIrrelevant == c.frame = "SETUP" => Decide([c EXCEPT !.payload = ~c.payload]) = Decide(c)
Emit == PrintT(ToJson([c |-> c, d |-> Decide(c)]))
=============================================================================
