SPECIFICATION Spec
CONSTANTS MaxReconnects = 3
          MaxCuts = 2
          MaxProbes = 2
          MaxPends = 1
          MaxRaces = 2
          MaxTicks = 1
          MaxFnfs = 0
          MaxBlocks = 0
          Firsts = {"reconnect", "close"}
          Js = {0, 1, 2, 3, 4, 5, 6, 7, 8, 9, 10, 11, 12, 14, 20}
INVARIANT TypeOK
INVARIANT CloseOncePerConnection
INVARIANT OldTransportsClosed
INVARIANT WaitsOnlyOnDeadConnection
INVARIANT Accounted
INVARIANT NothingPendingOnDeadConnection
INVARIANT ClosedStaysClosed
INVARIANT FnfAccounted
INVARIANT NothingUnsentOnDeadConnection
INVARIANT FnfWaitsOnlyOnDeadConnection
INVARIANT AllClosedAfterClose
