--------------------------- MODULE LeaseAnnounce ---------------------------
(***************************************************************************)
(* The responder side of leasing (C14, second sentence): a server with a    *)
(* lease publisher announces exactly the leases the application publishes - *)
(* rsocket/rsocket_base.py LeaseSubscriber.on_next -> send_lease ->         *)
(* send_frame(LEASE) - whatever the transport does meanwhile.               *)
(*                                                                         *)
(*   Publish(g)   the application's publisher issues lease g = <<n, ttl>>    *)
(*                (several may be issued before the loop runs)               *)
(*   Block / Unblock  the transport stops / resumes accepting writes         *)
(*   Run          the loop runs: the sender writes what is queued, in order, *)
(*                unless the transport is blocked (then at most the frame it *)
(*                is already inside stays half-written)                      *)
(* What matters to the requester is the LAST lease it received: the leases   *)
(* must reach the wire in publication order, each exactly once, with the     *)
(* granted count and the time-to-live in milliseconds.                       *)
(***************************************************************************)
EXTENDS Naturals, Sequences, TLC

CONSTANTS Grants,       \* set of <<n, ttl_ms>>
          MaxPublishes, MaxBlocks

VARIABLE a
vars == <<a>>

Init == a = [published |-> <<>>,     \* history: what the application issued
             queued |-> <<>>,        \* LEASE frames in the send queue
             wire |-> <<>>,          \* history: LEASE frames written
             blocked |-> FALSE, blocks |-> 0]

Publish(g) == Len(a.published) < MaxPublishes
              /\ a' = [a EXCEPT !.published = Append(@, g), !.queued = Append(@, g)]
Block == ~a.blocked /\ a.blocks < MaxBlocks /\ a' = [a EXCEPT !.blocked = TRUE, !.blocks = @ + 1]
Unblock == a.blocked /\ a' = [a EXCEPT !.blocked = FALSE, !.wire = @ \o a.queued, !.queued = <<>>]     \* the sender was waiting inside a write: it goes on
Run == ~a.blocked /\ a.queued # <<>> /\ a' = [a EXCEPT !.wire = @ \o a.queued, !.queued = <<>>]

Next == (\E g \in Grants : Publish(g)) \/ Block \/ Unblock \/ Run
Spec == Init /\ [][Next]_vars

IsPrefix(x, y) == Len(x) <= Len(y) /\ \A i \in 1..Len(x) : x[i] = y[i]
(* C14: exactly the leases published, in publication order, nothing else, nothing twice *)
AnnouncedInOrder == IsPrefix(a.wire, a.published) /\ a.wire \o a.queued = a.published
(* ... and all of them once the transport lets them through *)
AllAnnounced == (~a.blocked /\ a.queued = <<>>) => a.wire = a.published

GrantSet == {<<5, 2500>>, <<0, 1000>>, <<2, 90061001>>}       \* (a count of 0, a ttl with a sub-second part and more than a day)
=============================================================================
