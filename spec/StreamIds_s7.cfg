SPECIFICATION Spec
CONSTANTS MaxId = 7
          First = 2
          TheirIds = {1, 3, 5, 7}
INVARIANT TypeOK
PROPERTY AllocIsNextFree
PROPERTY AllocNonZeroParity
PROPERTY AllocNotActive
PROPERTY AllocFailsOnlyWhenFull
PROPERTY IncomingDuplicateRejected
