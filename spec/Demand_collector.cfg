SPECIFICATION Spec
CONSTANTS Ls = {1, 2, 3}
          Ns = {0, 1, 2, 3, 4, 6}
          Endings = {"flag", "complete", "error"}
          AsyncTrigger = FALSE
          InitialFromRequest = TRUE
          CanDispose = FALSE
INVARIANT BatchIsLimit
INVARIANT OutstandingWithinLimit
INVARIANT NoStall
INVARIANT Transparent
INVARIANT CancelOnce
INVARIANT NoRequestAfterTerminal
