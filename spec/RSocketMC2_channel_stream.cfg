SPECIFICATION Spec2
CONSTANTS KindA = "channel"
          InitA = "c"
          KindB = "stream"
          InitB = "c"
          MaxElems = 1
          Credits = {1}
          MaxGrants = 0
          HasPub = FALSE
          Frag = 0
          LibSource = FALSE
INVARIANT NoClauseFails
INVARIANT DeliveredIsPrefixOfHanded
INVARIANT FutureOnce
INVARIANT NothingRetained
