SPECIFICATION Spec
CONSTANTS MaxLen = 4
INVARIANT GoodInOrderOnce
INVARIANT JunkDisturbsNothing
INVARIANT Emit
