SPECIFICATION Spec
CONSTANTS Streams = {1, 3}
          MaxFrames = 3
          FragCounts = {1, 2}
          CycleMode = "naive"
          WithSetup = FALSE
INVARIANT PerStreamOrder
