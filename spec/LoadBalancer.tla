--------------------------- MODULE LoadBalancer ---------------------------
(***************************************************************************)
(* rsocket/load_balancer: LoadBalancerRSocket forwards every interaction   *)
(* to the member its strategy selects; LoadBalancerRoundRobin.select()     *)
(* returns pool[current] and advances current modulo the pool size;        *)
(* LoadBalancerRandom.select() returns any member; connect() connects the  *)
(* members one after the other, close() closes all of them even if one of  *)
(* them raises (asyncio.gather(return_exceptions=True)).                   *)
(* Not claimed by a listed property: kept so that the specification covers *)
(* this part of the library as well (./check extra).                       *)
(***************************************************************************)
EXTENDS Naturals, Sequences, FiniteSets

CONSTANTS N,          \* pool size
          MaxCalls,
          Kinds,      \* interaction kinds forwarded
          Strategy    \* "round_robin" | "random"

VARIABLES current, calls, connected, closed, raised
vars == <<current, calls, connected, closed, raised>>

Members == 0..(N - 1)

Init == current = 0 /\ calls = <<>> /\ connected = <<>> /\ closed = {} /\ raised = {}

Call(k, m) ==
    /\ Len(calls) < MaxCalls
    /\ (Strategy = "round_robin" => m = current)
    /\ calls' = Append(calls, [kind |-> k, member |-> m])
    /\ current' = IF Strategy = "round_robin" THEN (current + 1) % N ELSE current
    /\ UNCHANGED <<connected, closed, raised>>

Connect == /\ connected = <<>>
           /\ connected' = [i \in 1..N |-> i - 1]
           /\ UNCHANGED <<current, calls, closed, raised>>

(* close(): members in R raise from their close(); every member is closed nevertheless *)
Close(R) == /\ closed = {}
            /\ closed' = Members /\ raised' = R
            /\ UNCHANGED <<current, calls, connected>>

Next == \/ \E k \in Kinds, m \in Members : Call(k, m)
        \/ Connect
        \/ \E R \in SUBSET Members : Close(R)
Spec == Init /\ [][Next]_vars

Count(m) == Cardinality({i \in 1..Len(calls) : calls[i].member = m})

RoundRobinOrder == Strategy = "round_robin" => \A i \in 1..Len(calls) : calls[i].member = (i - 1) % N
Balanced == Strategy = "round_robin" => \A a, b \in Members : Count(a) <= Count(b) + 1
ConnectInOrder == connected = <<>> \/ connected = [i \in 1..N |-> i - 1]
CloseReachesEveryMember == closed = {} \/ closed = Members
=============================================================================
