SPECIFICATION MSpec
CONSTANTS Kind = "stream"
          Init_ = "c"
          MaxElems = 2
          Credits = {1, 2}
          MaxGrants = 1
          HasPub = TRUE
          Slot = 0
          SidOff = 0
          AsImplemented = FALSE
          Frag = 10
          LibSource = FALSE
INVARIANT FragmentNeverOrphaned
INVARIANT NoClauseFails
INVARIANT DeliveredIsPrefixOfHanded
INVARIANT FutureOnce
INVARIANT NothingRetained
