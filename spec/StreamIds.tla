---------------------------- MODULE StreamIds ----------------------------
(***************************************************************************)
(* Stream-id allocator of one endpoint (rsocket/stream_control.py) over a  *)
(* reduced id space 0..MaxId (MaxId = 2^k - 1), the way the repository's   *)
(* own suite reduces it (by lowering the maximum id).                      *)
(*                                                                         *)
(* The allocator is written the way the code works (step by two, wrap by   *)
(* masking, skip 0 and ids in use, give up after half the id space) and    *)
(* the properties of C13 are stated declaratively and checked by TLC over  *)
(* every history of Allocate / Register / Finish / Incoming.               *)
(* The complete state graph is then replayed transition by transition on   *)
(* the real StreamControl (vf/props/c13.py).                               *)
(***************************************************************************)
EXTENDS Naturals, Integers, FiniteSets, TLC

CONSTANTS MaxId,      \* ids are 0..MaxId
          First,      \* 1 = client (odd ids), 2 = server (even ids)
          TheirIds    \* ids of the other parity the peer may open (subset, keeps the graph small)

VARIABLES last,       \* last id handed out (initially the position just before First)
          active,     \* ids currently registered (both parities: own requests and incoming ones)
          res         \* observable result of the last operation: id, Fail, Rejected or None

vars == <<last, active, res>>

Mod      == MaxId + 1
Ids      == 1..MaxId
Mine     == {i \in Ids : i % 2 = First % 2}
Fail     == 0
Rejected == -2
None     == -1

(* --- the algorithm, as implemented: gives up once the attempt counter exceeds MaxId/2 ----------- *)
RECURSIVE Probe(_, _, _)
Probe(cur, attempt, act) ==
    IF attempt > MaxId \div 2 THEN <<Fail, cur>>
    ELSE LET nxt == (cur + 2) % Mod IN
         IF nxt # 0 /\ nxt \notin act THEN <<nxt, nxt>>
         ELSE Probe(nxt, attempt + 1, act)

(* --- the property, declaratively ----------------------------------------- *)
Cand(from, k)  == (from + 2 * k) % Mod
FreeKs(from, act) == {k \in 1..(Mod \div 2) : Cand(from, k) # 0 /\ Cand(from, k) \notin act}
MinOf(S) == CHOOSE x \in S : \A y \in S : x <= y
NextFree(from, act) == IF FreeKs(from, act) = {} THEN Fail ELSE Cand(from, MinOf(FreeKs(from, act)))

Init == /\ last = (First + Mod - 2) % Mod
        /\ active = {}
        /\ res = None

Allocate ==
    LET r == Probe(last, 0, active) IN
    /\ res' = r[1]
    /\ last' = IF r[1] = Fail THEN last ELSE r[1]
    /\ UNCHANGED active

Register(i) ==
    /\ i \notin active
    /\ active' = active \cup {i}
    /\ res' = None
    /\ UNCHANGED last

Finish(i) ==
    /\ i \in active
    /\ active' = active \ {i}
    /\ res' = None
    /\ UNCHANGED last

(* an incoming request frame with id i: rejected iff i is active, otherwise registered *)
Incoming(i) ==
    /\ res' = IF i \in active THEN Rejected ELSE i
    /\ active' = active \cup {i}
    /\ UNCHANGED last

Next == \/ Allocate
        \/ \E i \in Mine : Register(i)
        \/ \E i \in TheirIds : Register(i)
        \/ \E i \in Ids : Finish(i)
        \/ \E i \in TheirIds \cup {First} : Incoming(i)

Spec == Init /\ [][Next]_vars

(* --- C13 clauses ---------------------------------------------------------- *)
TypeOK == /\ last \in 0..MaxId
          /\ active \subseteq Ids
          /\ res \in Ids \cup {Fail, Rejected, None}

\* whatever Allocate returns is the declaratively-next free id of my parity ...
AllocIsNextFree == [][ (res' \notin {None, Rejected} /\ active' = active /\ last' \in {last, res'})
                        => res' = NextFree(last, active) ]_vars
\* ... which implies each of the property's clauses (stated separately so a failure is named)
AllocNonZeroParity == [][ (active' = active /\ res' \in Ids) => (res' # 0 /\ res' % 2 = First % 2) ]_vars
AllocNotActive     == [][ (active' = active /\ res' \in Ids) => res' \notin active ]_vars
AllocFailsOnlyWhenFull == [][ (active' = active /\ res' = Fail) => Mine \subseteq active ]_vars
IncomingDuplicateRejected == [][ \A i \in Ids : (res' = Rejected /\ active' = active \cup {i} /\ i \in active) => active' = active ]_vars
=============================================================================
