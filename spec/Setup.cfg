SPECIFICATION Spec
INVARIANT AcceptableIsPassed
INVARIANT CodeMatches
INVARIANT PayloadIrrelevant
INVARIANT Emit
