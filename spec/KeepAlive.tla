---------------------------- MODULE KeepAlive ----------------------------
(***************************************************************************)
(* The client's keep-alive machinery under a clock, as implemented.        *)
(*                                                                         *)
(* rsocket/rsocket_client.py                                                *)
(*   _keepalive_send_task    : every P  -> queue KEEPALIVE(respond)         *)
(*   _keepalive_timeout_task : every L  -> if now - last > L:               *)
(*                                 _is_server_alive = False ;               *)
(*                                 handler.on_keepalive_timeout(...)        *)
(*   connect()               : last = now ; alive = True   (fix 0cfd26c)    *)
(* rsocket/rsocket_base.py                                                  *)
(*   handle_keep_alive : last = now ; respond flag -> queue the echo        *)
(*   _sender           : while alive: send next queued frame                *)
(*                       (the test is made AFTER a frame went out: once the *)
(*                        client has declared the server dead exactly one   *)
(*                        more queued frame is written, then the sender     *)
(*                        ends and cancels the keep-alive task)             *)
(*   _receiver_listen  : while alive: read a batch, handle its frames       *)
(*                       (a client that has declared the server dead        *)
(*                        handles the next batch, then leaves the loop:     *)
(*                        a sender still up writes one more frame, then     *)
(*                        stop_all_streams, on_close, tasks cancelled)      *)
(*                                                                         *)
(*   reconnect()             : the old connection is closed (on_close if it *)
(*                       was not closed yet), what was still queued is lost;*)
(*                       connect() again: last = now ; alive = True ; new   *)
(*                       tasks whose periods count from this instant        *)
(*                                                                         *)
(* Tick is one unit of time: the timers due at the new instant run (their   *)
(* relative order does not matter: the sender only runs after both), then   *)
(* the sender drains.  PeerKa is a KEEPALIVE arriving from the server.      *)
(***************************************************************************)
EXTENDS Naturals, Sequences, TLC

CONSTANTS P,          \* keep-alive period (ticks)
          L,          \* maximum lifetime (ticks)
          MaxClock,
          MaxPeerKa,  \* KEEPALIVE frames the server sends
          MaxReconnects, \* times the application calls reconnect() (at any moment: healthy, after a time-out, after the close)
          MaxBlocks,  \* times the transport stops accepting writes (back-pressure: the sender is stuck in a write)
          MaxFaults   \* times the connection goes half-dead: writes fail from then on, nothing arrives any more (no EOF, no reset)

VARIABLES k          \* the whole state, a record (the actions compose functions on it)
vars == <<k>>

Init == k = [now |-> 0, last |-> 0, alive |-> TRUE,
             senderUp |-> TRUE, kaTaskUp |-> TRUE, recvUp |-> TRUE,
             sq |-> <<>>,                     \* frames queued and not yet written: "ka" | "echo"
             txKa |-> 0, txEcho |-> 0, unsent |-> 0,
             enqKa |-> 0,                     \* respond-flagged KEEPALIVEs the keep-alive task has queued
             blocked |-> FALSE, blocks |-> 0, \* the transport does not accept writes at the moment
             faulted |-> FALSE, faults |-> 0, \* the connection is half-dead: the next write fails, nothing arrives
             stuck |-> FALSE,                 \* the sender is inside a write that has not completed
             timeouts |-> 0, toSince |-> 0, closes |-> 0,
             gaps |-> <<>>,                   \* history: now - last at each timeout callback
             peerKas |-> 0, owed |-> 0,       \* respond-flagged arrivals
             framesAfterDead |-> 0,
             \* the connection: when it was made, and what the (cumulative) counters were at that moment
             reconnects |-> 0, base |-> 0, enqBase |-> 0, txBase |-> 0, owedBase |-> 0, echoBase |-> 0]

(* the sender task: writes queued frames; re-evaluates `alive` after each one *)
RECURSIVE Drain(_)
Drain(s) ==
    IF ~s.senderUp \/ s.sq = <<>> \/ s.stuck THEN s
    ELSE IF s.faulted THEN
        \* the write raises a transport error: the sender logs it and ends (its `finally` stops the keep-alive task); nothing is written.
        \* The watchdog belongs to the receiver, which is still waiting for input: the silence is reported all the same (TimeoutDetected)
        [s EXCEPT !.senderUp = FALSE, !.kaTaskUp = FALSE, !.unsent = @ + Len(s.sq), !.sq = <<>>]
    ELSE LET f == Head(s.sq)
             s1 == [s EXCEPT !.sq = Tail(@),
                             !.txKa = IF f = "ka" THEN @ + 1 ELSE @,
                             !.txEcho = IF f = "echo" THEN @ + 1 ELSE @,
                             !.framesAfterDead = IF ~s.alive THEN @ + 1 ELSE @]
         IN IF s.blocked THEN [s1 EXCEPT !.stuck = TRUE]       \* handed to the transport, whose write does not complete
            ELSE IF s1.alive THEN Drain(s1)
            ELSE [s1 EXCEPT !.senderUp = FALSE, !.kaTaskUp = FALSE, !.unsent = @ + Len(s1.sq), !.sq = <<>>]

Watchdog(s) ==
    IF s.recvUp /\ (s.now - s.base) % L = 0 /\ s.now > s.base /\ s.now - s.last > L
    THEN [s EXCEPT !.alive = FALSE, !.timeouts = @ + 1, !.toSince = @ + 1, !.gaps = Append(@, s.now - s.last)]
    ELSE s

KaTimer(s) ==
    IF s.kaTaskUp /\ (s.now - s.base) % P = 0 /\ s.now > s.base
    THEN IF s.senderUp THEN [s EXCEPT !.sq = Append(@, "ka"), !.enqKa = @ + 1] ELSE [s EXCEPT !.unsent = @ + 1, !.enqKa = @ + 1]
    ELSE s

Tick == /\ k.now < MaxClock
        /\ k' = Drain(KaTimer(Watchdog([k EXCEPT !.now = @ + 1])))

PeerKa(respond) ==
    /\ k.peerKas < MaxPeerKa /\ k.recvUp /\ ~k.faulted
    /\ LET s1 == [k EXCEPT !.last = k.now, !.toSince = 0, !.peerKas = @ + 1,
                           !.owed = IF respond THEN @ + 1 ELSE @,
                           !.sq = IF respond /\ k.senderUp THEN Append(@, "echo") ELSE @,
                           !.unsent = IF respond /\ ~k.senderUp THEN @ + 1 ELSE @]
       IN k' = IF s1.alive THEN Drain(s1)
               ELSE \* the receiver leaves its loop.  Its `finally` first awaits the cancellation of the watchdog task, which lets
                    \* a sender that is still up write ONE queued frame (and then end, the server being "dead"); then close:
                    \* stop_all_streams, on_close, every task cancelled, whatever is still queued stays unwritten
                    LET s2 == Drain(s1)
                    IN [s2 EXCEPT !.recvUp = FALSE, !.closes = @ + 1, !.senderUp = FALSE, !.kaTaskUp = FALSE,
                                  !.unsent = @ + Len(s2.sq), !.sq = <<>>]

(* back-pressure: the transport stops / resumes accepting writes.  The keep-alive task keeps queueing its frame every period
   whatever is still waiting to be written. *)
Block == /\ ~k.blocked /\ k.blocks < MaxBlocks /\ k.senderUp /\ ~k.faulted
         /\ k' = [k EXCEPT !.blocked = TRUE, !.blocks = @ + 1]
Unblock == /\ k.blocked
           /\ LET s1 == [k EXCEPT !.blocked = FALSE, !.stuck = FALSE]
              IN k' = IF k.stuck /\ ~k.alive /\ k.senderUp
                      THEN \* the pending write completes; the sender then finds the server declared dead and ends
                           [s1 EXCEPT !.senderUp = FALSE, !.kaTaskUp = FALSE, !.unsent = @ + Len(s1.sq), !.sq = <<>>]
                      ELSE Drain(s1)

(* the connection goes half-dead (a write to it will fail; the peer's frames no longer arrive; neither EOF nor reset is seen) *)
WriteFault == /\ k.senderUp /\ ~k.blocked /\ ~k.faulted /\ k.faults < MaxFaults
              /\ k' = [k EXCEPT !.faulted = TRUE, !.faults = @ + 1]

(* the application reconnects (e.g. from on_keepalive_timeout, or later, or while everything is healthy) *)
Reconnect ==
    /\ k.reconnects < MaxReconnects
    /\ k' = [k EXCEPT !.reconnects = @ + 1, !.base = k.now, !.last = k.now, !.alive = TRUE,
                      !.closes = IF k.recvUp THEN @ + 1 ELSE @,
                      !.senderUp = TRUE, !.kaTaskUp = TRUE, !.recvUp = TRUE,
                      !.unsent = @ + Len(k.sq), !.sq = <<>>, !.blocked = FALSE, !.stuck = FALSE, !.faulted = FALSE,
                      !.toSince = 0, !.framesAfterDead = 0,
                      !.enqBase = k.enqKa, !.txBase = k.txKa, !.owedBase = k.owed, !.echoBase = k.txEcho]

Next == Tick \/ PeerKa(TRUE) \/ PeerKa(FALSE) \/ Block \/ Unblock \/ Reconnect \/ WriteFault
Spec == Init /\ [][Next]_vars

----------------------------------------------------------------------------
(* C15 *)
NoFalseTimeout == \A i \in 1..Len(k.gaps) : k.gaps[i] > L
(* silent for two lifetimes (or more) => the callback has been invoked since the last arrival *)
TimeoutDetected == (k.recvUp /\ k.now - k.last >= 2 * L) => k.toSince >= 1
(* arrivals at intervals <= L never let the callback run: by NoFalseTimeout, a callback needs a gap > L *)
Periodic == (k.alive /\ k.senderUp) => (k.enqKa - k.enqBase = (k.now - k.base) \div P /\ (~k.blocked => k.txKa - k.txBase = k.enqKa - k.enqBase))
EchoExactlyOnce == (k.alive /\ ~k.blocked) => k.txEcho - k.echoBase = k.owed - k.owedBase
NoEchoWithoutFlag == k.txEcho - k.echoBase <= k.owed - k.owedBase
(* implementation-defined aftermath of a timeout, kept as invariants so that a change is noticed *)
AtMostOneFrameAfterDead == k.framesAfterDead <= 1
DeadClientClosesAtNextInput == (~k.alive /\ k.recvUp) => k.toSince >= 1
CloseAtMostOnce == k.closes <= 1 + k.reconnects       \* once per connection
TypeOK == /\ k.now \in 0..MaxClock /\ k.last <= k.now
          /\ (k.kaTaskUp => k.senderUp)
          /\ (~k.recvUp => ~k.senderUp)
=============================================================================
