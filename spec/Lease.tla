------------------------------ MODULE Lease ------------------------------
(***************************************************************************)
(* The requester side of leasing, as implemented.                          *)
(*                                                                         *)
(* rsocket/lease.py  DefinedLease._is_request_allowed:                     *)
(*     expired (created + ttl <= now)  -> False   (counter untouched)      *)
(*     counter += 1 ; counter > max    -> False                            *)
(*     otherwise                        -> True                            *)
(* rsocket/rsocket_base.py                                                  *)
(*     _reset_internals : honour lease => DefinedLease(max = 0)            *)
(*     send_request     : allowed -> send queue, else -> _request_queue    *)
(*                        (bounded asyncio.Queue: put_nowait raises when    *)
(*                         full, the request call fails)                   *)
(*     handle_lease     : new DefinedLease(n, ttl) stamped `now`; then      *)
(*                        while queue not empty and allowed: release head   *)
(*                                                                         *)
(*   rsocket_client.py connect() (every reconnect): _reset_internals again  *)
(*                        => a NEW zero lease and a NEW, empty request      *)
(*                        queue; what was held back fails with the old      *)
(*                        connection (stop_all_streams)                     *)
(*                                                                         *)
(* One action per critical section: Request, LeaseArrives (replace +       *)
(* release loop, atomic: no await inside), Tick (time passes), Reconnect.  *)
(* The clauses of C14 are stated over the history `sent`.                  *)
(***************************************************************************)
EXTENDS Naturals, Sequences, FiniteSets, TLC

CONSTANTS MaxReq,      \* requests the application makes
          Grants,      \* set of <<n, ttl>> a LEASE frame may carry
          MaxLeases,   \* LEASE frames that arrive
          MaxClock,    \* time horizon
          QSize,       \* capacity of the request queue (0 = unbounded)
          MaxReconnects, \* times the client reconnects (a lease belongs to the connection it arrived on)
          OvertakesHeld, \* BOOLEAN: the behaviour before the fix of F27 (control configuration only)
          AppActsOnHeld \* BOOLEAN: the application cancels / requests more on interactions whose request is still held back

VARIABLES now,
          lease,       \* [max, ttl, at, ctr, epoch]  the current DefinedLease (epoch 0 = the initial zero lease)
          pending,     \* _request_queue: sequence of request ids
          sent,        \* history: <<rid, time, epoch>> in the order requests entered the send queue
          refused,     \* request ids whose call raised QueueFull
          nextRid,
          leases,      \* history: epoch -> [max, ttl, at]
          conn,        \* number of reconnects so far
          dropped,     \* request ids that were held back when their connection ended (they fail with it)
          behind,      \* request ids that have frames (CANCEL / REQUEST_N) waiting behind their held request frame
          early        \* request ids whose CANCEL / REQUEST_N entered the send queue BEFORE their request frame
vars == <<now, lease, pending, sent, refused, nextRid, leases, conn, dropped, behind, early>>

Init == /\ now = 0
        /\ lease = [max |-> 0, ttl |-> MaxClock + 1, at |-> 0, ctr |-> 0, epoch |-> 0]
        /\ pending = <<>> /\ sent = <<>> /\ refused = {} /\ nextRid = 1
        /\ leases = <<>>
        /\ conn = 0 /\ dropped = {} /\ behind = {}
        /\ early = {}

Expired(l) == l.at + l.ttl <= now

(* is_request_allowed(): returns <<allowed, lease'>> *)
Check(l) == IF Expired(l) THEN <<FALSE, l>>
            ELSE LET l2 == [l EXCEPT !.ctr = @ + 1] IN <<l2.ctr <= l2.max, l2>>

Request ==
    /\ nextRid <= MaxReq
    /\ LET c == Check(lease)
       IN /\ lease' = c[2]
          /\ IF c[1] THEN /\ sent' = Append(sent, <<nextRid, now, lease.epoch>>)
                          /\ UNCHANGED <<pending, refused>>
             ELSE IF QSize > 0 /\ Len(pending) >= QSize
                  THEN /\ refused' = refused \cup {nextRid} /\ UNCHANGED <<pending, sent>>
                  ELSE /\ pending' = Append(pending, nextRid) /\ UNCHANGED <<sent, refused>>
    /\ nextRid' = nextRid + 1
    /\ UNCHANGED <<now, leases, conn, dropped, behind, early>>

(* the release loop of handle_lease: (lease, pending, sent) -> fixpoint *)
RECURSIVE Release(_, _, _)
Release(l, p, s) ==
    IF p = <<>> THEN <<l, p, s>>
    ELSE LET c == Check(l)
         IN IF c[1] THEN Release(c[2], Tail(p), Append(s, <<Head(p), now, l.epoch>>))
            ELSE <<c[2], p, s>>

LeaseArrives(g) ==
    /\ Len(leases) < MaxLeases
    /\ LET l0 == [max |-> g[1], ttl |-> g[2], at |-> now, ctr |-> 0, epoch |-> Len(leases) + 1]
           r == Release(l0, pending, sent)
       IN /\ lease' = r[1] /\ pending' = r[2] /\ sent' = r[3]
          /\ leases' = Append(leases, [max |-> g[1], ttl |-> g[2], at |-> now])
          /\ behind' = behind \cap {r[2][i] : i \in 1..Len(r[2])}       \* what waited behind a released request followed it
    /\ UNCHANGED <<now, refused, nextRid, conn, dropped, early>>

Tick == /\ now < MaxClock /\ now' = now + 1
        /\ UNCHANGED <<lease, pending, sent, refused, nextRid, leases, conn, dropped, behind, early>>

(* connect() of a reconnect: the lease of the previous connection does not carry over - the new connection starts with the zero
   lease (epoch 0: nothing may be sent under it) and an empty request queue *)
Reconnect ==
    /\ conn < MaxReconnects
    /\ conn' = conn + 1
    /\ lease' = [max |-> 0, ttl |-> MaxClock + 1, at |-> now, ctr |-> 0, epoch |-> 0]
    /\ dropped' = dropped \cup {pending[i] : i \in 1..Len(pending)}
    /\ pending' = <<>> /\ behind' = {}
    /\ UNCHANGED <<now, sent, refused, nextRid, leases, early>>

(* StreamHandler.send_cancel / send_request_n on an interaction whose request frame is still waiting for a lease: the frame is kept
   BEHIND the held request (RSocketBase._frames_behind_queued_request) and follows it into the send queue when a lease releases
   it (fix of finding F27; before, it went straight to the send queue and reached the wire before the stream's request).
   OvertakesHeld = TRUE is the old behaviour, kept as a named deviation for the control configuration Lease_f27.cfg. *)
AppActsOnHeldRequest(r) ==
    /\ AppActsOnHeld
    /\ \E i \in 1..Len(pending) : pending[i] = r
    /\ r \notin behind
    /\ early' = IF OvertakesHeld THEN early \cup {r} ELSE early
    /\ behind' = behind \cup {r}
    /\ UNCHANGED <<now, lease, pending, sent, refused, nextRid, leases, conn, dropped>>

Next == Request \/ (\E g \in Grants : LeaseArrives(g)) \/ Tick \/ Reconnect \/ (\E r \in 1..MaxReq : AppActsOnHeldRequest(r))
Spec == Init /\ [][Next]_vars

----------------------------------------------------------------------------
(* C14 *)
NoRequestBeforeFirstLease == \A i \in 1..Len(sent) : sent[i][3] >= 1
CountWithinGrant == \A e \in 1..Len(leases) : Cardinality({i \in 1..Len(sent) : sent[i][3] = e}) <= leases[e].max
NoneAfterTtl == \A i \in 1..Len(sent) : LET e == sent[i][3] IN e >= 1 => (sent[i][2] >= leases[e].at /\ sent[i][2] < leases[e].at + leases[e].ttl)
(* FIFO: requests that were not refused leave in the order they were made, each at most once *)
Rids == [i \in 1..Len(sent) |-> sent[i][1]]
FifoOnce == /\ \A i, j \in 1..Len(sent) : i < j => Rids[i] < Rids[j]
            /\ \A i \in 1..Len(pending) : \A j \in 1..Len(sent) : Rids[j] < pending[i]
            /\ \A i, j \in 1..Len(pending) : i < j => pending[i] < pending[j]
(* nothing is lost: every request made is sent, pending or was refused (queue full) *)
Accounted == \A r \in 1..(nextRid - 1) : (\E i \in 1..Len(sent) : Rids[i] = r) \/ (\E i \in 1..Len(pending) : pending[i] = r) \/ r \in refused \/ r \in dropped
RetainedUpToQueueSize == /\ (QSize > 0 => Len(pending) <= QSize)
                         /\ (QSize = 0 => refused = {})
(* a request waits only while the current lease cannot take it: after LeaseArrives either nothing waits or the lease is used up / expired *)
NothingWaitsUnderUsableLease ==
    pending # <<>> => (Expired(lease) \/ lease.ctr >= lease.max)

GrantsSmall == {<<0, 2>>, <<1, 1>>, <<2, 2>>, <<3, 1>>}
GrantsWide == {<<0, 1>>, <<1, 1>>, <<1, 3>>, <<2, 2>>, <<3, 1>>, <<4, 4>>}

(* C08 / C09: no frame of a stream precedes its request frame (refuted for the behaviour before the fix of F27: Lease_f27.cfg) *)
NothingOvertakesItsRequest == early = {}

BehindOnlyHeld == \A r \in behind : \E i \in 1..Len(pending) : pending[i] = r
TypeOK == /\ now \in 0..MaxClock /\ nextRid \in 1..(MaxReq + 1)
          /\ lease.epoch \in {0, Len(leases)}
          /\ (conn = 0 => lease.epoch = Len(leases))
=============================================================================
