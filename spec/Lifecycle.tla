---------------------------- MODULE Lifecycle ----------------------------
(***************************************************************************)
(* The life cycle of a client (rsocket/rsocket_client.py) as the           *)
(* application sees it: connections come and go (generations), the         *)
(* application reconnects, closes, issues requests, the link is lost -     *)
(* and two of these calls may RACE: the second is made while the first     *)
(* (a reconnect) is only j loop callbacks under way.                       *)
(*                                                                         *)
(*   reconnect()  : _reconnect_listener: _close(reconnect=True) (on_close  *)
(*                  if the connection was still up, transport closed),      *)
(*                  stop_all_streams (what was pending fails), connect():   *)
(*                  next transport, SETUP                                   *)
(*   close()      : reconnect listener cancelled, tasks stopped (on_close   *)
(*                  if still up), transport closed; for good                *)
(*   link EOF     : receiver ends: stop_all_streams, on_close, tasks        *)
(*                  stopped; the transport is closed                        *)
(*   request      : served while the connection is up.  AS IMPLEMENTED a    *)
(*                  request made on a dead, not yet replaced connection     *)
(*                  waits (it fails at the next reconnect / close), and one *)
(*                  made after close() waits for ever                       *)
(*                                                                         *)
(* Every action is followed by "run until nothing is ready".  A race        *)
(* Race(f, a, j) = call f (reconnect() or close()), j loop iterations, then *)
(* call a: the spec allows exactly the two serial orders (a ; f) and        *)
(* (f ; a) - a second reconnect() may also be absorbed by the one under way *)
(* The counters are what the application and the transports observe.        *)
(***************************************************************************)
EXTENDS Naturals, Sequences, FiniteSets, TLC

CONSTANTS MaxReconnects, MaxCuts, MaxProbes, MaxPends, MaxRaces, MaxTicks,
          MaxFnfs,    \* fire-and-forget calls (their awaitable is resolved when the frame has been written - or can no longer be)
          MaxBlocks,  \* times the transport stops accepting writes (back-pressure: frames stay queued / half-written)
          Firsts,     \* the calls a race starts with: subset of {"reconnect", "close"}
          Js          \* numbers of loop iterations after which the racing call is made

VARIABLE k
vars == <<k>>

Init == k = [gen |-> 1, up |-> TRUE, appClosed |-> FALSE, topen |-> TRUE,
             closeCbs |-> 0,      \* on_close callbacks
             tclosed |-> 0,       \* transports closed by the client
             answered |-> 0,      \* requests that got a response or a connection error
             hung |-> 0,          \* requests still waiting although their connection is gone
             pending |-> 0,       \* requests waiting for a response the peer has not given yet
             pends |-> 0,
             blocked |-> FALSE,   \* the transport does not accept writes at the moment
             unsent |-> 0,        \* fire-and-forget frames queued (or half-written) behind the blocked transport
             fnfDone |-> 0,       \* fire-and-forget awaitables settled (written, or failed with the connection)
             fnfHung |-> 0,       \* fire-and-forget calls made on a dead, not yet replaced connection
             fnfs |-> 0, blocks |-> 0,
             reconnects |-> 0, cuts |-> 0, probes |-> 0, races |-> 0, ticks |-> 0]

ProbeF(s) == IF s.up THEN [s EXCEPT !.answered = @ + 1, !.probes = @ + 1]
             ELSE [s EXCEPT !.hung = @ + 1, !.probes = @ + 1]

(* a request the peer does not answer: it is pending until its connection ends, then it fails *)
PendF(s) == IF s.up THEN [s EXCEPT !.pending = @ + 1, !.pends = @ + 1]
            ELSE [s EXCEPT !.hung = @ + 1, !.pends = @ + 1]

(* orderly EOF from the server: the transport is closed at once.  A transport ERROR (here: while writing) ends the connection
   as well, but AS IMPLEMENTED the client closes that transport only at the next reconnect() / close() *)
FnfF(s) == IF s.up /\ ~s.blocked THEN [s EXCEPT !.fnfDone = @ + 1, !.fnfs = @ + 1]
           ELSE IF s.up THEN [s EXCEPT !.unsent = @ + 1, !.fnfs = @ + 1]
           ELSE [s EXCEPT !.fnfHung = @ + 1, !.fnfs = @ + 1]

CutF(s) == IF s.up THEN [s EXCEPT !.up = FALSE, !.topen = FALSE, !.closeCbs = @ + 1, !.tclosed = @ + 1, !.cuts = @ + 1,
                                  !.answered = @ + s.pending, !.pending = 0,
                                  !.fnfDone = @ + s.unsent, !.unsent = 0, !.blocked = FALSE]
           ELSE [s EXCEPT !.cuts = @ + 1]
CutErrF(s) == IF s.up THEN [s EXCEPT !.up = FALSE, !.closeCbs = @ + 1, !.cuts = @ + 1,
                                     !.answered = @ + s.pending, !.pending = 0,
                                     !.fnfDone = @ + s.unsent, !.unsent = 0, !.blocked = FALSE]
              ELSE [s EXCEPT !.cuts = @ + 1]

ReconnF(s) == IF s.appClosed THEN [s EXCEPT !.reconnects = @ + 1]
              ELSE [s EXCEPT !.gen = @ + 1, !.up = TRUE, !.topen = TRUE,
                             !.closeCbs = IF s.up THEN @ + 1 ELSE @,
                             !.tclosed = IF s.topen THEN @ + 1 ELSE @,
                             !.answered = @ + s.hung + s.pending, !.hung = 0, !.pending = 0, !.reconnects = @ + 1,
                             !.fnfDone = @ + s.unsent + s.fnfHung, !.unsent = 0, !.fnfHung = 0, !.blocked = FALSE]

CloseF(s) == IF s.appClosed THEN s
             ELSE [s EXCEPT !.appClosed = TRUE, !.up = FALSE, !.topen = FALSE,
                            !.closeCbs = IF s.up THEN @ + 1 ELSE @,
                            !.tclosed = IF s.topen THEN @ + 1 ELSE @,
                            !.answered = @ + s.hung + s.pending, !.hung = 0, !.pending = 0,
                            !.fnfDone = @ + s.unsent + s.fnfHung, !.unsent = 0, !.fnfHung = 0, !.blocked = FALSE]

Probe == k.probes < MaxProbes /\ ~k.blocked /\ k' = ProbeF(k)
Pend == k.pends < MaxPends /\ ~k.blocked /\ k' = PendF(k)
Fnf == k.fnfs < MaxFnfs /\ k' = FnfF(k)
Block == k.blocks < MaxBlocks /\ k.up /\ ~k.blocked /\ k' = [k EXCEPT !.blocked = TRUE, !.blocks = @ + 1]
Unblock == k.blocked /\ k' = [k EXCEPT !.blocked = FALSE, !.fnfDone = @ + k.unsent, !.unsent = 0]
Cut == k.cuts < MaxCuts /\ k.up /\ k' = CutF(k)
CutErr == k.cuts < MaxCuts /\ k.up /\ k' = CutErrF(k)
Reconnect == k.reconnects < MaxReconnects /\ k' = ReconnF(k)
Close == ~k.appClosed /\ k' = CloseF(k)
Tick == k.ticks < MaxTicks /\ k' = [k EXCEPT !.ticks = @ + 1]        \* a keep-alive period passes

F(a, s) == CASE a = "fnf" -> FnfF(s) [] a = "probe" -> ProbeF(s) [] a = "pend" -> PendF(s) [] a = "cut" -> CutF(s) [] a = "cuterr" -> CutErrF(s) [] a = "close" -> CloseF(s)
             [] a = "reconnect" -> ReconnF(s)

Race(f, a, j) ==
    /\ k.races < MaxRaces /\ ~k.appClosed /\ (f # a \/ f = "reconnect")
    /\ (f = "reconnect" \/ a = "reconnect" => k.reconnects < MaxReconnects)
    /\ (f = "reconnect" /\ a = "reconnect" => k.reconnects + 1 < MaxReconnects)
    /\ (a = "probe" => k.probes < MaxProbes /\ ~k.blocked)
    /\ (a = "pend" => k.pends < MaxPends /\ ~k.blocked)
    /\ (a = "fnf" => k.fnfs < MaxFnfs)
    /\ (a \in {"cut", "cuterr"} => k.cuts < MaxCuts /\ k.up)
    /\ LET r == [k EXCEPT !.races = @ + 1]
           first == F(f, F(a, r))                   \* the racing call took effect before f did
           second == F(a, F(f, r))                  \* ... or after it
           absorbed == [ReconnF(r) EXCEPT !.reconnects = @ + 1]      \* a second reconnect() absorbed by the one under way
       IN k' \in (IF f = "reconnect" /\ a = "reconnect" THEN {second, absorbed} ELSE {first, second})

Next == Probe \/ Pend \/ Cut \/ CutErr \/ Reconnect \/ Close \/ Tick \/ Fnf \/ Block \/ Unblock
        \/ \E f \in Firsts, a \in {"probe", "pend", "cut", "cuterr", "close", "reconnect", "fnf"}, j \in Js : Race(f, a, j)
Spec == Init /\ [][Next]_vars

----------------------------------------------------------------------------
(* C11: the close notification is delivered exactly once per connection that ended *)
CloseOncePerConnection == k.closeCbs <= k.gen /\ (~k.up => k.closeCbs = k.gen) /\ (k.up => k.closeCbs = k.gen - 1)
(* C17: the old transport is closed before the next one is taken; nothing pending survives a reconnect *)
OldTransportsClosed == k.tclosed >= k.gen - 1 /\ (k.topen => k.tclosed = k.gen - 1) /\ (~k.topen => k.tclosed = k.gen)
(* C11: once close() has returned every transport the client took is closed *)
AllClosedAfterClose == k.appClosed => k.tclosed = k.gen
(* C11 / C17: a request waits only on a connection that is dead and has not been replaced or closed yet ... *)
WaitsOnlyOnDeadConnection == k.hung > 0 => ~k.up
(* ... AS IMPLEMENTED also for ever after close(): kept visible *)
Accounted == k.answered + k.hung + k.pending = k.probes + k.pends
(* C11 / C17: whatever was pending when its connection ended has been failed *)
NothingPendingOnDeadConnection == ~k.up => k.pending = 0
(* C11: the awaitable of a fire-and-forget is settled when its frame has been written or can no longer be: nothing stays unsent on a
   connection that has ended (AS IMPLEMENTED one made on a dead, not yet replaced connection waits for the next reconnect / close) *)
FnfAccounted == k.fnfDone + k.unsent + k.fnfHung = k.fnfs
NothingUnsentOnDeadConnection == ~k.up => k.unsent = 0 /\ ~k.blocked
FnfWaitsOnlyOnDeadConnection == (k.fnfHung > 0 => ~k.up) /\ (k.unsent > 0 => k.blocked)
(* C11: a closed client stays closed *)
ClosedStaysClosed == k.appClosed => ~k.up
TypeOK == k.gen >= 1
=============================================================================
