SPECIFICATION Spec2
CONSTANTS KindA = "stream"
          InitA = "c"
          KindB = "stream"
          InitB = "s"
          MaxElems = 1
          Credits = {1}
          MaxGrants = 0
          HasPub = FALSE
          Frag = 10
          LibSource = FALSE
INVARIANT NoClauseFails
INVARIANT DeliveredIsPrefixOfHanded
INVARIANT FutureOnce
INVARIANT NothingRetained
