SPECIFICATION Spec
CONSTANTS Grants <- GrantSet
          MaxPublishes = 3
          MaxBlocks = 2
INVARIANT AnnouncedInOrder
INVARIANT AllAnnounced
