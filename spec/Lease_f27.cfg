SPECIFICATION Spec
CONSTANTS MaxReq = 2
          Grants <- GrantsSmall
          MaxLeases = 2
          MaxClock = 4
          MaxReconnects = 0
          OvertakesHeld = TRUE
          AppActsOnHeld = TRUE
          QSize = 0
INVARIANT NothingOvertakesItsRequest
