------------------------------ MODULE Routing ------------------------------
(***************************************************************************)
(* Decision function of routed dispatch and the authentication gate (C19). *)
(* A request of interaction type T carries composite metadata with a       *)
(* routing entry (first tag = route) at some position, and possibly an     *)
(* authentication entry.  The program is a route table for T (which of     *)
(* the routes r1, r2 are registered, whether T has an unknown-route        *)
(* handler), what the OTHER four types have registered (nothing /          *)
(* everything - must not matter), and an authentication verifier           *)
(* (absent / present).  The verifier is a function of (route,              *)
(* credentials) AT THE TIME OF THE REQUEST: it accepts "good" and rejects   *)
(* "bad" credentials, accepts "scoped" credentials on route r1 only, and    *)
(* rejects "revoked" credentials - credentials it accepted earlier on the   *)
(* same connection and that have been revoked since.                        *)
(* The verifier is any callable that returns an awaitable - an async        *)
(* function, an object with an async __call__, a pass-through decorator, a  *)
(* functools.partial: the decision does not depend on its shape (the replay *)
(* drives every table with several shapes).                                 *)
(* TLC enumerates the whole product, checks the gate invariant and prints  *)
(* the decision table; vf/props/c19.py replays every row on a real         *)
(* RequestRouter + RoutingRequestHandler - in random order on ONE handler  *)
(* per table, twice, so that any dependence on history shows.              *)
(***************************************************************************)
EXTENDS Naturals, Sequences, FiniteSets, TLC, Json

Types == {"response", "stream", "channel", "fire_and_forget", "metadata_push"}
Routes == {"r1", "r2"}

VARIABLE c      \* one case: [type, registered, unknown, others, verifier, route, auth, pos]

Cases == [type : Types, registered : SUBSET Routes, unknown : BOOLEAN, others : {"none", "all"}, verifier : BOOLEAN,
          route : {"r1", "r2", "rX", "none"}, auth : {"absent", "bad", "good", "scoped", "revoked"}, pos : {"first", "after_auth", "last"}]

(* what the verifier says about THIS request *)
Accepted(x) == x.auth = "good" \/ (x.auth = "scoped" /\ x.route = "r1")

(* the decision: which recorded function runs *)
Decide(x) ==
    IF x.route = "none" THEN "error"                                   \* no routing entry: nothing can be dispatched
    ELSE IF x.verifier /\ ~Accepted(x) THEN "error"                    \* the gate: before any lookup, for every request
    ELSE IF x.route \in x.registered THEN "handler"
    ELSE IF x.unknown THEN "unknown"
    ELSE "error"

Init == c \in Cases
Next == UNCHANGED c
Spec == Init /\ [][Next]_<<c>>

(* C19.gate: with a verifier configured, a request without accepted authentication runs no handler of any kind *)
Gate == (c.verifier /\ ~Accepted(c)) => Decide(c) = "error"
(* dispatch is exact: a registered route is never shadowed by the unknown-route handler, an unregistered one never reaches a handler *)
Exact == /\ (Decide(c) = "handler" => c.route \in c.registered)
         /\ (Decide(c) = "unknown" => c.route \notin c.registered /\ c.unknown)
(* what other interaction types have registered, and where the routing entry sits, does not matter *)
Independent == \A o \in {"none", "all"}, p \in {"first", "after_auth", "last"} : Decide([c EXCEPT !.others = o, !.pos = p]) = Decide(c)

Emit == PrintT(ToJson([c |-> c, d |-> Decide(c)]))
=============================================================================
