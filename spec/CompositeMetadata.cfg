SPECIFICATION Spec
INVARIANT LengthsConsistent
INVARIANT WithinLimits
INVARIANT Emit
