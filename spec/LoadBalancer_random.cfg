SPECIFICATION Spec
CONSTANTS N = 2
          MaxCalls = 3
          Kinds = {"rr", "fnf", "stream", "channel", "push"}
          Strategy = "random"
INVARIANT RoundRobinOrder
INVARIANT Balanced
INVARIANT ConnectInOrder
INVARIANT CloseReachesEveryMember
