SPECIFICATION Spec
CONSTANTS N = 3
          CompleteWithLast = FALSE
          FailAt = 3
          Buffered = FALSE
          RestartsOnLateRequest = FALSE
          Replenish = FALSE
          Grants = {0, 1, 2, 99}
          Big = 99
          MaxCalls = 3
          MaxSteps = 2
          MaxLate = 0
          Js = {1, 2, 4}
INVARIANT TypeOK
INVARIANT WithinCredit
INVARIANT AskedIsGranted
INVARIANT AllDeliveredWhenCreditSuffices
INVARIANT CompleteOnlyAtTheEnd
INVARIANT ErrorPreserved
INVARIANT CompletionWhenCreditSuffices
PROPERTY NothingAfterCancel
PROPERTY TerminalIsFinal
