----------------------------- MODULE Transport -----------------------------
(***************************************************************************)
(* A message transport (rsocket/transports/abstract_messaging.py and the   *)
(* glue classes over aiohttp - client and server side -, quart, websockets, *)
(* asyncwebsockets, Django channels, websocket over HTTP/3 - server side    *)
(* and client side) as a function of the sequence of                        *)
(* websocket messages the peer sends and of how the websocket ends:         *)
(*                                                                         *)
(*   "good"   a BINARY message holding one valid frame                      *)
(*   "junk"   a BINARY message that does not decode as a frame              *)
(*   "empty"  a BINARY message of zero bytes                                *)
(*   "text"   a message that is not BINARY (TEXT / PING / PONG ...)         *)
(*   ending   "open": the websocket stays open; "close": its message        *)
(*            iterator ends; "error": its message iterator raises           *)
(*                                                                         *)
(* What reaches the endpoint through next_frame_generator(), in order: one  *)
(* frame per good message; an undecodable message yields no frame (at most  *)
(* an invalid-frame marker) and disturbs nothing after it (C04); a message  *)
(* that is not BINARY is skipped (C12: no input of the peer wedges the      *)
(* connection).  AS IMPLEMENTED, named: only the client-side transports     *)
(* (aiohttp client, asyncwebsockets) and the HTTP/3 server side hand the    *)
(* endpoint a transport error                                               *)
(* when the websocket fails (`Surfaces`); none tells it that the websocket  *)
(* was closed in an orderly way (C11 anchors the TCP transport only).       *)
(* Frames sent: one BINARY message per frame, holding its one-shot          *)
(* serialisation.                                                           *)
(* TLC enumerates the sequences up to MaxLen, checks the invariants and     *)
(* prints the table; vf/props/transportmodel.py replays every row on every  *)
(* real transport class over a scripted websocket object.                   *)
(***************************************************************************)
EXTENDS Naturals, Sequences, FiniteSets, TLC, Json

CONSTANTS MaxLen
Kinds == {"good", "junk", "empty", "text"}
Endings == {"open", "close", "error"}

VARIABLE c      \* [msgs, ending]
Seqs == UNION {[1..n -> Kinds] : n \in 0..MaxLen}
Cases == [msgs : Seqs, ending : Endings]

(* what the endpoint is handed, message by message: the index of the good message, "invalid" (marker or nothing), or nothing *)
RECURSIVE Deliver(_, _)
Deliver(ms, k) == IF ms = <<>> THEN <<>>
                  ELSE IF Head(ms) = "good" THEN <<k>> \o Deliver(Tail(ms), k + 1)
                  ELSE IF Head(ms) \in {"junk", "empty"} THEN <<0>> \o Deliver(Tail(ms), k)      \* 0: an invalid-frame marker, or nothing
                  ELSE Deliver(Tail(ms), k)                                                      \* not BINARY: skipped

Frames(d) == SelectSeq(d, LAMBDA x : x > 0)
Expected(x) == [delivered |-> Deliver(x.msgs, 1), error_when_surfaced |-> x.ending = "error"]

Init == c \in Cases
Next == UNCHANGED c
Spec == Init /\ [][Next]_<<c>>

NGood(ms) == Len(SelectSeq(ms, LAMBDA m : m = "good"))
(* C04: each message yields exactly the frame it contains, in order, none lost or duplicated, whatever surrounds it *)
GoodInOrderOnce == Frames(Expected(c).delivered) = [i \in 1..NGood(c.msgs) |-> i]
(* C04 / C12: removing the messages that carry no frame changes nothing for the frames *)
JunkDisturbsNothing == Frames(Deliver(SelectSeq(c.msgs, LAMBDA m : m = "good"), 1)) = Frames(Expected(c).delivered)
Emit == PrintT(ToJson([c |-> c, e |-> Expected(c)]))
=============================================================================
