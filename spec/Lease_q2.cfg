SPECIFICATION Spec
CONSTANTS MaxReq = 4
          Grants <- GrantsSmall
          MaxLeases = 2
          MaxClock = 4
          MaxReconnects = 0
          OvertakesHeld = FALSE
          AppActsOnHeld = FALSE
          QSize = 2
INVARIANT TypeOK
INVARIANT NoRequestBeforeFirstLease
INVARIANT CountWithinGrant
INVARIANT NoneAfterTtl
INVARIANT FifoOnce
INVARIANT Accounted
INVARIANT RetainedUpToQueueSize
INVARIANT NothingWaitsUnderUsableLease
