SPECIFICATION Spec
CONSTANTS MaxReq = 3
          Grants <- GrantsSmall
          MaxLeases = 2
          MaxClock = 4
          MaxReconnects = 0
          OvertakesHeld = FALSE
          AppActsOnHeld = TRUE
          QSize = 0
INVARIANT TypeOK
INVARIANT NothingOvertakesItsRequest
INVARIANT BehindOnlyHeld
INVARIANT NoRequestBeforeFirstLease
INVARIANT CountWithinGrant
INVARIANT NoneAfterTtl
INVARIANT FifoOnce
INVARIANT Accounted
INVARIANT RetainedUpToQueueSize
INVARIANT NothingWaitsUnderUsableLease
