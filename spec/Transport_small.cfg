SPECIFICATION Spec
CONSTANTS MaxLen = 3
INVARIANT GoodInOrderOnce
INVARIANT JunkDisturbsNothing
INVARIANT Emit
