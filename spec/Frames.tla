------------------------------- MODULE Frames -------------------------------
(***************************************************************************)
(* The RSocket 1.0 wire layout of the 14 frame types (C02), written from   *)
(* the protocol, independently of rsocket/frame.py.                        *)
(*                                                                         *)
(* A frame VALUE is a record; its ENCODING is a sequence of items:         *)
(*   item >= 0  : one byte                                                 *)
(*   item <  0  : an opaque blob  -(len * 8 + tag)  standing for `len`     *)
(*                arbitrary bytes (tag 1 metadata, 2 data, 3 metadata MIME,*)
(*                4 data MIME, 5 resume token) - the codec never inspects  *)
(*                them; the replayer instantiates them with random bytes.  *)
(* Multi-byte numbers are byte tuples (TLC integers are 32-bit).           *)
(*                                                                         *)
(* TLC enumerates the value domain (every type x flag combination x        *)
(* boundary values of every numeric field x blob length classes) as        *)
(* initial states, checks Decode(Encode(f)) = f and the length identities  *)
(* in the model, and prints (f, Encode(f)) as JSON; vf/props/c02.py        *)
(* replays every printed value on the real codec with both back-ends.      *)
(***************************************************************************)
EXTENDS Naturals, Integers, Sequences, FiniteSets, TLC, Json

VARIABLE f
vars == <<f>>

Blob(len, tag) == 0 - (len * 8 + tag)
IsBlob(x) == x < 0
BlobLen(x) == (0 - x) \div 8
BlobTag(x) == (0 - x) % 8

U16(n) == <<n \div 256, n % 256>>
U24(n) == <<n \div 65536, (n \div 256) % 256, n % 256>>

(* boundary values of the numeric fields, as byte tuples *)
SidsStream == {<<0, 0, 0, 1>>, <<0, 0, 0, 2>>, <<127, 255, 255, 255>>, <<0, 1, 0, 0>>}
Sid0 == <<0, 0, 0, 0>>
U31s == {<<0, 0, 0, 1>>, <<0, 0, 1, 244>>, <<127, 255, 255, 255>>}               \* positive 31-bit values
ReqNs == {<<0, 0, 0, 1>>, <<0, 0, 0, 5>>, <<127, 255, 255, 255>>, <<128, 0, 0, 0>>, <<255, 255, 255, 255>>}    \* the field is 32 bits wide on the wire and in the codec
U63s == {<<0, 0, 0, 0, 0, 0, 0, 0>>, <<0, 0, 0, 0, 0, 0, 0, 1>>, <<127, 255, 255, 255, 255, 255, 255, 255>>, <<0, 0, 0, 1, 0, 0, 0, 0>>}
ErrorCodes == {<<0, 0, 0, 1>>, <<0, 0, 0, 2>>, <<0, 0, 0, 3>>, <<0, 0, 0, 4>>, <<0, 0, 1, 1>>, <<0, 0, 1, 2>>,
               <<0, 0, 2, 1>>, <<0, 0, 2, 2>>, <<0, 0, 2, 3>>, <<0, 0, 2, 4>>, <<255, 255, 255, 255>>}
Versions == {<<0, 1, 0, 0>>, <<255, 255, 255, 255>>}
MdLens == {0, 1, 300}             \* 0 = no metadata (flag clear)
MdLensBig == MdLens \cup {65536, 70000}   \* ... lengths that need the upper byte of the 24-bit metadata-length field
DLens == {0, 1, 70000}
MimeLens == {0, 1, 127}
TokenLens == {0, 1, 65535}
Bool == {0, 1}

TypeId(ft) == CASE ft = "SETUP" -> 1 [] ft = "LEASE" -> 2 [] ft = "KEEPALIVE" -> 3 [] ft = "REQUEST_RESPONSE" -> 4
                [] ft = "REQUEST_FNF" -> 5 [] ft = "REQUEST_STREAM" -> 6 [] ft = "REQUEST_CHANNEL" -> 7 [] ft = "REQUEST_N" -> 8
                [] ft = "CANCEL" -> 9 [] ft = "PAYLOAD" -> 10 [] ft = "ERROR" -> 11 [] ft = "METADATA_PUSH" -> 12
                [] ft = "RESUME" -> 13 [] ft = "RESUME_OK" -> 14

(* all fields present in every value so that records are uniform; fields a type does not have are zero *)
Base == [ft |-> "", sid |-> Sid0, I |-> 0, F |-> 0, C |-> 0, N |-> 0, ml |-> 0, dl |-> 0, n |-> <<0, 0, 0, 0>>, code |-> <<0, 0, 0, 0>>,
         pos |-> <<0, 0, 0, 0, 0, 0, 0, 0>>, pos2 |-> <<0, 0, 0, 0, 0, 0, 0, 0>>, ver |-> <<0, 0, 0, 0>>, ka |-> <<0, 0, 0, 0>>,
         life |-> <<0, 0, 0, 0>>, tok |-> -1, mml |-> 0, dml |-> 0]

Domain ==
    {[Base EXCEPT !.ft = "SETUP", !.I = i, !.C = lease, !.F = IF tok >= 0 THEN 1 ELSE 0, !.tok = tok, !.ver = v, !.ka = ka, !.life = life,
                  !.mml = mml, !.dml = dml, !.ml = ml, !.dl = dl] :
        i \in Bool, lease \in Bool, tok \in {-1} \cup TokenLens, v \in Versions, ka \in {<<0, 0, 1, 244>>, <<127, 255, 255, 255>>},
        life \in {<<0, 0, 0, 1>>, <<0, 9, 39, 192>>}, mml \in MimeLens, dml \in {1, 127}, ml \in MdLens, dl \in {0, 70000}}
    \cup {[Base EXCEPT !.ft = "LEASE", !.I = i, !.n = n, !.ka = ttl, !.ml = ml] : i \in Bool, n \in U31s, ttl \in U31s, ml \in MdLens}
    \cup {[Base EXCEPT !.ft = "KEEPALIVE", !.I = i, !.F = r, !.pos = p, !.dl = dl] : i \in Bool, r \in Bool, p \in U63s, dl \in DLens}
    \cup {[Base EXCEPT !.ft = t, !.sid = s, !.I = i, !.F = fo, !.ml = ml, !.dl = dl] :
            t \in {"REQUEST_RESPONSE", "REQUEST_FNF"}, s \in SidsStream, i \in Bool, fo \in Bool, ml \in MdLensBig, dl \in DLens}
    \cup {[Base EXCEPT !.ft = "REQUEST_STREAM", !.sid = s, !.I = i, !.F = fo, !.n = n, !.ml = ml, !.dl = dl] :
            s \in SidsStream, i \in Bool, fo \in Bool, n \in ReqNs, ml \in MdLens, dl \in DLens}
    \cup {[Base EXCEPT !.ft = "REQUEST_CHANNEL", !.sid = s, !.I = i, !.F = fo, !.C = c, !.n = n, !.ml = ml, !.dl = dl] :
            s \in SidsStream, i \in Bool, fo \in Bool, c \in Bool, n \in ReqNs, ml \in MdLens, dl \in DLens}
    \cup {[Base EXCEPT !.ft = "REQUEST_N", !.sid = s, !.I = i, !.n = n] : s \in SidsStream, i \in Bool, n \in ReqNs}
    \cup {[Base EXCEPT !.ft = "CANCEL", !.sid = s, !.I = i] : s \in SidsStream, i \in Bool}
    \cup {[Base EXCEPT !.ft = "PAYLOAD", !.sid = s, !.I = i, !.F = fo, !.C = c, !.N = IF ml + dl > 0 THEN 1 ELSE nx, !.ml = ml, !.dl = dl] :
            s \in SidsStream, i \in Bool, fo \in Bool, c \in Bool, nx \in Bool, ml \in MdLensBig, dl \in DLens}
    \cup {[Base EXCEPT !.ft = "ERROR", !.sid = s, !.I = i, !.code = c, !.dl = dl] :
            s \in SidsStream \cup {Sid0}, i \in Bool, c \in ErrorCodes, dl \in DLens}
    \cup {[Base EXCEPT !.ft = "METADATA_PUSH", !.I = i, !.ml = ml] : i \in Bool, ml \in {1, 300}}
    \cup {[Base EXCEPT !.ft = "RESUME", !.I = i, !.ver = v, !.tok = tok, !.pos = p, !.pos2 = q] :
            i \in Bool, v \in Versions, tok \in TokenLens, p \in U63s, q \in U63s}
    \cup {[Base EXCEPT !.ft = "RESUME_OK", !.I = i, !.pos = p] : i \in Bool, p \in U63s}

(* --- encoding ------------------------------------------------------------------------------------------------------ *)
HasM(v) == IF v.ft = "METADATA_PUSH" THEN 1 ELSE IF v.ml > 0 THEN 1 ELSE 0
FlagWord(v) == 512 * v.I + 256 * HasM(v) + 128 * v.F + 64 * v.C + 32 * v.N
Header(v) == v.sid \o <<TypeId(v.ft) * 4 + FlagWord(v) \div 256, FlagWord(v) % 256>>
MdWithLen(v) == IF v.ml > 0 THEN U24(v.ml) \o <<Blob(v.ml, 1)>> ELSE <<>>
MdBare(v) == IF v.ml > 0 THEN <<Blob(v.ml, 1)>> ELSE <<>>
Data(v) == IF v.dl > 0 THEN <<Blob(v.dl, 2)>> ELSE <<>>
Mime(len, tag) == <<len>> \o (IF len > 0 THEN <<Blob(len, tag)>> ELSE <<>>)

Encode(v) ==
    CASE v.ft = "SETUP" -> Header(v) \o v.ver \o v.ka \o v.life
                           \o (IF v.tok >= 0 THEN U16(v.tok) \o (IF v.tok > 0 THEN <<Blob(v.tok, 5)>> ELSE <<>>) ELSE <<>>)
                           \o Mime(v.mml, 3) \o Mime(v.dml, 4) \o MdWithLen(v) \o Data(v)
      [] v.ft = "LEASE" -> Header(v) \o v.ka \o v.n \o MdBare(v)
      [] v.ft = "KEEPALIVE" -> Header(v) \o v.pos \o Data(v)
      [] v.ft \in {"REQUEST_RESPONSE", "REQUEST_FNF", "PAYLOAD"} -> Header(v) \o MdWithLen(v) \o Data(v)
      [] v.ft \in {"REQUEST_STREAM", "REQUEST_CHANNEL"} -> Header(v) \o v.n \o MdWithLen(v) \o Data(v)
      [] v.ft = "REQUEST_N" -> Header(v) \o v.n
      [] v.ft = "CANCEL" -> Header(v)
      [] v.ft = "ERROR" -> Header(v) \o v.code \o Data(v)
      [] v.ft = "METADATA_PUSH" -> Header(v) \o MdBare(v)
      [] v.ft = "RESUME" -> Header(v) \o v.ver \o U16(v.tok) \o (IF v.tok > 0 THEN <<Blob(v.tok, 5)>> ELSE <<>>) \o v.pos \o v.pos2
      [] v.ft = "RESUME_OK" -> Header(v) \o v.pos

RECURSIVE ByteLen(_)
ByteLen(items) == IF items = <<>> THEN 0
                  ELSE (IF IsBlob(Head(items)) THEN BlobLen(Head(items)) ELSE 1) + ByteLen(Tail(items))

(* --- decoding (the inverse, for the round-trip check in the model) ------------------------------------------------------ *)
Take(s, a, k) == SubSeq(s, a, a + k - 1)
TypeName(id) == CHOOSE t \in {"SETUP", "LEASE", "KEEPALIVE", "REQUEST_RESPONSE", "REQUEST_FNF", "REQUEST_STREAM", "REQUEST_CHANNEL",
                              "REQUEST_N", "CANCEL", "PAYLOAD", "ERROR", "METADATA_PUSH", "RESUME", "RESUME_OK"} : TypeId(t) = id

(* metadata (with 24-bit length) then data, starting at item index a *)
DecMdData(s, a, m) ==
    LET ml == IF m = 1 THEN s[a] * 65536 + s[a + 1] * 256 + s[a + 2] ELSE 0
        b == IF m = 1 THEN a + 4 ELSE a              \* three length bytes and one blob item
        dl == IF b <= Len(s) THEN BlobLen(s[b]) ELSE 0
    IN [ml |-> ml, dl |-> dl, okm |-> (m = 0 \/ (IsBlob(s[a + 3]) /\ BlobLen(s[a + 3]) = ml /\ BlobTag(s[a + 3]) = 1))]

Decode(s) ==
    LET tb == s[5]
        fw == (tb % 4) * 256 + s[6]
        ft == TypeName(tb \div 4)
        m == (fw \div 256) % 2
        b0 == [Base EXCEPT !.ft = ft, !.sid = Take(s, 1, 4), !.I = fw \div 512, !.F = (fw \div 128) % 2, !.C = (fw \div 64) % 2,
                           !.N = (fw \div 32) % 2]
    IN CASE ft \in {"REQUEST_RESPONSE", "REQUEST_FNF", "PAYLOAD"} ->
               LET r == DecMdData(s, 7, m) IN [b0 EXCEPT !.ml = r.ml, !.dl = r.dl]
         [] ft \in {"REQUEST_STREAM", "REQUEST_CHANNEL"} ->
               LET r == DecMdData(s, 11, m) IN [b0 EXCEPT !.n = Take(s, 7, 4), !.ml = r.ml, !.dl = r.dl]
         [] ft = "REQUEST_N" -> [b0 EXCEPT !.n = Take(s, 7, 4)]
         [] ft = "CANCEL" -> b0
         [] ft = "ERROR" -> [b0 EXCEPT !.code = Take(s, 7, 4), !.dl = IF Len(s) >= 11 THEN BlobLen(s[11]) ELSE 0]
         [] ft = "KEEPALIVE" -> [b0 EXCEPT !.pos = Take(s, 7, 8), !.dl = IF Len(s) >= 15 THEN BlobLen(s[15]) ELSE 0]
         [] ft = "LEASE" -> [b0 EXCEPT !.ka = Take(s, 7, 4), !.n = Take(s, 11, 4), !.ml = IF m = 1 /\ Len(s) >= 15 THEN BlobLen(s[15]) ELSE 0]
         [] ft = "METADATA_PUSH" -> [b0 EXCEPT !.ml = IF Len(s) >= 7 THEN BlobLen(s[7]) ELSE 0]
         [] ft = "RESUME_OK" -> [b0 EXCEPT !.pos = Take(s, 7, 8)]
         [] ft = "RESUME" ->
               LET tl == s[11] * 256 + s[12]
                   a == IF tl > 0 THEN 14 ELSE 13
               IN [b0 EXCEPT !.ver = Take(s, 7, 4), !.tok = tl, !.pos = Take(s, a, 8), !.pos2 = Take(s, a + 8, 8)]
         [] ft = "SETUP" ->
               LET hasTok == b0.F = 1
                   tl == IF hasTok THEN s[19] * 256 + s[20] ELSE -1
                   a == IF hasTok THEN (IF tl > 0 THEN 22 ELSE 21) ELSE 19
                   mml == s[a]
                   a2 == a + 1 + (IF mml > 0 THEN 1 ELSE 0)
                   dml == s[a2]
                   a3 == a2 + 1 + (IF dml > 0 THEN 1 ELSE 0)
                   r == DecMdData(s, a3, m)
               IN [b0 EXCEPT !.ver = Take(s, 7, 4), !.ka = Take(s, 11, 4), !.life = Take(s, 15, 4), !.tok = tl, !.mml = mml, !.dml = dml,
                             !.ml = r.ml, !.dl = r.dl]

(* --- the model ------------------------------------------------------------------------------------------------------------ *)
Init == f \in Domain
Next == UNCHANGED f
Spec == Init /\ [][Next]_vars

RoundTrip == Decode(Encode(f)) = f

(* length identities: header is 6 bytes; the 24-bit length equals the metadata length; a payload with content has `next` *)
Lengths ==
    /\ ByteLen(Header(f)) = 6
    /\ (f.ft = "PAYLOAD" /\ f.ml + f.dl > 0 => f.N = 1)
    /\ ByteLen(Encode(f)) >= 6 + f.ml + f.dl
    /\ (f.ft \in {"REQUEST_RESPONSE", "REQUEST_FNF", "PAYLOAD"} => ByteLen(Encode(f)) = 6 + (IF f.ml > 0 THEN 3 + f.ml ELSE 0) + f.dl)
    /\ (f.ft \in {"REQUEST_STREAM", "REQUEST_CHANNEL"} => ByteLen(Encode(f)) = 10 + (IF f.ml > 0 THEN 3 + f.ml ELSE 0) + f.dl)

Emit == PrintT(ToJson([v |-> f, items |-> Encode(f)]))
=============================================================================
