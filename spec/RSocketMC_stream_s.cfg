SPECIFICATION MSpec
CONSTANTS Kind = "stream"
          Init_ = "s"
          MaxElems = 2
          Credits = {1, 2}
          MaxGrants = 1
          HasPub = TRUE
          LibSource = FALSE
INVARIANT NoClauseFails
INVARIANT DeliveredIsPrefixOfHanded
INVARIANT FutureOnce
INVARIANT NothingRetained
