SPECIFICATION Spec
CONSTANTS MaxReconnects = 1
          MaxCuts = 1
          MaxProbes = 0
          MaxPends = 0
          MaxRaces = 1
          MaxTicks = 0
          MaxFnfs = 2
          MaxBlocks = 1
          Firsts = {"close", "reconnect"}
          Js = {0, 2, 4, 7}
INVARIANT TypeOK
INVARIANT CloseOncePerConnection
INVARIANT OldTransportsClosed
INVARIANT WaitsOnlyOnDeadConnection
INVARIANT Accounted
INVARIANT NothingPendingOnDeadConnection
INVARIANT ClosedStaysClosed
INVARIANT FnfAccounted
INVARIANT NothingUnsentOnDeadConnection
INVARIANT FnfWaitsOnlyOnDeadConnection
INVARIANT AllClosedAfterClose
