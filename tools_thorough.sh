#!/bin/sh
# usage: tools_thorough.sh <property>...   runs the thorough tier of the given checks (no evidence written), one line each
export VERIF_NO_EVIDENCE=1
[ -n "$VP_RUN_REPO" ] && export VERIF_REPO=$VP_RUN_REPO
for p in "$@"; do
  t0=$(date +%s)
  out=$(./check $p --tier thorough 2>&1); rc=$?
  echo "thorough $p rc=$rc $(( $(date +%s) - t0 ))s $(echo "$out" | grep -E 'failing clause|MACHINERY' | head -3 | cut -c1-200 | tr '\n' '|')"
done
