#!/bin/sh
# usage: tools_seeds_all.sh [tier] [parallel]   re-tests every seeded change (seeded/<id>/) against the check of the property it breaks,
# each on its own scratch copy of /repo (VERIF_REPO), so /repo itself is never touched.  One line per seed; exit 1 if one is missed.
root=$(cd "$(dirname "$0")" && pwd)
tier=${1:-quick}; par=${2:-3}
one() {
  d=$1; tier=$2
  id=$(basename "$d")
  prop=$(/venv/bin/python -c "import json,sys; print(json.load(open('$d/meta.json'))['breaks_property'])" 2>/dev/null) || exit 0
  scratch=$(mktemp -d /tmp/seedrepo.XXXXXX)
  mkdir -p "$scratch/repo"
  git -C ${VP_RUN_REPO:-/repo} archive HEAD | tar -x -C "$scratch/repo"
  if ( cd "$scratch/repo" && git init -q . && git apply "$d/patch.diff" ); then
    out=$(cd "$root" && VERIF_REPO="$scratch/repo" VERIF_NO_EVIDENCE=1 ./check "$prop" --tier "$tier" 2>&1); rc=$?
    echo "seed $id property $prop tier $tier: rc=$rc $(echo "$out" | grep -E 'failing clause' | head -2 | cut -c1-120 | tr '\n' '|')"
  else
    echo "seed $id: patch does not apply rc=9"
  fi
  rm -rf "$scratch"
}
if [ "$1" = "--one" ]; then one "$2" "$3"; exit 0; fi
mkdir -p "$root/.work"; ls -d "$root"/seeded/*/ | xargs -P "$par" -I{} "$root/tools_seeds_all.sh" --one {} "$tier" | tee "$root/.work/seeds_all.log"
if grep -v "rc=1 " "$root/.work/seeds_all.log" | grep -q "^seed"; then exit 1; fi
exit 0
