#!/bin/sh
# usage: tools_seeds_all.sh [tier]   re-tests every seeded change (seeded/<id>/) against the check of the property it breaks,
# on a scratch copy of /repo (VERIF_REPO), so /repo itself is never touched.  One line per seed; exit 1 if one is missed.
tier=${1:-quick}
scratch=$(mktemp -d /tmp/seedrepo.XXXXXX)
trap 'rm -rf "$scratch"' EXIT
missed=0
for d in /verif/seeded/*/; do
  id=$(basename "$d")
  prop=$(/venv/bin/python -c "import json,sys; print(json.load(open('$d/meta.json'))['breaks_property'])" 2>/dev/null) || continue
  rm -rf "$scratch/repo"; mkdir -p "$scratch/repo"
  git -C ${VP_RUN_REPO:-/repo} archive HEAD | tar -x -C "$scratch/repo"
  ( cd "$scratch/repo" && git init -q . && git apply "$d/patch.diff" ) || { echo "seed $id: patch does not apply"; missed=1; continue; }
  out=$(cd /verif && VERIF_REPO="$scratch/repo" VERIF_NO_EVIDENCE=1 ./check "$prop" --tier "$tier" 2>&1); rc=$?
  echo "seed $id property $prop tier $tier: rc=$rc $(echo "$out" | grep -E 'failing clause' | head -2 | cut -c1-120 | tr '\n' '|')"
  [ "$rc" = 1 ] || missed=1
done
exit $missed
