#!/bin/bash
# usage: tools_suite_on_patch.sh <patch.diff> [workers]   runs the repository's pinned suite on a scratch copy of /repo with the patch
# applied and reports which of the stable-pass tests of /root/.vp/BASELINE.json did not pass.  The copy is removed afterwards.
patch=$(readlink -f "$1"); n=${2:-6}
scratch=$(mktemp -d /tmp/suiterepo.XXXXXX); trap 'rm -rf "$scratch"' EXIT
mkdir -p $scratch/repo; git -C /repo archive HEAD | tar -x -C $scratch/repo
cd $scratch/repo && git init -q . && git apply "$patch" || { echo "patch does not apply"; exit 2; }
PYTHONPATH=$scratch/repo unshare -rn sh -c "ip link set lo up 2>/dev/null; /venv/bin/python -m pytest -q -p no:cacheprovider --timeout=900 --continue-on-collection-errors -n $n --junitxml=$scratch/junit.xml > $scratch/log.txt 2>&1"
report() { /venv/bin/python - "$@" <<'PY'
import json, sys, xml.etree.ElementTree as ET
base = json.load(open('/root/.vp/BASELINE.json'))
stable = set(base['stable_pass'])
status = {}
for f in sys.argv[1:]:
    try:
        root = ET.parse(f).getroot()
    except Exception:
        continue
    for tc in root.iter('testcase'):
        name = tc.get('classname') + '::' + tc.get('name')
        bad = any(ch.tag in ('failure', 'error', 'skipped') for ch in tc)
        if not bad or name not in status:
            status[name] = 'fail' if bad else 'pass'      # a test counts as passing if it passed in any of the runs (load-dependent flakes)
missing = sorted(t for t in stable if status.get(t) != 'pass')
print('stable tests passing: %d / %d' % (len(stable) - len(missing), len(stable)))
for t in missing:
    print('NOT PASSING:', t, status.get(t))
open(sys.argv[1] + '.retry', 'w').write('\n'.join(t.replace('.', '/', t.split('::')[0].count('.')).replace('::', '.py::', 1) for t in missing))
PY
}
report $scratch/junit.xml | head -3
# the tests that did not pass are run again, serially (the suite has load-dependent flakes: servers started after sleep(0), timing assertions)
for round in 1 2; do
  [ -s $scratch/junit.xml.retry ] || break
  PYTHONPATH=$scratch/repo unshare -rn sh -c "ip link set lo up 2>/dev/null; /venv/bin/python -m pytest -q -p no:cacheprovider --timeout=900 --junitxml=$scratch/junit_r$round.xml $(tr '\n' ' ' < $scratch/junit.xml.retry) > $scratch/log_r$round.txt 2>&1"
  report $scratch/junit.xml $scratch/junit_r*.xml > $scratch/rep.txt
done
[ -f $scratch/rep.txt ] && { echo "after serial re-runs:"; cat $scratch/rep.txt; }
