#!/bin/sh
# Offline setup: nothing to build (specs are text, the harness is stdlib Python run by /venv/bin/python).
# Verifies the toolchain and parses every specification with SANY.
cd "$(dirname "$0")" || exit 2
command -v java >/dev/null || { echo "java missing"; exit 2; }
test -f /opt/veriftools/tla/tla2tools.jar || { echo "tla2tools.jar missing"; exit 2; }
test -x /venv/bin/python || { echo "/venv/bin/python missing"; exit 2; }
mkdir -p .work evidence
rc=0
for f in spec/*.tla; do
  m=$(basename "$f" .tla)
  if grep -q "^EXTENDS.*Apalache" "$f"; then
    # a specification for the symbolic checker: parsed by Apalache itself (its standard module is not on TLC's classpath)
    command -v apalache-mc >/dev/null || { echo "apalache-mc missing"; rc=2; continue; }
    out=$(cd spec && apalache-mc parse --out-dir=../.work/apalache_parse "$m.tla" 2>&1); rm -rf .work/apalache_parse
    echo "$out" | grep -q "EXITCODE: OK" || { echo "Apalache parse FAILED: $m"; echo "$out" | tail -10; rc=2; }
    continue
  fi
  out=$(cd spec && java -cp /opt/veriftools/tla/tla2tools.jar:/opt/veriftools/tla/CommunityModules-deps.jar tla2sany.SANY "$m.tla" 2>&1)
  if echo "$out" | grep -q -E "Semantic errors|Parse Error|\*\*\* Errors|Fatal errors|Could not"; then echo "SANY FAILED: $m"; echo "$out" | tail -20; rc=2; fi
done
PYTHONPATH="$(pwd):/repo" /venv/bin/python -c "import vf.cli, rsocket" || rc=2
[ $rc -eq 0 ] && echo "setup ok"
exit $rc
